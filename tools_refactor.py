"""Usage: tools_refactor.py <dir with patch.diff>  -- a BEHAVIOUR-PRESERVING change must not raise an alarm.

Applies the patch to /repo, runs every check's quick tier, undoes the patch, and writes <dir>/result.json.  Exit codes
per property: 0 held, 1 VIOLATION (a false alarm here), 2 undecided, 3 checker error (the harness needs attention).
Evidence files are kept as they were (they describe runs against /repo itself)."""
import json, os, subprocess, sys

sd = os.path.abspath(sys.argv[1])
patch = os.path.join(sd, "patch.diff")
props = sys.argv[2:] or [f"C{i:02d}" for i in range(1, 20)]
saved = {p: open(f"/verif/evidence/{p}.json").read() for p in props if os.path.exists(f"/verif/evidence/{p}.json")}
subprocess.check_call(["git", "-C", "/repo", "apply", patch])
res = {}
try:
    for p in props:
        r = subprocess.run(["./check", p], cwd="/verif", capture_output=True, text=True, timeout=3600)
        lines = [l for l in r.stdout.splitlines() if l.startswith(("VIOLATION", "UNDECIDED", "CHECKER-ERROR", "[" + p))]
        res[p] = {"exit": r.returncode, "lines": lines[:6]}
        print(p, r.returncode, flush=True)
finally:
    subprocess.check_call(["git", "-C", "/repo", "checkout", "--", "."])
    for p, text in saved.items():
        open(f"/verif/evidence/{p}.json", "w").write(text)
json.dump({"alarms": [p for p, v in res.items() if v["exit"] == 1], "not_decided": [p for p, v in res.items() if v["exit"] in (2, 3)], "checks": res},
          open(os.path.join(sd, "result.json"), "w"), indent=1)
print(json.dumps({p: v["exit"] for p, v in res.items()}))
