#!/usr/bin/env python3
"""Confirm a seeded change and run the checks against it.
   tools_seed.py <seeded/ID> <PROP> [<PROP> ...]
 1. in a scratch worktree of /repo: demo.py passes without the patch and fails with it;
 2. apply the patch to /repo, run ./check <PROP> for each property, undo the patch;
 3. write seeded/ID/result.json."""
import json, os, subprocess, sys, tempfile, shutil
sd = os.path.abspath(sys.argv[1]); props = sys.argv[2:]
patch = os.path.join(sd, "patch.diff"); demo = os.path.join(sd, "demo.py")
res = {"seed": os.path.basename(sd), "checks": {}}
wt = tempfile.mkdtemp(prefix="seedwt_")
shutil.rmtree(wt)
subprocess.check_call(["git", "-C", "/repo", "worktree", "add", "-q", "--detach", wt, "HEAD"])
try:
    env = dict(os.environ, PYTHONPATH=wt)
    r0 = subprocess.run(["/venv/bin/python", demo], cwd=wt, env=env, capture_output=True, text=True, timeout=1800)
    subprocess.check_call(["git", "-C", wt, "apply", patch])
    r1 = subprocess.run(["/venv/bin/python", demo], cwd=wt, env=env, capture_output=True, text=True, timeout=1800)
    res["demo_without_patch_exit"] = r0.returncode
    res["demo_with_patch_exit"] = r1.returncode
    res["demo_with_patch_tail"] = (r1.stdout + r1.stderr)[-600:]
finally:
    subprocess.call(["git", "-C", "/repo", "worktree", "remove", "--force", wt])
subprocess.check_call(["git", "-C", "/repo", "apply", patch])
# evidence files describe runs against /repo itself: keep them, a run against a patched tree must not replace them
saved = {p: open(f"/verif/evidence/{p}.json").read() for p in props if os.path.exists(f"/verif/evidence/{p}.json")}
try:
    for p in props:
        r = subprocess.run(["./check", p], cwd="/verif", capture_output=True, text=True, timeout=3600)
        lines = [l for l in r.stdout.splitlines() if l.startswith(("VIOLATION", "[" + p))]
        res["checks"][p] = {"exit": r.returncode, "violations": sum(1 for l in lines if l.startswith("VIOLATION")),
                            "first": [l for l in lines if l.startswith("VIOLATION")][:3], "summary": [l for l in lines if l.startswith("[")]}
finally:
    subprocess.check_call(["git", "-C", "/repo", "checkout", "--", "."])
    for p, text in saved.items():
        open(f"/verif/evidence/{p}.json", "w").write(text)
res["caught_by"] = [p for p, v in res["checks"].items() if v["exit"] == 1]
json.dump(res, open(os.path.join(sd, "result.json"), "w"), indent=1)
print(json.dumps({k: v for k, v in res.items() if k != "demo_with_patch_tail"}, indent=1)[:1500])
