/-
Machine-checked versions of the mathematical facts the contracts of /verif lean on (DESIGN.md 2.4 / 3.1).
Checked by `lean` (Lean 4 + Mathlib, pre-installed) in the thorough tiers of C01 / C03 / C08 / C13 and by `./check lemmas`.
Nothing is admitted and nothing is postulated: the check scans this file for admitted goals and reads `#print axioms`.
-/
import Mathlib.Data.Matrix.Mul
import Mathlib.Data.Real.Basic
import Mathlib.Algebra.BigOperators.Ring.Finset
import Mathlib.Algebra.Order.BigOperators.Group.Finset
import Mathlib.Algebra.Module.LinearMap.Defs
import Mathlib.Analysis.InnerProductSpace.Basic
import Mathlib.Analysis.SpecialFunctions.Log.Basic
import Mathlib.Analysis.SpecialFunctions.Exp
import Mathlib.Tactic

open Finset

/-- (M1, weak direction; DESIGN 3.1 "safety of the counterpart").  If `z` lies in the polyhedron `D z ≤ d` and `y ≥ 0` with
`yᵀ D = cᵀ`, then `cᵀ z ≤ yᵀ d`: the compiled row `y·d + affine ≤ 0` implies the robust row at every `z` of the set. -/
theorem weak_duality {m n : Type*} [Fintype m] [Fintype n] (D : Matrix m n ℝ) (d : m → ℝ) (c z : n → ℝ) (y : m → ℝ)
    (hz : ∀ i, (D.mulVec z) i ≤ d i) (hy : ∀ i, 0 ≤ y i) (hc : Matrix.vecMul y D = c) :
    dotProduct c z ≤ dotProduct y d := by
  rw [← hc, ← Matrix.dotProduct_mulVec]
  unfold dotProduct
  exact Finset.sum_le_sum (fun i _ => mul_le_mul_of_nonneg_left (hz i) (hy i))

/-- the same with equality rows (free multipliers): rows in `eq` hold with equality, their multipliers carry no sign -/
theorem weak_duality_eq {m n : Type*} [Fintype m] [Fintype n] (D : Matrix m n ℝ) (d : m → ℝ) (c z : n → ℝ) (y : m → ℝ)
    (iseq : m → Prop)
    (hz : ∀ i, (iseq i → (D.mulVec z) i = d i) ∧ (¬ iseq i → (D.mulVec z) i ≤ d i))
    (hy : ∀ i, ¬ iseq i → 0 ≤ y i) (hc : Matrix.vecMul y D = c) :
    dotProduct c z ≤ dotProduct y d := by
  rw [← hc, ← Matrix.dotProduct_mulVec]
  unfold dotProduct
  refine Finset.sum_le_sum (fun i _ => ?_)
  by_cases h : iseq i
  · rw [(hz i).1 h]
  · exact mul_le_mul_of_nonneg_left ((hz i).2 h) (hy i h)

/-- (M3, second-order cone) the cone is self-dual in the sense used by the dual formulation: two members pair non-negatively -/
theorem soc_pairing {E : Type*} [NormedAddCommGroup E] [InnerProductSpace ℝ E] (x y : E) (t s : ℝ)
    (hx : ‖x‖ ≤ t) (hy : ‖y‖ ≤ s) : 0 ≤ t * s + inner ℝ x y := by
  have h1 : |inner ℝ x y| ≤ ‖x‖ * ‖y‖ := abs_real_inner_le_norm x y
  have h2 : ‖x‖ * ‖y‖ ≤ t * s := mul_le_mul hx hy (norm_nonneg y) (le_trans (norm_nonneg x) hx)
  have h3 : -(‖x‖ * ‖y‖) ≤ inner ℝ x y := by
    have := neg_abs_le (inner ℝ x y)
    linarith
  linarith

/-- (A-CARD of engine LV) a finite set of naturals whose members are exactly the numbers below `m` has `m` elements -/
theorem card_of_range (s : Finset ℕ) (m : ℕ) (h : ∀ k, k ∈ s ↔ k < m) : s.card = m := by
  have : s = Finset.range m := by
    ext k
    rw [h k, Finset.mem_range]
  rw [this, Finset.card_range]

/-- (M6) on the positive orthant a rotated second-order cone `l² ≤ u v` is the linear inequality `2 log l ≤ log u + log v` -/
theorem rotated_cone_log (l u v : ℝ) (hl : 0 < l) (hu : 0 < u) (hv : 0 < v) :
    l ^ 2 ≤ u * v ↔ 2 * Real.log l ≤ Real.log u + Real.log v := by
  have h1 : Real.log (l ^ 2) = 2 * Real.log l := by
    rw [Real.log_pow]; norm_num
  have h2 : Real.log (u * v) = Real.log u + Real.log v := Real.log_mul hu.ne' hv.ne'
  rw [← h1, ← h2]
  exact (Real.log_le_log_iff (pow_pos hl 2) (mul_pos hu hv)).symm

/-- (DESIGN 3.1, "safety of the event-wise dual", premise of C03) finite-support version.
Scenarios `S`, events `K` (`mem k s`: scenario `s` belongs to event `k`), in scenario `s` the random vector takes the
values `zpt s j` with conditional probabilities `w s j`.  If every piece is dominated on the support (E1) and the dual
inequality (E2) holds at the point `(p, μ)` of the lifted set given by the conditional means, the expectation is `≤ 0`. -/
theorem dro_safety {S K J Z : Type*} [Fintype S] [Fintype K] [Fintype J] [AddCommGroup Z] [Module ℝ Z]
    (mem : K → S → Prop) [∀ k s, Decidable (mem k s)]
    (p : S → ℝ) (hp : ∀ s, 0 ≤ p s)
    (w : S → J → ℝ) (hw : ∀ s j, 0 ≤ w s j) (hw1 : ∀ s, ∑ j, w s j = 1)
    (zpt : S → J → Z) (g : S → Z → ℝ) (α : S → ℝ) (β : K → (Z →ₗ[ℝ] ℝ))
    (E1 : ∀ s j, g s (zpt s j) ≤ α s + ∑ k, if mem k s then β k (zpt s j) else 0)
    (E2 : (∑ s, α s * p s) + ∑ k, β k (∑ s, if mem k s then p s • (∑ j, w s j • zpt s j) else 0) ≤ 0) :
    ∑ s, p s * ∑ j, w s j * g s (zpt s j) ≤ 0 := by
  have step1 : ∀ s, ∑ j, w s j * g s (zpt s j) ≤ α s + ∑ k, if mem k s then β k (∑ j, w s j • zpt s j) else 0 := by
    intro s
    calc ∑ j, w s j * g s (zpt s j)
        ≤ ∑ j, w s j * (α s + ∑ k, if mem k s then β k (zpt s j) else 0) :=
          Finset.sum_le_sum (fun j _ => mul_le_mul_of_nonneg_left (E1 s j) (hw s j))
      _ = α s + ∑ k, if mem k s then β k (∑ j, w s j • zpt s j) else 0 := by
          simp only [mul_add, Finset.sum_add_distrib]
          rw [← Finset.sum_mul, hw1 s, one_mul]
          congr 1
          simp only [Finset.mul_sum]
          rw [Finset.sum_comm]
          refine Finset.sum_congr rfl (fun k _ => ?_)
          by_cases h : mem k s
          · simp [h, map_sum]
          · simp [h]
  have step2 : ∑ s, p s * ∑ j, w s j * g s (zpt s j)
      ≤ ∑ s, p s * (α s + ∑ k, if mem k s then β k (∑ j, w s j • zpt s j) else 0) :=
    Finset.sum_le_sum (fun s _ => mul_le_mul_of_nonneg_left (step1 s) (hp s))
  have step3 : ∑ s, p s * (α s + ∑ k, if mem k s then β k (∑ j, w s j • zpt s j) else 0)
      = (∑ s, α s * p s) + ∑ k, β k (∑ s, if mem k s then p s • (∑ j, w s j • zpt s j) else 0) := by
    simp only [mul_add, Finset.sum_add_distrib]
    congr 1
    · exact Finset.sum_congr rfl (fun s _ => mul_comm _ _)
    · simp only [Finset.mul_sum]
      rw [Finset.sum_comm]
      refine Finset.sum_congr rfl (fun k _ => ?_)
      rw [map_sum]
      refine Finset.sum_congr rfl (fun s _ => ?_)
      by_cases h : mem k s
      · simp [h]
      · simp [h]
  linarith

/-- (M3, exponential cone) with `K(a,b,c) :⇔ 0 < c ∧ c·exp(a/c) ≤ b` (rsome's `ExpConstr(a, b, c)`), two members pair as
`−r·a + q·b − (p+r)·c ≥ 0`: the fact the C01/C08 harnesses instantiate for the uninterpreted predicate `KEXP`. -/
theorem expcone_pairing (a b c p q r : ℝ) (hc : 0 < c) (hb : c * Real.exp (a / c) ≤ b)
    (hr : 0 < r) (hq : r * Real.exp (p / r) ≤ q) : 0 ≤ -r * a + q * b - (p + r) * c := by
  have e1 : 0 < Real.exp (a / c) := Real.exp_pos _
  have e2 : 0 < Real.exp (p / r) := Real.exp_pos _
  have h1 : (c * Real.exp (a / c)) * (r * Real.exp (p / r)) ≤ b * q :=
    mul_le_mul hb hq (by positivity) (le_trans (by positivity) hb)
  have h3 : a / c + p / r + 1 ≤ Real.exp (a / c + p / r) := Real.add_one_le_exp _
  have key : r * a + (p + r) * c = c * r * (a / c + p / r + 1) := by
    field_simp
    ring
  have h4 : c * r * (a / c + p / r + 1) ≤ c * r * Real.exp (a / c + p / r) :=
    mul_le_mul_of_nonneg_left h3 (by positivity)
  have h5 : c * r * Real.exp (a / c + p / r) = (c * Real.exp (a / c)) * (r * Real.exp (p / r)) := by
    rw [Real.exp_add]; ring
  nlinarith [h1, h4, h5, key]

/-- the boundary of the cone (`c = 0, a ≤ 0, b ≥ 0`, the closure points the numeric predicate of `spec/dual.py` admits) pairs
non-negatively as well, with interior and with boundary points -/
theorem expcone_pairing_boundary_right (a b c p q r : ℝ) (hc : 0 ≤ c) (hb : 0 ≤ b)
    (hr : r = 0) (hp : p ≤ 0) (hq : 0 ≤ q) : 0 ≤ -r * a + q * b - (p + r) * c := by
  subst hr
  nlinarith [mul_nonneg hq hb, mul_nonneg (neg_nonneg.mpr hp) hc]

theorem expcone_pairing_boundary_left (a b c p q r : ℝ) (hc : c = 0) (ha : a ≤ 0) (hb : 0 ≤ b)
    (hr : 0 ≤ r) (hq : 0 ≤ q) : 0 ≤ -r * a + q * b - (p + r) * c := by
  subst hc
  nlinarith [mul_nonneg hq hb, mul_nonneg hr (neg_nonneg.mpr ha)]

/-- (C07, one step of the power-cone tower, SOUND) in the log domain a rotated cone `2 L ≤ U + V` whose two operands carry half of the
degree each, `(D/2) U ≤ S₁` and `(D/2) V ≤ S₂`, gives `D L ≤ S₁ + S₂` — with `S₁ + S₂` the weighted sum of the parent (the
"weights add up" clause of the contract of `IPCone.split`).  A direct operand is the case `S₂ = (D/2) V`. -/
theorem tower_step_sound (D L U V S₁ S₂ : ℝ) (hD : 0 < D) (h : 2 * L ≤ U + V) (h₁ : D / 2 * U ≤ S₁) (h₂ : D / 2 * V ≤ S₂) :
    D * L ≤ S₁ + S₂ := by
  have hD2 : 0 ≤ D / 2 := by linarith
  have := mul_le_mul_of_nonneg_left h hD2
  nlinarith

/-- (C07, one step of the tower, EXACT) every point of the parent cone extends to the step: both operands auxiliary -/
theorem tower_step_exact (D L S₁ S₂ : ℝ) (hD : 0 < D) (h : D * L ≤ S₁ + S₂) :
    ∃ U V : ℝ, 2 * L ≤ U + V ∧ D / 2 * U = S₁ ∧ D / 2 * V = S₂ := by
  refine ⟨S₁ / (D / 2), S₂ / (D / 2), ?_, ?_, ?_⟩
  · have hD2 : 0 < D / 2 := by linarith
    rw [← add_div, le_div_iff₀ hD2]
    nlinarith
  · field_simp
  · field_simp

/-- (C07, one step of the tower, EXACT) one operand is a variable of the cone itself (`V` given), the other auxiliary -/
theorem tower_step_exact_direct (D L S₁ V : ℝ) (hD : 0 < D) (h : D * L ≤ S₁ + D / 2 * V) :
    ∃ U : ℝ, 2 * L ≤ U + V ∧ D / 2 * U = S₁ := by
  refine ⟨S₁ / (D / 2), ?_, ?_⟩
  · have hD2 : 0 < D / 2 := by linarith
    have : S₁ / (D / 2) + V = (S₁ + D / 2 * V) / (D / 2) := by field_simp
    rw [this, le_div_iff₀ hD2]
    nlinarith
  · field_simp

/-- (C07, induction of the tower) the degree handed to a child, half of a power of two, is again even unless the child is a base
case: a child has at least two weights `≥ 1`, so its degree is at least 2 -/
theorem pow_two_even (k : ℕ) (h : 2 ≤ 2 ^ k) : Even (2 ^ k) := by
  cases k with
  | zero => simp at h
  | succ n => exact ⟨2 ^ n, by ring⟩

section TowerInduction

/-- shape of what `IPCone.split` emits: an operand of a rotated cone is a variable of the cone itself or the head of another
rotated cone -/
inductive Tower (ι : Type) where
  | var : ι → Tower ι
  | node : Tower ι → Tower ι → Tower ι

variable {ι : Type}

/-- weight a (sub)tower of degree `d` puts on variable `i`: each rotated cone hands half of its degree to either operand -/
noncomputable def Tower.wt [DecidableEq ι] : Tower ι → ℝ → ι → ℝ
  | .var j, d, i => if i = j then d else 0
  | .node a b, d, i => a.wt (d / 2) i + b.wt (d / 2) i

/-- log-domain meaning of the emitted cones: `x` is the log-value of the head -/
def Tower.sat (R : ι → ℝ) : Tower ι → ℝ → Prop
  | .var j, x => x = R j
  | .node a b, x => ∃ u v : ℝ, 2 * x ≤ u + v ∧ a.sat R u ∧ b.sat R v

theorem tower_sound [Fintype ι] [DecidableEq ι] (R : ι → ℝ) (t : Tower ι) :
    ∀ d x : ℝ, 0 < d → t.sat R x → d * x ≤ ∑ i, t.wt d i * R i := by
  induction t with
  | var j =>
    intro d x _ h
    simp only [Tower.sat] at h
    simp [Tower.wt, h]
  | node a b iha ihb =>
    intro d x hd h
    obtain ⟨u, v, huv, ha, hb⟩ := h
    have h1 := iha (d / 2) u (by linarith) ha
    have h2 := ihb (d / 2) v (by linarith) hb
    have hs : ∑ i, (Tower.node a b).wt d i * R i = ∑ i, a.wt (d / 2) i * R i + ∑ i, b.wt (d / 2) i * R i := by
      simp [Tower.wt, add_mul, Finset.sum_add_distrib]
    rw [hs]
    have hD2 : 0 ≤ d / 2 := by linarith
    have := mul_le_mul_of_nonneg_left huv hD2
    nlinarith

theorem tower_tight [Fintype ι] [DecidableEq ι] (R : ι → ℝ) (t : Tower ι) :
    ∀ d x : ℝ, 0 < d → d * x = ∑ i, t.wt d i * R i → t.sat R x := by
  induction t with
  | var j =>
    intro d x hd h
    simp [Tower.wt] at h
    simp only [Tower.sat]
    rcases h with h | h
    · exact h
    · linarith
  | node a b iha ihb =>
    intro d x hd h
    have hs : ∑ i, (Tower.node a b).wt d i * R i = ∑ i, a.wt (d / 2) i * R i + ∑ i, b.wt (d / 2) i * R i := by
      simp [Tower.wt, add_mul, Finset.sum_add_distrib]
    rw [hs] at h
    have hD2 : 0 < d / 2 := by linarith
    refine ⟨(∑ i, a.wt (d / 2) i * R i) / (d / 2), (∑ i, b.wt (d / 2) i * R i) / (d / 2), ?_, ?_, ?_⟩
    · rw [← add_div, le_div_iff₀ hD2]
      nlinarith
    · exact iha (d / 2) _ hD2 (by field_simp)
    · exact ihb (d / 2) _ hD2 (by field_simp)

/-- EXACT: every point of the power cone `d x ≤ Σ wt_i R_i` extends to the tower (the root is a rotated cone) -/
theorem tower_exact [Fintype ι] [DecidableEq ι] (R : ι → ℝ) (a b : Tower ι) (d x : ℝ) (hd : 0 < d)
    (h : d * x ≤ ∑ i, (Tower.node a b).wt d i * R i) : (Tower.node a b).sat R x := by
  have ht := tower_tight R (Tower.node a b) d ((∑ i, (Tower.node a b).wt d i * R i) / d) hd (by field_simp)
  obtain ⟨u, v, huv, ha, hb⟩ := ht
  refine ⟨u, v, ?_, ha, hb⟩
  have : x ≤ (∑ i, (Tower.node a b).wt d i * R i) / d := by
    rw [le_div_iff₀ hd]; linarith
  linarith

end TowerInduction

section ConeForms
/-! (M5) the textbook exponential-cone forms that C06 / C07 take as the MEANING of log, perspective log, entropy, softplus and
KL-divergence constraints, proved from Mathlib's `Real.exp` / `Real.log` (interior of the cone, `c > 0`; the closure is not examined) -/

/-- interior of the exponential cone as rsome orders it: `(a, b, c)` with `c > 0` and `c·exp(a/c) ≤ b` -/
def Kexp (a b c : ℝ) : Prop := 0 < c ∧ c * Real.exp (a / c) ≤ b

theorem cone_form_exp (x t : ℝ) : Real.exp x ≤ t ↔ Kexp x t 1 := by
  simp [Kexp]

theorem cone_form_log (x t : ℝ) (hx : 0 < x) : t ≤ Real.log x ↔ Kexp t x 1 := by
  simp [Kexp, Real.le_log_iff_exp_le hx]

theorem cone_form_plog (x t s : ℝ) (hx : 0 < x) (hs : 0 < s) : t ≤ s * Real.log (x / s) ↔ Kexp t x s := by
  unfold Kexp
  have hxs : 0 < x / s := div_pos hx hs
  constructor
  · intro h
    refine ⟨hs, ?_⟩
    have h1 : t / s ≤ Real.log (x / s) := by
      rw [div_le_iff₀ hs]; linarith
    have h2 := (Real.le_log_iff_exp_le hxs).mp h1
    calc s * Real.exp (t / s) ≤ s * (x / s) := by exact mul_le_mul_of_nonneg_left h2 hs.le
      _ = x := by field_simp
  · rintro ⟨_, h⟩
    have h2 : Real.exp (t / s) ≤ x / s := by
      rw [le_div_iff₀ hs]; linarith
    have h1 := (Real.le_log_iff_exp_le hxs).mpr h2
    rw [div_le_iff₀ hs] at h1; linarith

/-- entropy, one term: `u ≤ -x log x` is the cone membership `(u, 1, x)` -/
theorem cone_form_entropy (x u : ℝ) (hx : 0 < x) : u ≤ -(x * Real.log x) ↔ Kexp u 1 x := by
  have h := cone_form_plog 1 u x one_pos hx
  have hl : Real.log (1 / x) = -Real.log x := by rw [one_div, Real.log_inv]
  rw [hl] at h
  rw [← h]
  constructor <;> intro h' <;> linarith

/-- KL divergence, one term: `p log(p/q) ≤ u` is the cone membership `(-u/q, 1, p/q)` (what `kldiv` compiles, `q` a positive number) -/
theorem cone_form_kl (p q u : ℝ) (hp : 0 < p) (hq : 0 < q) : p * Real.log (p / q) ≤ u ↔ Kexp (-u / q) 1 (p / q) := by
  have hpq : 0 < p / q := div_pos hp hq
  have h := cone_form_entropy (p / q) (-u / q) hpq
  rw [← h]
  constructor
  · intro h'
    have : -u / q = -(u / q) := by ring
    rw [this, neg_le_neg_iff]
    have : p / q * Real.log (p / q) = (p * Real.log (p / q)) / q := by ring
    rw [this]
    exact div_le_div_of_nonneg_right h' hq.le
  · intro h'
    have e1 : -u / q = -(u / q) := by ring
    rw [e1, neg_le_neg_iff] at h'
    have e2 : p / q * Real.log (p / q) = (p * Real.log (p / q)) / q := by ring
    rw [e2] at h'
    exact (div_le_div_iff_of_pos_right hq).mp h'

/-- softplus: `log(1 + exp x) ≤ t` iff two exponential cones and one linear row -/
theorem cone_form_softplus (x t : ℝ) :
    Real.log (1 + Real.exp x) ≤ t ↔ ∃ a b : ℝ, Kexp (x - t) a 1 ∧ Kexp (-t) b 1 ∧ a + b ≤ 1 := by
  have hpos : 0 < 1 + Real.exp x := by positivity
  have key : Real.exp (x - t) + Real.exp (-t) = (1 + Real.exp x) * Real.exp (-t) := by
    rw [sub_eq_add_neg, Real.exp_add]; ring
  constructor
  · intro h
    refine ⟨Real.exp (x - t), Real.exp (-t), by simp [Kexp], by simp [Kexp], ?_⟩
    rw [key]
    have h2 : 1 + Real.exp x ≤ Real.exp t := (Real.log_le_iff_le_exp hpos).mp h
    have : (1 + Real.exp x) * Real.exp (-t) ≤ Real.exp t * Real.exp (-t) :=
      mul_le_mul_of_nonneg_right h2 (Real.exp_pos _).le
    rw [← Real.exp_add] at this
    simpa using this
  · rintro ⟨a, b, ⟨_, ha⟩, ⟨_, hb⟩, hab⟩
    simp at ha hb
    rw [Real.log_le_iff_le_exp hpos]
    have h1 : (1 + Real.exp x) * Real.exp (-t) ≤ 1 := by rw [← key]; linarith
    have h2 := mul_le_mul_of_nonneg_right h1 (Real.exp_pos t).le
    rw [mul_assoc, ← Real.exp_add] at h2
    simpa using h2

end ConeForms

#print axioms weak_duality
#print axioms weak_duality_eq
#print axioms soc_pairing
#print axioms card_of_range
#print axioms rotated_cone_log
#print axioms dro_safety
#print axioms expcone_pairing
#print axioms expcone_pairing_boundary_right
#print axioms expcone_pairing_boundary_left
#print axioms tower_step_sound
#print axioms tower_step_exact
#print axioms tower_step_exact_direct
#print axioms pow_two_even
#print axioms tower_sound
#print axioms tower_exact
#print axioms cone_form_exp
#print axioms cone_form_log
#print axioms cone_form_plog
#print axioms cone_form_entropy
#print axioms cone_form_kl
#print axioms cone_form_softplus
