#!/bin/bash
# revert each of today's fix commits on a scratch worktree and require the associated check to report a violation
declare -A PROP=( [90f29f1]=C05 [992d5cf]=C05 [701fc8d]=C18 [06e3b93]="C06 C12" [5688ec4]=C01 [eb49857]=C13 [f2ba281]=C13 [dde3ad3]=C09 [1a95970]=C09 [bd89314]=C10 [752f5ff]=C12 [7416e1c]=C15 [d89a871]=C05 [0d39486]=C09 [3e02ac1]=C13 [045c56b]=C10 [a5674b2]=C12 [e781dec]=C14 [a53aa76]=C15 [203b202]=C01 [ef93e68]=C13 [1f19af9]=C06 )
for h in "${!PROP[@]}"; do
  wt=/tmp/rv_$h; out=/tmp/rvout_$h
  git -C /repo worktree add -q --detach $wt HEAD
  if git -C $wt revert -n $h >/dev/null 2>&1; then
    res=""
    for p in ${PROP[$h]}; do
      RVERIF_REPO=$wt RVERIF_OUT=$out /verif/check $p --tier quick > $out.$p.log 2>&1; rc=$?
      res="$res $p:rc=$rc:viol=$(grep -c '^VIOLATION' $out.$p.log)"
    done
    echo "$h reverted ->$res"
  else
    echo "$h revert conflicts (skipped)"
  fi
  git -C /repo worktree remove --force $wt; rm -rf $out $out.*.log.keep
done
