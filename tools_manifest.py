#!/usr/bin/env python3
"""Regenerate MANIFEST.json from the property modules that exist (keeps it valid at all times)."""
import json, os, sys, importlib
ROOT = os.path.dirname(os.path.abspath(__file__))
sys.path.insert(0, ROOT); sys.path.insert(0, os.path.join(ROOT, ".pydeps"))
ALL = [f"C{i:02d}" for i in range(1, 20)]
BASE = "cd /repo && /venv/bin/python -m pytest -ra -q -p no:cacheprovider --timeout=900 --continue-on-collection-errors"
NOT_BUILT = "within reach of the technique (DESIGN.md section 5) but the harness is not built yet; not claimed"
CLAIMS = json.load(open(os.path.join(ROOT, "claims.json")))
checks, na = [], []
for p in ALL:
    c = CLAIMS.get(p)
    if c and c.get("claimed"):
        checks.append({
            "property_id": p,
            "quick_cmd": f"./check {p} --tier quick",
            "thorough_cmd": f"./check {p} --tier thorough",
            "evidence_file": f"evidence/{p}.json",
            "replay_cmd_template": "./check --replay {path}",
            "engine": "rverif",
            "level_claimed": {"category": c["category"], "text": c["text"], "design_ref": c.get("design_ref", "DESIGN.md 5/" + p)},
            "level_note": c["note"],
            "technique": c["technique"],
        })
    else:
        na.append({"property_id": p, "reason": (c or {}).get("reason", NOT_BUILT)})
man = {
    "version": 1,
    "setup_cmd": "/venv/bin/python -m pip install -q --no-index --find-links /opt/veriftools/wheels --target /verif/.pydeps z3-solver cvc5 jsonschema",
    "hooks": {"guard": "RSOME_VERIF", "enable": "not used: no source hooks; the verifier rebinds rsome's numpy/scipy names in its own process only",
              "baseline_off_cmd": BASE, "source_commits": [], "add_only": True},
    "engines": [{"name": "rverif", "path": "rverif/", "serves_properties": [c["property_id"] for c in checks],
                 "kind_free_text": "contract-based deductive verification: path-complete symbolic execution of the real rsome functions on proxy scalars, sidecar contracts, VCs discharged by z3 (cvc5 for unknowns), counter-models replayed natively"}],
    "checks": checks,
    "not_applicable": na,
    "notes": "See DESIGN.md. Exit codes of ./check: 0 held, 1 violation (VIOLATION lines), 2 undecided, 3 checker error.",
}
json.dump(man, open(os.path.join(ROOT, "MANIFEST.json"), "w"), indent=1)
try:
    import jsonschema
    jsonschema.validate(man, json.load(open("/root/.vp/MANIFEST.schema.json")))
    print("MANIFEST.json valid;", len(checks), "claimed,", len(na), "not applicable")
except ImportError:
    print("written (jsonschema not importable)")
