"""ShimCSR: contract shim for scipy.sparse as rsome uses it (mode D, DESIGN 2.1/2.3).

A matrix is a dense value array `A` (float or object dtype, entries may be SymReal)
plus a concrete boolean mask `S` of *stored* entries, so that `.data/.indices/
.indptr/.nnz` can be answered as SciPy answers them.  Value-dependent pruning of
zeros happens exactly where SciPy prunes (sparse +/-, construction from a dense
array, LIL assignment of 0); for a symbolic entry that asks `entry != 0`, which
forks the path.  Sparse @ sparse also drops numerically zero results (csr_matmat does).
Everything else (scaling, slicing, stacking, transposition, COO/CSR construction) is
structural, as in SciPy.

Deviations from SciPy (assumed harmless, conformance-tested in rverif/conformance.py):
  * column indices inside a row are always sorted and duplicates are summed at once;
  * todense() returns a 2-D ndarray, not np.matrix;
  * CSC and LIL are the same class (only orientation-free behaviour is used by rsome).
"""
from __future__ import annotations

import numbers

import numpy as np

from ..sym import SymReal, SymBool, Unsupported, has_ctx


def _is_sym(v):
    return isinstance(v, (SymReal, SymBool))


def _nonzero(v):
    """Truth of v != 0 (forks for symbolic v)."""
    if isinstance(v, SymReal):
        return bool(v != 0)
    return bool(v != 0)


def _as_obj(a):
    a = np.asarray(a)
    return a


def _has_sym(a):
    if a.dtype != object:
        return False
    return any(_is_sym(v) for v in a.flat)


def _norm_dtype(A):
    """Keep float dtype when possible, else object.  While a symbolic context is active every
    numeric array is object-typed (see NpShim), so results are not narrowed back to float."""
    if A.dtype == object and not has_ctx():
        if not any(_is_sym(v) for v in A.flat):
            try:
                return A.astype(float)
            except (TypeError, ValueError):
                return A
    return A


def _zeros(shape, like_obj):
    return np.zeros(shape, dtype=object if like_obj else float) if not like_obj else \
        np.array([0.0] * int(np.prod(shape)), dtype=object).reshape(shape)


class _DataView(np.ndarray):
    """`.data` of a ShimCSR: an array whose in-place modifications are written back to the matrix (as with SciPy, where
    `.data` IS the storage).  Arrays derived from it (slices, copies, results of arithmetic) are plain values."""

    @classmethod
    def make(cls, arr, parent, rows, cols):
        obj = np.asarray(arr).view(cls)
        obj._p, obj._rc = parent, (list(rows), list(cols))
        return obj

    def __array_finalize__(self, obj):
        self._p, self._rc = None, None

    def _sync(self):
        if self._p is None:
            return
        A = self._p.A
        flat = np.asarray(self)
        if A.dtype != object and flat.dtype == object:
            self._p.A = A = A.astype(object)
        for k, (i, j) in enumerate(zip(*self._rc)):
            A[i, j] = flat[k]

    def __setitem__(self, k, v):
        np.ndarray.__setitem__(self, k, v)
        self._sync()

    def _inplace(self, op, o):
        r = op(np.asarray(self), np.asarray(o) if isinstance(o, np.ndarray) else o)
        if self.dtype != object and np.asarray(r).dtype == object:
            from ..sym import Unsupported
            raise Unsupported("in-place update of float sparse data with symbolic values")
        np.ndarray.__setitem__(self, slice(None), r)
        self._sync()
        return self

    def __iadd__(self, o):
        return self._inplace(lambda a, b: a + b, o)

    def __isub__(self, o):
        return self._inplace(lambda a, b: a - b, o)

    def __imul__(self, o):
        return self._inplace(lambda a, b: a * b, o)

    def __itruediv__(self, o):
        return self._inplace(lambda a, b: a / b, o)


class ShimCSR:
    __array_priority__ = 50.0       # below rsome's Affine (100) so Affine.__rmatmul__ wins

    def __init__(self, A, S, fmt="csr"):
        A = np.asarray(A)
        if A.ndim != 2:
            raise ValueError("ShimCSR needs a 2-D array")
        self.A = A
        self.S = np.asarray(S, dtype=bool)
        self.format = fmt

    # ------------------------------------------------------------ construction
    @classmethod
    def build(cls, arg, shape=None, fmt="csr", dtype=None):
        if isinstance(arg, ShimCSR):
            return cls(arg.A.copy(), arg.S.copy(), fmt)
        if _is_scipy(arg):
            arr = np.asarray(arg.toarray())
            S = np.zeros(arr.shape, dtype=bool)
            coo = arg.tocoo()
            S[coo.row, coo.col] = True
            return cls(arr, S, fmt)
        if isinstance(arg, tuple) and len(arg) == 2 and not isinstance(arg[0], (np.ndarray, list)) \
                and isinstance(arg[0], (int, np.integer)):
            m, n = int(arg[0]), int(arg[1])
            return cls(np.zeros((m, n)), np.zeros((m, n), dtype=bool), fmt)
        if isinstance(arg, tuple) and len(arg) == 2 and isinstance(arg[1], tuple):
            data, (rows, cols) = arg
            data = np.asarray(list(data) if not isinstance(data, np.ndarray) else data)
            rows = np.asarray(list(rows), dtype=int).reshape(-1)
            cols = np.asarray(list(cols), dtype=int).reshape(-1)
            data = data.reshape(-1)
            if shape is None:
                shape = (int(rows.max()) + 1 if rows.size else 0, int(cols.max()) + 1 if cols.size else 0)
            m, n = int(shape[0]), int(shape[1])
            if not (len(data) == len(rows) == len(cols)):
                raise ValueError("row, column, and data array must all be the same length")
            if rows.size and (rows.min() < 0 or rows.max() >= m):
                raise ValueError("row index exceeds matrix dimensions")
            if cols.size and (cols.min() < 0 or cols.max() >= n):
                raise ValueError("column index exceeds matrix dimensions")
            obj = data.dtype == object
            A = _zeros((m, n), obj)
            S = np.zeros((m, n), dtype=bool)
            for v, i, j in zip(data, rows, cols):
                A[i, j] = A[i, j] + v if S[i, j] else v
                S[i, j] = True
            return cls(A, S, fmt)
        if isinstance(arg, tuple) and len(arg) == 3:
            data, indices, indptr = arg
            data = np.asarray(list(data) if not isinstance(data, np.ndarray) else data).reshape(-1)
            indices = np.asarray([int(i) for i in np.asarray(indices).reshape(-1)], dtype=int)
            indptr = np.asarray([int(i) for i in np.asarray(indptr).reshape(-1)], dtype=int)
            m_ = len(indptr) - 1
            if shape is None:
                shape = (m_, int(indices.max()) + 1 if indices.size else 0)
            m, n = int(shape[0]), int(shape[1])
            if fmt == "csc":
                raise Unsupported("csc from (data, indices, indptr)")
            if m_ != m:
                raise ValueError(f"index pointer size ({len(indptr)}) should be ({m + 1})")
            if len(data) != len(indices) or (len(indptr) and indptr[-1] > len(indices)):
                raise ValueError("indices and data should have the same size")
            if indices.size and (indices.min() < 0 or indices.max() >= n):
                raise ValueError("column index values must be < {}".format(n))
            obj = data.dtype == object
            A = _zeros((m, n), obj)
            S = np.zeros((m, n), dtype=bool)
            for i in range(m):
                for k in range(indptr[i], indptr[i + 1]):
                    j = indices[k]
                    A[i, j] = A[i, j] + data[k] if S[i, j] else data[k]
                    S[i, j] = True
            return cls(A, S, fmt)
        # dense input: zeros are not stored
        arr = np.asarray(arg)
        if arr.ndim == 0:
            arr = arr.reshape((1, 1))
        elif arr.ndim == 1:
            arr = arr.reshape((1, arr.size))
        elif arr.ndim != 2:
            raise TypeError("expected dimension <= 2 array or matrix")
        if arr.dtype == object:
            S = np.array([_nonzero(v) for v in arr.flat], dtype=bool).reshape(arr.shape)
        else:
            S = arr != 0
        return cls(arr.copy(), S, fmt)

    def copy(self):
        return ShimCSR(self.A.copy(), self.S.copy(), self.format)

    # ------------------------------------------------------------ attributes
    @property
    def shape(self):
        return self.A.shape

    @property
    def ndim(self):
        return 2

    @property
    def dtype(self):
        return self.A.dtype

    @property
    def nnz(self):
        return int(self.S.sum())

    def _entries(self):
        rows, cols = np.nonzero(self.S)
        return rows, cols

    @property
    def data(self):
        rows, cols = self._entries()
        vals = [self.A[i, j] for i, j in zip(rows, cols)]
        if self.A.dtype == object:
            out = np.empty(len(vals), dtype=object)
            for k, v in enumerate(vals):
                out[k] = v
            out = _norm_dtype(out) if len(vals) else np.array([], dtype=float)
        else:
            out = np.array(vals, dtype=self.A.dtype)
        # SciPy hands out the matrix's own storage: writes through `.data` (item assignment, +=, *= ...) change the matrix
        return _DataView.make(out, self, rows, cols)

    @property
    def indices(self):
        return np.nonzero(self.S)[1].astype(np.int32)

    @property
    def indptr(self):
        counts = self.S.sum(axis=1)
        return np.concatenate(([0], np.cumsum(counts))).astype(np.int32)

    @property
    def T(self):
        return ShimCSR(self.A.T.copy(), self.S.T.copy(), self.format)

    def transpose(self):
        return self.T

    @property
    def row(self):
        return np.nonzero(self.S)[0].astype(np.int32)

    @property
    def col(self):
        return np.nonzero(self.S)[1].astype(np.int32)

    def tocoo(self):
        return self

    def tocsr(self):
        return self

    def tocsc(self):
        return self

    def count_nonzero(self):
        return int(sum(1 for i, j in zip(*self._entries()) if _nonzero(self.A[i, j])))

    def eliminate_zeros(self):
        for i, j in zip(*self._entries()):
            if not _nonzero(self.A[i, j]):
                self.S[i, j] = False

    def toarray(self):
        out = self.A.copy()
        if out.dtype == object:
            for i, j in zip(*np.nonzero(~self.S)):
                out[i, j] = 0.0
        else:
            out[~self.S] = 0
        return _norm_dtype(out)

    def todense(self):
        return self.toarray()

    def resize(self, *shape):
        if len(shape) == 1:
            shape = shape[0]
        m, n = int(shape[0]), int(shape[1])
        obj = self.A.dtype == object
        A = _zeros((m, n), obj)
        S = np.zeros((m, n), dtype=bool)
        mm, nn = min(m, self.A.shape[0]), min(n, self.A.shape[1])
        A[:mm, :nn] = self.A[:mm, :nn]
        S[:mm, :nn] = self.S[:mm, :nn]
        self.A, self.S = A, S

    def __len__(self):
        raise TypeError("sparse array length is ambiguous; use getnnz() or shape[0]")

    def __iter__(self):
        for i in range(self.shape[0]):
            yield self[i]

    def __repr__(self):
        return f"<ShimCSR {self.shape[0]}x{self.shape[1]} nnz={self.nnz} dtype={self.A.dtype}>"

    def sum(self, axis=None):
        return self.toarray().sum(axis=axis)

    def astype(self, t):
        return ShimCSR(self.A.astype(t), self.S.copy(), self.format)

    # ------------------------------------------------------------ indexing
    @staticmethod
    def _norm_index(k, n):
        """Return (index array, was_scalar)."""
        if isinstance(k, (int, np.integer)):
            kk = int(k)
            if kk < -n or kk >= n:
                raise IndexError("index out of range")
            return np.array([kk % n], dtype=int), True
        if isinstance(k, slice):
            return np.arange(n)[k], False
        if isinstance(k, range):
            k = list(k)
        arr = np.asarray(k)
        if arr.dtype == bool:
            if arr.ndim != 1 or arr.size != n:
                raise IndexError("boolean index shape mismatch")
            return np.nonzero(arr)[0], False
        if arr.dtype == object:
            arr = np.array([int(v) for v in arr.flat], dtype=int).reshape(arr.shape)
        if arr.size == 0:
            return np.array([], dtype=int), False
        if not np.issubdtype(arr.dtype, np.integer):
            raise IndexError("arrays used as indices must be of integer (or boolean) type")
        if arr.ndim != 1:
            arr = arr.reshape(-1)
        if arr.size and (arr.min() < -n or arr.max() >= n):
            raise IndexError("index out of range")
        return arr % n if n else arr, False

    def __getitem__(self, key):
        m, n = self.shape
        if isinstance(key, tuple):
            if len(key) != 2:
                raise IndexError("invalid number of indices")
            rk, ck = key
        else:
            rk, ck = key, slice(None)
        ri, rs = self._norm_index(rk, m)
        ci, cs = self._norm_index(ck, n)
        if rs and cs:
            return self.A[ri[0], ci[0]] if self.S[ri[0], ci[0]] else 0.0
        both_arrays = (not rs and not cs and not isinstance(rk, slice) and not isinstance(ck, slice))
        if both_arrays and isinstance(key, tuple):
            # pairwise fancy indexing, as SciPy does: result is 1 x k
            if len(ri) != len(ci):
                raise IndexError("shape mismatch in fancy index")
            A = np.array([self.A[i, j] for i, j in zip(ri, ci)], dtype=self.A.dtype).reshape(1, -1)
            S = np.array([self.S[i, j] for i, j in zip(ri, ci)], dtype=bool).reshape(1, -1)
            return ShimCSR(A, S, self.format)
        A = self.A[np.ix_(ri, ci)]
        S = self.S[np.ix_(ri, ci)]
        return ShimCSR(A.copy(), S.copy(), self.format)

    def __setitem__(self, key, value):
        m, n = self.shape
        if isinstance(key, tuple):
            rk, ck = key
        else:
            rk, ck = key, slice(None)
        ri, _ = self._norm_index(rk, m)
        ci, _ = self._norm_index(ck, n)
        if isinstance(value, ShimCSR):
            VA, VS = value.A, value.S
            if VA.shape != (len(ri), len(ci)):
                raise ValueError("shape mismatch in sparse assignment")
        else:
            v = np.asarray(value)
            if v.ndim == 0:
                VA = np.empty((len(ri), len(ci)), dtype=object if _is_sym(value) else float)
                VA[:, :] = value
            else:
                VA = np.broadcast_to(v, (len(ri), len(ci)))
            if self.format == "lil":
                # LIL drops assigned zeros
                VS = np.array([_nonzero(x) for x in VA.flat], dtype=bool).reshape(VA.shape)
            else:
                VS = np.ones(VA.shape, dtype=bool)
        if VA.dtype == object and self.A.dtype != object:
            self.A = self.A.astype(object)
        for a, i in enumerate(ri):
            for b, j in enumerate(ci):
                self.A[i, j] = VA[a, b] if VS[a, b] else 0.0
                self.S[i, j] = bool(VS[a, b])

    # ------------------------------------------------------------ arithmetic
    def __neg__(self):
        return ShimCSR(-self.A, self.S.copy(), self.format)

    def _binop(self, other, sign):
        if isinstance(other, ShimCSR):
            if other.shape != self.shape:
                raise ValueError("inconsistent shapes")
            a, b = self.toarray(), other.toarray()
            if a.dtype == object or b.dtype == object:
                a, b = a.astype(object), b.astype(object)
            A = a + b if sign > 0 else a - b
            S = self.S | other.S
            # SciPy's csr_binop_csr stores only non-zero results
            for i, j in zip(*np.nonzero(S)):
                if not _nonzero(A[i, j]):
                    S[i, j] = False
            return ShimCSR(A, S, self.format)
        if isinstance(other, np.ndarray):
            return (self.toarray() + other) if sign > 0 else (self.toarray() - other)
        if isinstance(other, numbers.Real) and not _is_sym(other) and other == 0:
            return self.copy()
        return NotImplemented

    def __add__(self, other):
        return self._binop(other, +1)

    def __radd__(self, other):
        return self._binop(other, +1)

    def __sub__(self, other):
        return self._binop(other, -1)

    def __mul__(self, other):
        if isinstance(other, numbers.Real):
            A = self.toarray()
            if _is_sym(other):
                A = A.astype(object)
            return ShimCSR(A * other, self.S.copy(), self.format)
        return self.__matmul__(other)

    def __rmul__(self, other):
        if isinstance(other, numbers.Real):
            return self.__mul__(other)
        return NotImplemented

    def __truediv__(self, other):
        if isinstance(other, numbers.Real):
            return ShimCSR(self.toarray() / other, self.S.copy(), self.format)
        return NotImplemented

    def multiply(self, other):
        raise Unsupported("ShimCSR.multiply")

    def __matmul__(self, other):
        if isinstance(other, ShimCSR):
            if self.shape[1] != other.shape[0]:
                raise ValueError("dimension mismatch")
            a, b = self.toarray(), other.toarray()
            if a.dtype == object or b.dtype == object:
                a, b = a.astype(object), b.astype(object)
                A = _omatmul(a, b)
            else:
                A = a @ b
            S = (self.S.astype(int) @ other.S.astype(int)) > 0
            # SciPy's csr_matmat stores an entry only if the accumulated sum is non-zero
            for i, j in zip(*np.nonzero(S)):
                if not _nonzero(A[i, j]):
                    S[i, j] = False
            return ShimCSR(A, S, self.format)
        if _is_scipy(other):
            return self.__matmul__(ShimCSR.build(other))
        if isinstance(other, np.ndarray):
            if other.ndim == 0:
                if other.dtype == object:
                    return NotImplemented
                return self.__mul__(other.item())
            a = self.toarray()
            if other.ndim > 2:
                raise ValueError("sparse @ N-d array")
            if a.shape[1] != other.shape[0]:
                raise ValueError("dimension mismatch")
            if a.dtype == object or other.dtype == object or has_ctx():
                return _omatmul(a.astype(object), other.astype(object))
            return a @ other
        if isinstance(other, (list, tuple)):
            return self.__matmul__(np.asarray(other))
        return NotImplemented

    def __rmatmul__(self, other):
        if isinstance(other, np.ndarray):
            a = self.toarray()
            if other.ndim == 0:
                return NotImplemented
            if other.shape[-1] != a.shape[0]:
                raise ValueError("dimension mismatch")
            if a.dtype == object or other.dtype == object or has_ctx():
                return _omatmul(other.astype(object), a.astype(object))
            return other @ a
        if _is_scipy(other):
            return ShimCSR.build(other).__matmul__(self)
        return NotImplemented

    def dot(self, other):
        return self.__matmul__(other)


def _omatmul(a, b):
    """matmul for object arrays (1-D or 2-D operands) without np.matmul's object quirks."""
    r = _omatmul0(a, b)
    if has_ctx() and isinstance(r, np.ndarray) and r.dtype != object:
        r = r.astype(object)
    return r


def _omatmul0(a, b):
    a1 = a.ndim == 1
    b1 = b.ndim == 1
    A = a.reshape(1, -1) if a1 else a
    B = b.reshape(-1, 1) if b1 else b
    if A.ndim != 2 or B.ndim != 2:
        return np.matmul(a, b)
    m, k = A.shape
    k2, n = B.shape
    if k != k2:
        raise ValueError("matmul: dimension mismatch")
    out = np.empty((m, n), dtype=object)
    for i in range(m):
        for j in range(n):
            acc = 0.0
            for t in range(k):
                x, y = A[i, t], B[t, j]
                if (not _is_sym(x) and x == 0) or (not _is_sym(y) and y == 0):
                    continue
                acc = acc + x * y
            out[i, j] = acc
    if a1 and b1:
        return out[0, 0]
    if a1:
        out = out.reshape(n)
    elif b1:
        out = out.reshape(m)
    return _norm_dtype(out)


def _is_scipy(x):
    try:
        import scipy.sparse as rsp
        return rsp.issparse(x)
    except Exception:
        return False


# ---------------------------------------------------------------- module-level API

def csr_matrix(arg, shape=None, dtype=None):
    return ShimCSR.build(arg, shape, "csr")


def csc_matrix(arg, shape=None, dtype=None):
    return ShimCSR.build(arg, shape, "csc")


def coo_matrix(arg, shape=None, dtype=None):
    return ShimCSR.build(arg, shape, "coo")


def lil_matrix(arg, shape=None, dtype=None):
    return ShimCSR.build(arg, shape, "lil")


def issparse(x):
    return isinstance(x, ShimCSR) or _is_scipy(x)


def _coerce(b):
    if isinstance(b, ShimCSR):
        return b
    if _is_scipy(b):
        return ShimCSR.build(b)
    if isinstance(b, np.ndarray):
        return ShimCSR.build(b)
    raise TypeError("blocks must be sparse matrices")


def vstack(blocks, format=None, dtype=None):
    blocks = [_coerce(b) for b in blocks]
    if not blocks:
        raise ValueError("blocks must not be empty")
    n = blocks[0].shape[1]
    for b in blocks:
        if b.shape[1] != n:
            raise ValueError(f"incompatible dimensions for axis 1: got {b.shape[1]}, expected {n}")
    obj = any(b.A.dtype == object for b in blocks)
    A = np.concatenate([b.toarray().astype(object) if obj else b.toarray() for b in blocks], axis=0)
    S = np.concatenate([b.S for b in blocks], axis=0)
    return ShimCSR(A, S, "csr")


def hstack(blocks, format=None, dtype=None):
    blocks = [_coerce(b) for b in blocks]
    if not blocks:
        raise ValueError("blocks must not be empty")
    m = blocks[0].shape[0]
    for b in blocks:
        if b.shape[0] != m:
            raise ValueError(f"incompatible dimensions for axis 0: got {b.shape[0]}, expected {m}")
    obj = any(b.A.dtype == object for b in blocks)
    A = np.concatenate([b.toarray().astype(object) if obj else b.toarray() for b in blocks], axis=1)
    S = np.concatenate([b.S for b in blocks], axis=1)
    return ShimCSR(A, S, "csr")


def diags(diagonals, offsets=0, shape=None, format=None, dtype=None):
    d = np.asarray(diagonals)
    if d.ndim != 1 or offsets != 0:
        raise Unsupported("scipy.sparse.diags beyond a single main diagonal")
    n = d.size
    obj = d.dtype == object
    A = _zeros((n, n), obj)
    S = np.zeros((n, n), dtype=bool)
    for i in range(n):
        A[i, i] = d[i]
        S[i, i] = True
    return ShimCSR(A, S, "csr")


def eye(m, n=None, k=0, dtype=None, format=None):
    n = m if n is None else n
    if k != 0:
        raise Unsupported("scipy.sparse.eye with an offset")
    A = np.eye(m, n)
    return ShimCSR(A, A != 0, "csr")


def identity(n, dtype=None, format=None):
    return eye(n)


class SpShim:
    diags = staticmethod(diags)
    eye = staticmethod(eye)
    identity = staticmethod(identity)
    """Stands in for `scipy.sparse` inside rsome modules (verifier process only)."""
    csr_matrix = staticmethod(csr_matrix)
    csc_matrix = staticmethod(csc_matrix)
    coo_matrix = staticmethod(coo_matrix)
    lil_matrix = staticmethod(lil_matrix)
    issparse = staticmethod(issparse)
    vstack = staticmethod(vstack)
    hstack = staticmethod(hstack)

    def __getattr__(self, name):
        if name.startswith("__"):
            raise AttributeError(name)
        raise Unsupported(f"scipy.sparse.{name} is not covered by the shim")


def to_scipy(m):
    """Concrete ShimCSR -> real scipy csr (for native cross-checks)."""
    import scipy.sparse as rsp
    A = m.toarray().astype(float)
    rows, cols = np.nonzero(m.S)
    return rsp.csr_matrix((A[rows, cols], (rows, cols)), shape=m.shape)
