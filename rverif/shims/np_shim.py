"""NpShim: stands in for `numpy` inside rsome modules in the verifier process only.

Real NumPy does all the work (broadcasting, fancy indexing, tile, transpose ... run
natively on object-dtype arrays whose entries are SymReal).  The shim only changes
what NumPy cannot do with proxies:
  * float-producing constructors return object arrays while a symbolic context is
    active, so that symbolic values can later be written into them;
  * minimum/maximum/exp/log/sqrt/isnan/sign/linalg.norm understand proxies;
  * `np.number` accepts proxies in isinstance checks.
Everything else is delegated by __getattr__.
"""
from __future__ import annotations

import math
import os

import numpy as _np

from ..sym import SymReal, SymBool, Unsupported, has_ctx, ite, to_z3, ctx

FORCE_OBJECT = bool(os.environ.get("RVERIF_FORCE_OBJECT"))


def _objmode():
    return FORCE_OBJECT or has_ctx()


def _is_sym(v):
    return isinstance(v, (SymReal, SymBool))


def _to_obj(a):
    """float array -> object array whose elements stay np.float64 (so that 0-d results of
    ufuncs still have .shape/.reshape like the np.float64 NumPy would return natively)."""
    if isinstance(a, _np.ndarray) and a.dtype.kind == "f" and _objmode():
        out = _np.empty(a.shape, dtype=object)
        for idx in _np.ndindex(a.shape):
            out[idx] = a[idx]
        return out
    return a


class _NumberMeta(type):
    def __instancecheck__(cls, inst):
        return isinstance(inst, (_np.number, SymReal)) or \
            (type(inst) in (int, float) and _objmode())


class _Number(metaclass=_NumberMeta):
    pass


def _emap(f, a):
    arr = _np.asarray(a, dtype=object)
    out = _np.empty(arr.shape, dtype=object)
    for idx in _np.ndindex(arr.shape):
        out[idx] = f(arr[idx])
    if arr.shape == ():
        return out[()]
    return out


def _has_sym(a):
    if _is_sym(a):
        return True
    if isinstance(a, _np.ndarray) and a.dtype == object:
        return any(_is_sym(v) for v in a.flat)
    if isinstance(a, (list, tuple)):
        return any(_has_sym(v) for v in a)
    return False


def _fexp(v):
    return v.exp() if isinstance(v, SymReal) else math.exp(v)


def _flog(v):
    if isinstance(v, SymReal):
        return v.log()
    return math.log(v) if v > 0 else (-math.inf if v == 0 else math.nan)


def _fsqrt(v):
    return v.sqrt() if isinstance(v, SymReal) else math.sqrt(v)


class _Linalg:
    @staticmethod
    def norm(x, ord=None):
        if not _has_sym(x) and not (isinstance(x, _np.ndarray) and x.dtype == object):
            return _np.linalg.norm(x, ord)
        arr = _np.asarray(x, dtype=object).reshape(-1)
        if ord is None or ord == 2:
            s = 0.0
            for v in arr:
                s = s + v * v
            return _fsqrt(s)
        if ord == 1:
            s = 0.0
            for v in arr:
                s = s + abs(v)
            return s
        if ord == _np.inf:
            m = abs(arr[0])
            for v in arr[1:]:
                m = _max2(m, abs(v))
            return m
        if not _has_sym(x):
            return _np.linalg.norm(_np.asarray(arr, dtype=float), ord)
        from ..spec import atoms
        return atoms.pnorm_uf(ord, list(arr))

    def __getattr__(self, name):
        return getattr(_np.linalg, name)


def _max2(a, b):
    if _is_sym(a) or _is_sym(b):
        if isinstance(a, float) and math.isinf(a):
            return a if a > 0 else b
        if isinstance(b, float) and math.isinf(b):
            return b if b > 0 else a
        return ite(SymBool(to_z3(a) >= to_z3(b)), a, b)
    return a if a >= b else b


def _min2(a, b):
    if _is_sym(a) or _is_sym(b):
        if isinstance(a, float) and math.isinf(a):
            return a if a < 0 else b
        if isinstance(b, float) and math.isinf(b):
            return b if b < 0 else a
        return ite(SymBool(to_z3(a) <= to_z3(b)), a, b)
    return a if a <= b else b


class NpShim:
    ndarray = _np.ndarray
    number = _Number
    linalg = _Linalg()

    def __getattr__(self, name):
        return getattr(_np, name)

    # ---- constructors ----------------------------------------------------
    @staticmethod
    def array(obj, dtype=None, *a, **k):
        if (dtype is None or dtype is float) and _has_sym(obj):
            if isinstance(obj, _np.ndarray):
                return obj.copy()
            if _is_sym(obj):
                out = _np.empty((), dtype=object)
                out[()] = obj
                return out
            return _np.array(obj, dtype=object)
        r = _np.array(obj, dtype, *a, **k)
        if dtype is None or dtype is float:
            return _to_obj(r)
        return r

    @staticmethod
    def asarray(obj, dtype=None, *a, **k):
        # np.asarray(values, dtype=float) is another spelling of np.array(values, dtype=float) (without the copy)
        if (dtype is None or dtype is float) and _has_sym(obj):
            if isinstance(obj, _np.ndarray):
                return obj
            if _is_sym(obj):
                out = _np.empty((), dtype=object)
                out[()] = obj
                return out
            return _np.array(obj, dtype=object)
        return _np.asarray(obj, dtype, *a, **k)

    @staticmethod
    def asanyarray(obj, dtype=None, *a, **k):
        if (dtype is None or dtype is float) and _has_sym(obj):
            return NpShim.asarray(obj, dtype)
        return _np.asanyarray(obj, dtype, *a, **k)

    @staticmethod
    def ascontiguousarray(obj, dtype=None, *a, **k):
        if (dtype is None or dtype is float) and _has_sym(obj):
            return _np.ascontiguousarray(NpShim.asarray(obj, dtype))
        return _np.ascontiguousarray(obj, dtype, *a, **k)

    @staticmethod
    def zeros(shape, dtype=None, *a, **k):
        r = _np.zeros(shape, dtype if dtype is not None else float, *a, **k)
        return _to_obj(r) if dtype in (None, float) else r

    @staticmethod
    def ones(shape, dtype=None, *a, **k):
        r = _np.ones(shape, dtype if dtype is not None else float, *a, **k)
        return _to_obj(r) if dtype in (None, float) else r

    @staticmethod
    def eye(n, *a, **k):
        return _to_obj(_np.eye(n, *a, **k))

    # every other way NumPy offers to make a fresh FLOAT array that may later receive symbolic entries
    @staticmethod
    def full(shape, fill_value, dtype=None, *a, **k):
        if _is_sym(fill_value):
            out = _np.empty(shape, dtype=object)
            out[...] = fill_value
            return out
        r = _np.full(shape, fill_value, dtype, *a, **k)
        return _to_obj(r) if (dtype in (None, float) and r.dtype.kind == "f") else r

    @staticmethod
    def empty(shape, dtype=None, *a, **k):
        r = _np.zeros(shape, dtype if dtype is not None else float, *a, **k)
        return _to_obj(r) if dtype in (None, float) else r

    @staticmethod
    def identity(n, dtype=None):
        r = _np.identity(n, dtype)
        return _to_obj(r) if dtype in (None, float) else r

    @staticmethod
    def zeros_like(a, dtype=None, *aa, **k):
        r = _np.zeros(_np.shape(a), dtype if dtype is not None else (float if getattr(a, "dtype", None) is None or a.dtype == object or a.dtype.kind == "f" else a.dtype))
        return _to_obj(r) if r.dtype.kind == "f" else r

    @staticmethod
    def ones_like(a, dtype=None, *aa, **k):
        r = _np.ones(_np.shape(a), dtype if dtype is not None else (float if getattr(a, "dtype", None) is None or a.dtype == object or a.dtype.kind == "f" else a.dtype))
        return _to_obj(r) if r.dtype.kind == "f" else r

    @staticmethod
    def full_like(a, fill_value, dtype=None, *aa, **k):
        return NpShim.full(_np.shape(a), fill_value, dtype)

    @staticmethod
    def empty_like(a, dtype=None, *aa, **k):
        return NpShim.zeros_like(a, dtype)

    # ---- element-wise ----------------------------------------------------
    @staticmethod
    def minimum(a, b):
        if _has_sym(a) or _has_sym(b):
            aa, bb = _np.broadcast_arrays(_np.asarray(a, dtype=object), _np.asarray(b, dtype=object))
            out = _np.empty(aa.shape, dtype=object)
            for idx in _np.ndindex(aa.shape):
                out[idx] = _min2(aa[idx], bb[idx])
            return out
        return _np.minimum(a, b)

    @staticmethod
    def maximum(a, b):
        if _has_sym(a) or _has_sym(b):
            aa, bb = _np.broadcast_arrays(_np.asarray(a, dtype=object), _np.asarray(b, dtype=object))
            out = _np.empty(aa.shape, dtype=object)
            for idx in _np.ndindex(aa.shape):
                out[idx] = _max2(aa[idx], bb[idx])
            return out
        return _np.maximum(a, b)

    @staticmethod
    def isnan(x):
        if _is_sym(x):
            return False
        if isinstance(x, _np.ndarray) and x.dtype == object:
            return _np.array([False if _is_sym(v) else (isinstance(v, float) and math.isnan(v))
                              for v in x.flat], dtype=bool).reshape(x.shape)
        return _np.isnan(x)

    @staticmethod
    def exp(x):
        if _is_sym(x) or (isinstance(x, _np.ndarray) and x.dtype == object):
            return _emap(_fexp, x)
        return _np.exp(x)

    @staticmethod
    def log(x):
        if _is_sym(x) or (isinstance(x, _np.ndarray) and x.dtype == object):
            return _emap(_flog, x)
        return _np.log(x)

    @staticmethod
    def sqrt(x):
        if _is_sym(x) or (isinstance(x, _np.ndarray) and x.dtype == object):
            return _emap(_fsqrt, x)
        return _np.sqrt(x)

    @staticmethod
    def square(x):
        if isinstance(x, _np.ndarray) and x.dtype == object:
            return x * x
        if _is_sym(x):
            return x * x
        return _np.square(x)

    @staticmethod
    def real(x):
        if _has_sym(x) or (isinstance(x, _np.ndarray) and x.dtype == object):
            return x
        return _np.real(x)

    @staticmethod
    def sign(x):
        if isinstance(x, SymReal):
            if x > 0:
                return 1
            if x < 0:
                return -1
            return 0
        return _np.sign(x)


NP = NpShim()
