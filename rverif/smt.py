"""Solver glue: discharge one verification condition with z3, then cvc5 for what z3 leaves open."""
from __future__ import annotations

import os
import subprocess
import tempfile
import time
from fractions import Fraction

import z3

Z3_TIMEOUT_MS = int(os.environ.get("RVERIF_Z3_MS", "30000"))
CVC5_TIMEOUT_S = int(os.environ.get("RVERIF_CVC5_S", "60"))
QUICK_MS = int(os.environ.get("RVERIF_Z3_QUICK_MS", "4000"))
CVC5_BIN = "/usr/bin/cvc5"


class Verdict:
    __slots__ = ("status", "backend", "seconds", "model", "reason")

    def __init__(self, status, backend, seconds, model=None, reason=""):
        self.status = status      # 'unsat' (VC valid) | 'sat' (counter-model) | 'unknown'
        self.backend = backend
        self.seconds = seconds
        self.model = model
        self.reason = reason


def _model_dict(m):
    out = {}
    for d in m.decls():
        if d.arity() != 0:
            continue
        v = m[d]
        try:
            if z3.is_rational_value(v):
                out[d.name()] = Fraction(v.numerator_as_long(), v.denominator_as_long())
            elif z3.is_int_value(v):
                out[d.name()] = v.as_long()
            elif z3.is_true(v) or z3.is_false(v):
                out[d.name()] = bool(z3.is_true(v))
            elif z3.is_algebraic_value(v):
                out[d.name()] = float(v.approx(20).as_fraction())
            else:
                out[d.name()] = str(v)
        except Exception:
            out[d.name()] = str(v)
    return out


def check_valid(hyps, goal, z3_ms=None, use_cvc5=True, tactic=None):
    """Is `AND hyps => goal` valid?  unsat = yes; sat = counter-model; unknown."""
    z3_ms = z3_ms or Z3_TIMEOUT_MS
    t0 = time.time()
    quick_ms = min(z3_ms, QUICK_MS)

    def default(ms):
        s = z3.Solver()
        s.set("timeout", ms)
        for h in hyps:
            s.add(h)
        s.add(z3.Not(goal))
        return s, s.check()

    # stage 1: z3's default strategy with a short budget (decides almost everything in milliseconds)
    s, r = default(quick_ms)
    if r == z3.unsat:
        return Verdict("unsat", "z3", time.time() - t0)
    if r == z3.sat:
        return Verdict("sat", "z3", time.time() - t0, _model_dict(s.model()))
    reason = s.reason_unknown()
    # stage 2: the nonlinear tactic (quantifier- and UF-free VCs over products of reals), full budget
    try:
        s2 = z3.Then("simplify", "solve-eqs", "qfnra-nlsat").solver()
        s2.set("timeout", z3_ms)
        for h in hyps:
            s2.add(h)
        s2.add(z3.Not(goal))
        r2 = s2.check()
        if r2 == z3.unsat:
            return Verdict("unsat", "z3-nlsat", time.time() - t0)
        if r2 == z3.sat:
            return Verdict("sat", "z3-nlsat", time.time() - t0, _model_dict(s2.model()))
    except z3.Z3Exception:
        pass
    # stage 3: the default strategy again with the full budget
    if quick_ms < z3_ms:
        s, r = default(z3_ms)
        if r == z3.unsat:
            return Verdict("unsat", "z3", time.time() - t0)
        if r == z3.sat:
            return Verdict("sat", "z3", time.time() - t0, _model_dict(s.model()))
        reason = s.reason_unknown()
    if use_cvc5 and os.path.exists(CVC5_BIN):
        v = _cvc5(s, time.time() - t0)
        if v is not None:
            return v
    return Verdict("unknown", "z3+cvc5" if use_cvc5 else "z3", time.time() - t0, reason=reason)


def _cvc5(solver, spent):
    t0 = time.time()
    text = "(set-logic ALL)\n" + solver.to_smt2()
    with tempfile.NamedTemporaryFile("w", suffix=".smt2", delete=False) as f:
        f.write(text)
        path = f.name
    try:
        p = subprocess.run([CVC5_BIN, f"--tlimit={CVC5_TIMEOUT_S * 1000}", "--nl-ext-tplanes", path],
                           capture_output=True, text=True, timeout=CVC5_TIMEOUT_S + 10)
        out = p.stdout.strip().splitlines()
        ans = out[0].strip() if out else ""
        if ans == "unsat":
            return Verdict("unsat", "cvc5", spent + time.time() - t0)
        # a cvc5 'sat' has no model we can map back cheaply; leave it undecided
        return None
    except (subprocess.TimeoutExpired, OSError):
        return None
    finally:
        try:
            os.unlink(path)
        except OSError:
            pass


def is_sat(terms, ms=10000):
    s = z3.Solver()
    s.set("timeout", ms)
    for t in terms:
        s.add(t)
    r = s.check()
    return "sat" if r == z3.sat else "unsat" if r == z3.unsat else "unknown"
