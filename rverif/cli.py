"""./check <property> [--tier quick|thorough] [--only substr] | --replay <path>"""
from __future__ import annotations

import argparse
import json
import os
import sys


def main(argv=None):
    ap = argparse.ArgumentParser()
    ap.add_argument("prop", nargs="?")
    ap.add_argument("--tier", default=os.environ.get("VERIF_TIER", "quick"), choices=["quick", "thorough"])
    ap.add_argument("--only", default=None)
    ap.add_argument("--workers", type=int, default=None)
    ap.add_argument("--replay", default=None)
    a = ap.parse_args(argv)
    seed = int(os.environ.get("VERIF_SEED", "0") or 0)
    if a.replay:
        with open(a.replay) as f:
            print(json.dumps(json.load(f), indent=1))
        return 0
    if not a.prop:
        ap.error("property id required")
    from .runner import run_property
    return run_property(a.prop.upper(), a.tier, seed, a.workers, a.only)


if __name__ == "__main__":
    sys.exit(main())
