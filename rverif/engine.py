"""Contract checking over explored paths: VC generation, verdicts, result records."""
from __future__ import annotations

import hashlib
import os
import inspect
import time
import traceback

import z3

from . import smt
from .sym import (EvalCtx, PathLimit, SymBool, Unsupported, activate, explore, to_z3_bool)


UNINTERPRETED_RELATIONS = ("KEXP",)


class Clause:
    """One contract clause on a function.

    kind 'post'   : fn(ns, result) -> bool term; checked on every returning path
    kind 'raises' : cond(ns) -> bool term; the call raises one of `exc` iff cond
    kind 'always_raises' : every feasible path must raise one of `exc`
    """

    def __init__(self, name, kind, fn=None, exc=(), note=""):
        self.name, self.kind, self.fn, self.exc, self.note = name, kind, fn, tuple(exc), note


def post(name, fn, note=""):
    return Clause(name, "post", fn, note=note)


def raises_iff(name, cond, exc, note=""):
    return Clause(name, "raises", cond, exc, note)


def always_raises(name, exc, note=""):
    return Clause(name, "always_raises", None, exc, note)


def source_info(obj):
    """(qualified name, file:first-last, sha1 of source) of a real function, read now."""
    try:
        f = inspect.unwrap(obj)
        src = inspect.getsource(f)
        lines, first = inspect.getsourcelines(f)
        fn = inspect.getsourcefile(f)
        return {"file": fn, "lines": [first, first + len(lines) - 1],
                "sha1": hashlib.sha1(src.encode()).hexdigest()[:12]}
    except Exception as e:            # builtins, properties ...
        return {"file": None, "lines": None, "sha1": None, "note": str(e)}


def ob(function, clause, label, status, **kw):
    d = {"function": function, "clause": clause, "label": label, "status": status,
         "id": f"{function}/{clause}" + (f"[{label}]" if label else "")}
    d.update(kw)
    return d


def _eval_clause(fn, *args, transc=()):
    """Evaluate a clause lambda on proxies.  Returns (z3 bool term, extra axioms)."""
    ec = EvalCtx(transc=transc)
    with activate(ec):
        v = fn(*args)
    if isinstance(v, (bool,)) or type(v).__name__ == "bool_":
        return z3.BoolVal(bool(v)), ec.axioms
    return to_z3_bool(v), ec.axioms


def make_replay(setup, call, clauses, allow_exc=()):
    """Generic native replay: re-run the same harness with every fresh symbol replaced by its
    value in the solver model, real NumPy/SciPy restored, and evaluate the clause on floats."""
    from .install import native
    from .sym import ConcreteCtx
    by_name = {c.name: c for c in clauses}

    def replay(ns, model, clause_name, path):
        cc = ConcreteCtx(model)
        info = {"inputs": {k: (float(v) if not isinstance(v, (str, bool)) else v) for k, v in (model or {}).items()
                           if "!" in k and int(k.split("!")[1]) < 10**6}}
        with native(), activate(cc):
            try:
                ns2 = setup(cc)
            except Exception as e:
                return dict(info, confirmed=None, why=f"native setup failed: {type(e).__name__}: {e}")
            if cc.failed_assumptions:
                return dict(info, confirmed=None, why="model does not satisfy the preconditions in floats")
            try:
                res = call(ns2)
                outcome = "ret"
            except Exception as e:
                res, outcome = e, "exc"
            info["native_outcome"] = "returned" if outcome == "ret" else f"raised {type(res).__name__}: {res}"
            cl = by_name.get(clause_name)
            import itertools
            cc.fresh = itertools.count(10**6)            # clause-level ghost symbols are numbered from 10**6 (EvalCtx)
            try:
                if clause_name == "returns-normally":
                    bad = outcome == "exc" and not isinstance(res, tuple(allow_exc)) and not any(
                        c.kind in ("raises", "always_raises") and isinstance(res, c.exc) for c in clauses)
                    return dict(info, confirmed=bool(bad))
                if cl.kind == "post":
                    if outcome == "exc":
                        return dict(info, confirmed=False, why="native run raised where the symbolic path returned")
                    ok = cl.fn(ns2, res)
                    return dict(info, confirmed=not bool(ok), clause_value=bool(ok))
                if cl.kind == "raises":
                    cond = bool(cl.fn(ns2))
                    raised = outcome == "exc" and isinstance(res, cl.exc)
                    return dict(info, confirmed=(cond != raised), cond=cond, raised=raised)
                if cl.kind == "always_raises":
                    raised = outcome == "exc" and isinstance(res, cl.exc)
                    return dict(info, confirmed=not raised)
            except Exception as e:
                return dict(info, confirmed=True, why=f"clause not evaluable natively: {type(e).__name__}: {e}")
        return dict(info, confirmed=None)

    return replay


def native_sampling(setup, call, clauses, allow_exc=(), n=300, seed=12345):
    """Run the harness natively on sampled inputs; return the first clause failure found (or None)."""
    import random
    from .install import native
    from .sym import SamplingCtx
    rng = random.Random(seed)
    with native():
        for _ in range(n):
            cc = SamplingCtx(rng)
            with activate(cc):
                try:
                    ns = setup(cc)
                except Exception:
                    continue
                if cc.failed_assumptions:
                    continue
                try:
                    res, outcome = call(ns), "ret"
                except Exception as e:
                    res, outcome = e, "exc"
                for cl in clauses:
                    try:
                        if cl.kind == "post" and outcome == "ret":
                            if not bool(cl.fn(ns, res)):
                                return {"clause": cl.name, "inputs": dict(cc.chosen), "native_outcome": "returned"}
                        elif cl.kind == "raises":
                            cond = bool(cl.fn(ns))
                            raised = outcome == "exc" and isinstance(res, cl.exc)
                            if cond != raised and (outcome == "ret" or raised):
                                return {"clause": cl.name, "inputs": dict(cc.chosen), "native_outcome": str(res)[:200]}
                        elif cl.kind == "always_raises":
                            if not (outcome == "exc" and isinstance(res, cl.exc)):
                                return {"clause": cl.name, "inputs": dict(cc.chosen), "native_outcome": "returned" if outcome == "ret" else str(res)[:200]}
                    except Exception:
                        continue
    return None


class ContractShape(Exception):
    """raised by a contract clause when an INTERNAL structure it was written against (number of helper calls, order in which
    auxiliary variables are declared ...) is not what it expects: nothing is refuted, the contract needs re-writing (undecided)"""


class HarnessError(BaseException):
    """the checking harness itself failed (exit 3); deliberately not an Exception so no path handler swallows it"""


def check_function(function, setup, call, clauses, *, mode, label="", bounded=False,
                   replay="auto", pre=(), max_paths=4096, allow_exc=(), z3_ms=None,
                   timeout_ms=10000):
    """Explore the real function on proxy inputs and discharge every clause on every path.

    setup(ctx) -> ns (dict of inputs, snapshots, ghost values); may call ctx.assume()
    call(ns)   -> result of calling the REAL function
    Returns (list of obligation dicts, stats dict).
    """
    out = []
    holder = {}
    if replay == "auto":
        replay = make_replay(setup, call, clauses, allow_exc)

    def run(c):
        try:
            ns = setup(c)
            holder["ns"] = ns
            c.ns = ns
            res = call(ns)
        except (Unsupported, PathLimit):
            raise
        except Exception as e:
            # an exception raised BY the harness text itself (innermost frame in rverif/props or harness.py) is a
            # checker defect, never a verdict about the code under contract
            tb = e.__traceback__
            while tb is not None and tb.tb_next is not None:
                tb = tb.tb_next
            fn = tb.tb_frame.f_code.co_filename if tb is not None else ""
            if ("/rverif/props/" in fn or fn.endswith("/rverif/harness.py")) and isinstance(e, (NameError, AttributeError, KeyError, IndexError, TypeError)):
                raise HarnessError(f"{type(e).__name__}: {e} (raised in {fn}:{tb.tb_lineno})") from e
            raise
        return ns, res

    t0 = time.time()
    try:
        paths = explore(run, pre=pre, max_paths=max_paths, timeout_ms=timeout_ms)
    except Exception as e:
        out.append(ob(function, "exploration", label, "undecided", mode=mode, bounded=bounded,
                      reason=f"explorer failed: {type(e).__name__}: {e}"))
        return out, {"paths": 0, "vacuous": 0, "seconds": time.time() - t0}
    # ns for exception paths: re-run setup only, under the same decisions, is not
    # needed: explore keeps the ns on the ctx; we recover it through a second pass.
    stats = {"paths": len(paths), "vacuous": 0, "feasible": 0, "seconds": 0.0}
    for p in paths:
        plabel = (label + "," if label else "") + f"path={p.index}"
        if p.outcome == "unsupported":
            # DESIGN 2.6: concretise and run natively; a clause broken natively is a violation with a
            # failing input, otherwise the path stays undecided (never counted as discharged)
            # only for harnesses whose clauses can be evaluated on floats (replay=None marks the symbolic-only ones)
            hit = native_sampling(setup, call, clauses, allow_exc) if (replay is not None and not holder.get("sampled")) else None
            holder["sampled"] = True
            if hit:
                out.append(ob(function, hit["clause"], plabel + ",native-fallback", "violated", mode=mode, bounded=True,
                              reason=f"path out of symbolic reach ({p.value}); clause fails natively on a sampled input",
                              path=p.cond_str(), model={k: str(v) for k, v in hit["inputs"].items()},
                              replayed=dict(hit, confirmed=True), backend="native", seconds=0.0))
            else:
                out.append(ob(function, "exploration", plabel, "undecided", mode=mode, bounded=bounded,
                              reason=f"out of reach: {p.value}", path=p.cond_str()))
            continue
        hyps = list(pre) + list(p.conds) + list(p.axioms)
        hyps = [to_z3_bool(h) for h in hyps]
        feas = smt.is_sat(hyps)
        if feas == "unsat":
            stats["vacuous"] += 1
            continue
        stats["feasible"] += 1
        ns = p.value[0] if p.outcome == "ret" else getattr(p, "ns", None)
        for cl in clauses:
            oid_label = plabel
            try:
                if cl.kind == "post":
                    if p.outcome != "ret":
                        continue
                    ns_, res = p.value
                    goal, ax = _eval_clause(cl.fn, ns_, res, transc=p.transc)
                elif cl.kind == "raises":
                    if p.outcome == "ret":
                        goal, ax = _eval_clause(cl.fn, p.value[0], transc=p.transc)
                        goal = z3.Not(goal)
                    elif isinstance(p.value, cl.exc):
                        goal, ax = _eval_clause(cl.fn, p.ns, transc=p.transc)
                    else:
                        continue
                elif cl.kind == "always_raises":
                    goal, ax = z3.BoolVal(p.outcome == "exc" and isinstance(p.value, cl.exc)), []
                else:
                    raise ValueError(cl.kind)
            except Unsupported as e:
                out.append(ob(function, cl.name, oid_label, "undecided", mode=mode, bounded=bounded,
                              reason=f"clause out of reach: {e}", path=p.cond_str()))
                continue
            except Exception as e:
                tb = traceback.format_exc(limit=4)
                # A clause that cannot be evaluated.  If the exception comes out of the code under contract (the clause
                # called the real code, e.g. a query, and IT raised) the contract is broken; if it comes out of the
                # contract text itself (an attribute the harness expected is gone, an index out of range in the spec
                # code) nothing has been refuted: undecided, the harness needs attention.
                t_ = e.__traceback__
                while t_ is not None and t_.tb_next is not None:
                    t_ = t_.tb_next
                fn_ = t_.tb_frame.f_code.co_filename if t_ is not None else ""
                from .install import REPO
                in_repo = os.path.realpath(fn_).startswith(os.path.realpath(REPO) + os.sep)
                out.append(ob(function, cl.name, oid_label, "violated" if in_repo else "undecided", mode=mode, bounded=bounded,
                              reason=f"clause not evaluable on the result: {type(e).__name__}: {e} (raised in {fn_})",
                              path=p.cond_str(), trace=tb, model=None, replayed=None,
                              seconds=0.0, backend="eval"))
                continue
            v = smt.check_valid(hyps + list(ax), goal, z3_ms=z3_ms)
            stats["seconds"] += v.seconds
            rec = dict(mode=mode, bounded=bounded, backend=v.backend, seconds=round(v.seconds, 4),
                       path=p.cond_str(), outcome=p.outcome if p.outcome == "ret" else
                       f"raises {type(p.value).__name__}")
            if v.status == "unsat":
                out.append(ob(function, cl.name, oid_label, "discharged", **rec))
            elif v.status == "sat":
                rep = None
                if replay is not None:
                    try:
                        rep = replay(ns, v.model, cl.name, p)
                    except Exception as e:
                        rep = {"confirmed": None, "error": f"{type(e).__name__}: {e}"}
                elif mode == "N":
                    # the harness itself ran on real NumPy/SciPy with concrete inputs: the labelled case is the failing input
                    rep = {"confirmed": True, "failing_case": label, "native": True}
                elif not p.conds and not v.model:
                    # a concrete case (no symbolic input at all): re-run it with the shims removed; if it fails there
                    # too, the labelled case is the natively confirmed failing input
                    try:
                        r2 = make_replay(setup, call, clauses, allow_exc)(ns, {}, cl.name, p)
                        if r2.get("confirmed") is True and "why" not in r2:
                            rep = dict(r2, failing_case=label, native=True)
                    except Exception:
                        rep = None
                model = {k: str(val) for k, val in (v.model or {}).items()}
                uf = any(n in str(goal) for n in UNINTERPRETED_RELATIONS)
                if rep is not None and rep.get("confirmed") is False and uf:
                    # the VC is stated over an uninterpreted cone predicate: the solver's model interprets
                    # it freely, so a native run with the real cone cannot be expected to reproduce the
                    # point.  The obligation itself (valid for EVERY predicate on the unchanged tree) fails.
                    rep = dict(rep, confirmed=None, why="counter-model interprets an uninterpreted cone predicate; "
                                                        "no numerically realisable failing input was searched for")
                if rep is not None and rep.get("confirmed") is False:
                    # the symbolic run and the native run disagree: the proxies / shims do not model this code faithfully
                    # (e.g. in-place writes through a sparse matrix's .data).  Nothing is refuted by the counter-model;
                    # fall back to the bounded stand-in once per harness: the same contract on the real code at sampled inputs
                    if "spurious_sampled" not in holder:
                        holder["spurious_sampled"] = native_sampling(setup, call, clauses, allow_exc, n=60) if replay is not None else None
                    hit = holder["spurious_sampled"]
                    if hit and not holder.get("spurious_reported"):
                        holder["spurious_reported"] = True
                        out.append(ob(function, hit["clause"], oid_label + ",native-fallback", "violated", mode=mode, bounded=True,
                                      reason="symbolic and native runs disagree (code outside the shims' model); the clause fails natively on a sampled input",
                                      path=p.cond_str(), model={k: str(val) for k, val in hit["inputs"].items()},
                                      replayed=dict(hit, confirmed=True), backend="native", seconds=0.0))
                    out.append(ob(function, cl.name, oid_label, "undecided", model=model, replayed=rep,
                                  reason="counter-model not reproduced natively (spurious)", **rec))
                else:
                    out.append(ob(function, cl.name, oid_label, "violated", model=model, replayed=rep,
                                  reason="counter-model found", **rec))
            else:
                out.append(ob(function, cl.name, oid_label, "undecided", reason=f"solver: {v.reason}", **rec))
        if p.outcome == "exc":
            covered = any(cl.kind in ("raises", "always_raises") and isinstance(p.value, cl.exc)
                          for cl in clauses) or isinstance(p.value, tuple(allow_exc))
            if not covered:
                m = smt.check_valid(hyps, z3.BoolVal(False))
                model = {k: str(val) for k, val in (m.model or {}).items()}
                rep = None
                if replay is not None:
                    try:
                        rep = replay(ns, m.model, "returns-normally", p)
                    except Exception as e:
                        rep = {"confirmed": None, "error": f"{type(e).__name__}: {e}"}
                status = "undecided" if (rep is not None and rep.get("confirmed") is False) else "violated"
                tb = "".join(traceback.format_exception(type(p.value), p.value, p.value.__traceback__, limit=-6))
                out.append(ob(function, "returns-normally", plabel, status, mode=mode, bounded=bounded,
                              reason=f"unexpected {type(p.value).__name__}: {p.value}", path=p.cond_str(),
                              model=model, replayed=rep, trace=tb, backend="z3", seconds=round(m.seconds, 4)))
    # optional CPython cross-check of the engine itself: every clause that was PROVED must also hold when the same
    # harness runs on the real code with real NumPy/SciPy at sampled inputs; a failure means the symbolic execution
    # (or a shim) misrepresents the code -- reported as undecided (exit 2), never as a verdict about the property
    ncc = int(os.environ.get("RVERIF_CROSSCHECK", "0") or 0)
    if ncc and mode == "D" and replay is not None and out and all(o["status"] == "discharged" for o in out):
        hit = native_sampling(setup, call, clauses, allow_exc, n=ncc, seed=__import__("zlib").crc32(label.encode()) % 100000)
        stats["crosscheck_samples"] = ncc
        if hit:
            out.append(ob(function, hit["clause"], (label + "," if label else "") + "cpython-crosscheck", "undecided", mode=mode,
                          bounded=True, reason=f"ENGINE CROSS-CHECK: clause proved on every symbolic path fails natively at {hit['inputs']}"))
    stats["wall"] = time.time() - t0
    if stats["feasible"] == 0:
        out.append(ob(function, "vacuity", label, "undecided", mode=mode, bounded=bounded,
                      reason="no feasible path: contradictory precondition or harness"))
    return out, stats


def check_enumeration(function, clause, label, f):
    """A concrete, exhaustive enumeration run against the real code: f() returns True or a description of the first
    failing case.  A failure is re-run with the shims removed; if it fails there too the obligation carries that case
    as its (natively confirmed) failing input."""
    from .install import native
    obs, _ = check_function(function, lambda c: {}, lambda ns: f(), [post(clause, lambda ns, res: res is True)],
                            mode="D", label=label, bounded=True, replay=None)
    for o in obs:
        if o["status"] == "violated":
            try:
                with native():
                    r = f()
            except Exception as e:           # noqa: the real code raised natively: that is the failing case
                r = f"raised {type(e).__name__}: {e}"
            o["reason"] = (o.get("reason") or "") + " | " + str(r)
            if r is not True:
                o["replayed"] = {"confirmed": True, "inputs": {"failing case": str(r)}, "native_outcome": "fails with real NumPy/SciPy too"}
    return obs
