"""Conformance of the NumPy/SciPy shims (DESIGN.md 2.3): run rsome's own test-suite with every solver
replaced by a recorder, once natively and once with the shims installed, and compare every formula
handed to a solver (dense coefficients, stored-entry pattern, right-hand sides, senses, types, bounds,
objective, cones).  A difference is a checker defect (exit 3), never a property violation.

    python -m rverif.conformance --mode native|shim|shimobj --out FILE     (one recording run)
    python -m rverif.conformance --compare                                   (runs all and compares)
"""
from __future__ import annotations

import argparse
import hashlib
import json
import os
import subprocess
import sys

import numpy as np

ROOT = os.path.dirname(os.path.dirname(os.path.abspath(__file__)))
REPO = os.environ.get("RVERIF_REPO", "/repo")


def _digest_formula(f):
    def dense(m):
        if hasattr(m, "toarray"):
            a = np.asarray(m.toarray(), dtype=float)
        else:
            a = np.asarray(m, dtype=float)
        return a

    def stored(m):
        if hasattr(m, "S"):
            r, c = np.nonzero(m.S)
        else:
            coo = m.tocoo()
            order = np.lexsort((coo.col, coo.row))
            r, c = coo.row[order], coo.col[order]
        return sorted(zip(map(int, r), map(int, c)))

    def h(x):
        return hashlib.sha1(x).hexdigest()[:12]

    def fb(a):
        # canonical bytes of a float array: rounded, and -0.0 folded into 0.0
        return (np.round(np.asarray(a, dtype=float), 8) + 0.0).tobytes()

    st = stored(f.linear)
    M = f.linear
    if hasattr(M, "S"):
        Ad = np.asarray(M.toarray(), dtype=float)
        vals = [float(Ad[i, j]) for i, j in st]
    else:
        csr = M.tocsr()
        vals = [float(csr[i, j]) for i, j in st] if len(st) < 20000 else []
    nzv = [(i, j, round(v, 8) + 0.0) for (i, j), v in zip(st, vals) if v != 0]
    d = {"shape": list(M.shape), "A": h(repr(nzv).encode()), "stored": h(repr(st).encode()),
         "const": h(fb(f.const)),
         "sense": h(fb(f.sense)), "vtype": h("".join(str(v) for v in f.vtype).encode()),
         "ub": h(fb(f.ub)), "lb": h(fb(f.lb)),
         "obj": h(fb(np.asarray(f.obj, dtype=float).reshape(-1))),
         "qmat": h(repr([[int(i) for i in q] for q in getattr(f, "qmat", [])]).encode()),
         "xmat": h(repr([[int(i) for i in q] for q in getattr(f, "xmat", [])]).encode()),
         "lmi": len(getattr(f, "lmi", []) or [])}
    s = json.dumps(d, sort_keys=True)
    return hashlib.sha1(s.encode()).hexdigest()[:16], d


# the case-study tests build models with thousands of columns: far beyond what dense proxies are meant for
# (test_ro_affine / test_dro_affine use 3-d arrays of ~100 entries per operand: minutes per test on dense object proxies)
DEFAULT_TESTS = ("test_ambiguity.py test_dro_convex.py test_dro_dvar.py test_dro_model.py "
                 "test_expcone_dro.py test_expcone_ro.py test_lp_model.py test_ro_convex.py "
                 "test_ro_dvar.py test_ro_ldr.py test_ro_model.py test_ro_rvar.py test_socp_model.py")


def record(mode, out):
    if mode in ("shim", "shimobj"):
        if mode == "shimobj":
            os.environ["RVERIF_FORCE_OBJECT"] = "1"
        sys.path.insert(0, ROOT)
        from rverif import install
        install.install()
    sys.path.insert(0, REPO)
    np.random.seed(20260929)
    import pytest
    from rsome import lp
    import rsome.ro, rsome.dro, rsome.gcp, rsome.eco_solver, rsome.ort_solver, rsome.grb_solver   # noqa

    log = {"current": None, "formulas": {}}

    def fake(formula, *a, **k):
        key = log["current"]
        h, d = _digest_formula(formula)
        log["formulas"].setdefault(key, []).append({"digest": h, "detail": d})
        n = formula.linear.shape[1]
        m = formula.linear.shape[0]
        y = {"pi": np.zeros(m), "upi": np.zeros(n), "lpi": np.zeros(n)}
        return lp.Solution("recorder", 0.0, np.zeros(n), 0, 0.0, y=y)

    for mod in (rsome.lp, rsome.ro, rsome.dro, rsome.gcp):
        if hasattr(mod, "def_sol"):
            mod.def_sol = fake
    for mod in (rsome.eco_solver, rsome.ort_solver, rsome.grb_solver):
        mod.solve = fake

    class Plugin:
        def pytest_runtest_setup(self, item):
            log["current"] = item.nodeid

    sel = os.environ.get("RVERIF_CONF_TESTS", DEFAULT_TESTS).split()
    # the corpus is rsome's own test-suite; a scratch copy of the package (RVERIF_REPO, used for self-tests of the checks)
    # may come without it: then the suite of /repo drives the copy's code
    troot = REPO if os.path.isdir(os.path.join(REPO, "tests")) else "/repo"
    targets = [os.path.join(troot, "tests", t) for t in sel] if sel else [os.path.join(troot, "tests")]
    pytest.main(["-q", "-q", "--tb=no", "-p", "no:cacheprovider", "--timeout=600", "-W", "ignore"] + targets, plugins=[Plugin()])
    with open(out, "w") as f:
        json.dump(log["formulas"], f)


def compare(keep=False):
    import tempfile
    tmp = tempfile.mkdtemp(prefix="rverif_conf_")
    outs = {}
    procs = {}
    for mode in ("native", "shim", "shimobj"):
        outs[mode] = os.path.join(tmp, mode + ".json")
        env = dict(os.environ, PYTHONPATH=os.pathsep.join([os.path.join(ROOT, ".pydeps"), ROOT]))
        procs[mode] = subprocess.Popen([sys.executable, "-m", "rverif.conformance", "--mode", mode, "--out", outs[mode]],
                                       cwd=tmp, env=env, stdout=subprocess.DEVNULL, stderr=subprocess.DEVNULL)
    for p in procs.values():
        p.wait()
    data = {m: json.load(open(o)) for m, o in outs.items() if os.path.exists(o)}
    report = {"tests": 0, "formulas": 0, "mismatches": []}
    if "native" not in data:
        report["mismatches"].append("native recording failed")
        return report
    nat = data["native"]
    report["tests"] = len(nat)
    for mode in ("shim", "shimobj"):
        other = data.get(mode)
        if other is None:
            report["mismatches"].append(f"{mode}: recording failed")
            continue
        for test, forms in nat.items():
            of = other.get(test)
            if of is None:
                report["mismatches"].append(f"{mode}: {test}: no formula recorded")
                continue
            for i, f in enumerate(forms):
                report["formulas"] += 1
                if i >= len(of):
                    report["mismatches"].append(f"{mode}: {test}: formula {i} missing")
                elif of[i]["digest"] != f["digest"]:
                    a, b = f["detail"], of[i]["detail"]
                    keys = [k for k in a if a[k] != b[k]]
                    report["mismatches"].append(f"{mode}: {test}: formula {i} differs in {keys}")
    if not keep:
        import shutil
        shutil.rmtree(tmp, ignore_errors=True)
    return report


if __name__ == "__main__":
    ap = argparse.ArgumentParser()
    ap.add_argument("--mode")
    ap.add_argument("--out")
    ap.add_argument("--compare", action="store_true")
    a = ap.parse_args()
    if a.compare:
        r = compare()
        print(json.dumps({k: (v if k != "mismatches" else v[:40]) for k, v in r.items()}, indent=1))
        sys.exit(0 if not r["mismatches"] else 3)
    record(a.mode, a.out)
