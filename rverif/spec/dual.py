"""Spec functions for programs and their Lagrangian duals (DESIGN.md 3, C08).

Prog(F): min F.obj.x  s.t.  F.linear x (<= | ==) F.const by F.sense,  F.lb <= x <= F.ub,
         x[q[0]] >= ||x[q[1:]]||_2 for q in F.qmat,  exponential cones / LMIs where present.

DualFeas(R, w): the feasible set of the textbook Lagrangian dual of a program R whose variables y
carry only sign restrictions (ub in {0, +inf}, lb in {-inf, 0}) and cone memberships:
      min q.y  s.t.  G y (<=|==) h          multipliers w (w_i >= 0 on <= rows, free on == rows)
  =>  max -h.w  s.t.  (q + G^T w)_k  = 0   for free y_k
                                     <= 0  for y_k <= 0
                                     >= 0  for y_k >= 0
                                     free  for y_k fixed at 0
                       (q + G^T w)_Q in SOC for every second-order cone block Q of y (self-dual)
Written from the mathematics; reads fields only.
"""
from __future__ import annotations

import math

import numpy as np

from ..sym import SymReal, p_and, p_eq, p_le, p_sqrt
from . import views


def _isinf(v, sign):
    return isinstance(v, (float, np.floating)) and math.isinf(float(v)) and (float(v) > 0) == (sign > 0)


def rows_hold(F, x):
    lhs = views.matvec(F.linear, x)
    const = np.asarray(F.const, dtype=object).reshape(-1)
    sense = np.asarray(F.sense).reshape(-1)
    if not (len(lhs) == len(const) == len(sense)):
        return False
    return p_and(*[(p_eq(l, c) if s == 1 else p_le(l, c)) for l, c, s in zip(lhs, const, sense)])


def bounds_hold(F, x):
    terms = []
    ub = np.asarray(F.ub, dtype=object).reshape(-1)
    lb = np.asarray(F.lb, dtype=object).reshape(-1)
    if not (len(ub) == len(lb) == len(x)):
        return False
    for xi, u, l in zip(x, ub, lb):
        if not _isinf(u, +1):
            if _isinf(u, -1):
                return False
            terms.append(p_le(xi, u))
        if not _isinf(l, -1):
            if _isinf(l, +1):
                return False
            terms.append(p_le(l, xi))
    return p_and(*terms)


def soc_holds(vals):
    """vals[0] >= || vals[1:] ||_2"""
    head, tail = vals[0], vals[1:]
    ss = sum((v * v for v in tail), 0.0)
    return p_and(p_le(0, head), p_le(ss, head * head))


KEXP = None
PAIRING = False      # set by harnesses that need the K / K* pairing fact (robust counterparts over exp-cone sets)


def exp_holds(a, b, c):
    """(a, b, c) in the exponential cone  c*exp(a/c) <= b, c > 0 (closure).  Kept as an uninterpreted
    predicate on proxies, with the one order property the contracts need instantiated on every pair of
    applications:  the cone is upward closed in its middle component  (a,b,c) in K, b <= b'  =>  (a,b',c) in K."""
    if any(isinstance(v, SymReal) for v in (a, b, c)):
        global KEXP
        import z3
        from ..sym import SymBool, to_z3, ctx
        if KEXP is None:
            KEXP = z3.Function("KEXP", z3.RealSort(), z3.RealSort(), z3.RealSort(), z3.BoolSort())
        ta, tb, tc = to_z3(a), to_z3(b), to_z3(c)
        app = KEXP(ta, tb, tc)
        cx = ctx()
        seen = getattr(cx, "_kexp_apps", None)
        if seen is None:
            seen = cx._kexp_apps = []
        for (a2, b2, c2, app2) in seen:
            cx.assume(SymBool(z3.Implies(z3.And(a2 == ta, c2 == tc, b2 <= tb, app2), app)))
            cx.assume(SymBool(z3.Implies(z3.And(a2 == ta, c2 == tc, tb <= b2, app), app2)))
            if PAIRING:
                # (p,q,r) in K  =>  (-r, q, -p-r) in K*  =>  its pairing with any (a,b,c) in K is >= 0   (M3)
                cx.assume(SymBool(z3.Implies(z3.And(app, app2), -tc * a2 + tb * b2 - (ta + tc) * c2 >= 0)))
                cx.assume(SymBool(z3.Implies(z3.And(app, app2), -c2 * ta + b2 * tb - (a2 + c2) * tc >= 0)))
        seen.append((ta, tb, tc, app))
        return SymBool(app)
    a, b, c = float(a), float(b), float(c)
    if c > 0:
        return c * math.exp(a / c) <= b + 1e-7 * (1 + abs(b))
    return c == 0 and a <= 0 and b >= 0


def cones_hold(F, x):
    terms = []
    for q in getattr(F, "qmat", []) or []:
        terms.append(soc_holds([x[int(i)] for i in q]))
    for e in getattr(F, "xmat", []) or []:
        terms.append(exp_holds(x[int(e[0])], x[int(e[1])], x[int(e[2])]))
    return p_and(*terms)


def feas(F, x):
    return p_and(rows_hold(F, x), bounds_hold(F, x), cones_hold(F, x))


def dual_feas(R, w):
    """Feasibility of w for the Lagrangian dual of R (see module docstring)."""
    G = views.dense(R.linear)
    m, n = G.shape
    h = np.asarray(R.const, dtype=object).reshape(-1)
    q = np.asarray(R.obj, dtype=object).reshape(-1)
    sense = np.asarray(R.sense).reshape(-1)
    ub = np.asarray(R.ub, dtype=object).reshape(-1)
    lb = np.asarray(R.lb, dtype=object).reshape(-1)
    if not (len(w) == m == len(h) == len(sense) and n == len(q) == len(ub) == len(lb)):
        return False
    terms = []
    for i in range(m):
        if sense[i] == 0:
            terms.append(p_le(0, w[i]))
        elif sense[i] != 1:
            return False
    red = []
    for k in range(n):
        acc = q[k]
        for i in range(m):
            g = G[i, k]
            if not isinstance(g, SymReal) and g == 0:
                continue
            acc = acc + g * w[i]
        red.append(acc)
    in_cone = set()
    for Q in getattr(R, "qmat", []) or []:
        in_cone.update(int(i) for i in Q)
    for Q in getattr(R, "xmat", []) or []:
        in_cone.update(int(i) for i in Q)
    for k in range(n):
        u, l = ub[k], lb[k]
        up0 = (not isinstance(u, SymReal)) and not _isinf(u, +1) and float(u) == 0
        lo0 = (not isinstance(l, SymReal)) and not _isinf(l, -1) and float(l) == 0
        upinf, loinf = _isinf(u, +1), _isinf(l, -1)
        if k in in_cone:
            # cone variables: the block condition below; their own bounds must be the implied ones
            if not ((upinf and (loinf or lo0))):
                return False
            continue
        if upinf and loinf:
            terms.append(p_eq(red[k], 0))
        elif up0 and loinf:
            terms.append(p_le(red[k], 0))
        elif upinf and lo0:
            terms.append(p_le(0, red[k]))
        elif up0 and lo0:
            pass
        else:
            return False        # a dual variable with a finite non-zero bound: not a form this spec covers
    for Q in getattr(R, "qmat", []) or []:
        terms.append(soc_holds([red[int(i)] for i in Q]))
    for Q in getattr(R, "xmat", []) or []:
        # (u, v, w) in the dual exponential cone  <=>  (u - w, v, -u) in the exponential cone   (M3)
        u, v, w_ = (red[int(i)] for i in Q)
        terms.append(exp_holds(u - w_, v, -u))
    return p_and(*terms)


def snapshot_prog(F):
    d = {"linear": views.dense(F.linear).copy(), "const": np.array(F.const, dtype=object).copy(),
         "sense": np.array(F.sense, dtype=object).copy(), "ub": np.array(F.ub, dtype=object).copy(),
         "lb": np.array(F.lb, dtype=object).copy(), "obj": np.array(F.obj, dtype=object).copy(),
         "vtype": np.array(F.vtype, dtype=object).copy()}
    if hasattr(F, "qmat"):
        d["qmat"] = [list(map(int, q)) for q in F.qmat]
    if hasattr(F, "xmat"):
        d["xmat"] = [list(map(int, q)) for q in F.xmat]
    return d


def _same(a, b):
    if isinstance(a, SymReal) or isinstance(b, SymReal):
        return p_eq(a, b)
    if isinstance(a, str) or isinstance(b, str):
        return a == b
    fa, fb = float(a), float(b)
    if math.isinf(fa) or math.isinf(fb):
        return fa == fb
    return p_eq(fa, fb)


def prog_unchanged(before, F):
    after = snapshot_prog(F)
    terms = []
    for k, v in before.items():
        w = after.get(k)
        if k in ("qmat", "xmat"):
            if v != w:
                return False
            continue
        if np.shape(v) != np.shape(w):
            return False
        terms += [_same(a, b) for a, b in zip(np.asarray(v, dtype=object).flat, np.asarray(w, dtype=object).flat)]
    return p_and(*terms)
