"""Table T-CVX (DESIGN.md 3): the convex representative `base` of every xtype, and the
denotations of Convex / PerspConvex / PiecewiseConvex objects and of convex constraints.

den(Convex c)(x) = c.sign * c.multiplier^k * base_xtype(val(c.affine_in, x)) + val(c.affine_out, x)
k = 2 for xtype in {S, Q}, else 1.  `base` is convex in its argument, so the expression is
convex when sign >= 0 and concave when sign <= 0.
"""
from __future__ import annotations

from fractions import Fraction

import numpy as np
import z3

from ..sym import (EXP, LOG, SymBool, SymReal, ctx, ite, sand, to_z3, p_abs, p_sqrt, p_exp, p_log, p_and, p_or, p_le, p_eq, p_implies)
from . import views

ELEMENTWISE = set("ASXLFT")
SCALAR = set("MIEQPNGCOD")
ALL_XTYPES = "AMIESQXLFPNGTCOD"


def kpow(xtype):
    return 2 if xtype in "SQ" else 1


def _abs(v):
    return p_abs(v)


def _sq(v):
    return v * v


def _uf(name, args):
    if not any(isinstance(a, SymReal) for a in args):
        return _uf_numeric(name, [float(a) for a in args])
    f = z3.Function(name, *([z3.RealSort()] * (len(args) + 1)))
    return SymReal(f(*[to_z3(a) for a in args]))


def _uf_numeric(name, a):
    """Numeric meaning of the otherwise uninterpreted atoms (used in native replay only)."""
    parts = name.split("_")
    if parts[0] == "PNORM":
        d = int(parts[1]) / int(parts[2])
        return float(np.linalg.norm(np.array(a), d))
    if parts[0] == "POW":
        return float(a[0]) ** (int(parts[1]) / int(parts[2]))
    if parts[0] == "GMEAN":
        beta = np.array([int(b) for b in parts[1:]], dtype=float)
        return float(np.prod(np.array(a) ** beta) ** (1 / beta.sum()))
    if parts[0] in ("LOGDET", "ROOTDET"):
        n = int(round(len(a) ** 0.5))
        M = np.array(a).reshape(n, n)
        det = np.linalg.det(M)
        return float(np.log(det)) if parts[0] == "LOGDET" else float(det ** (1 / n))
    if parts[0] == "PERSP":
        x, s = a
        return s * np.exp(x / s) if parts[1] == "X" else -s * np.log(x / s)
    raise ValueError(name)


def pnorm_uf(d, vals):
    d = Fraction(d).limit_denominator(10**6) if not isinstance(d, (tuple, list)) else Fraction(d[0], d[1])
    return _uf(f"PNORM_{d.numerator}_{d.denominator}_{len(vals)}", [_abs(v) for v in vals])


def _pow(v, p, q):
    """abs(v) ** (p/q) as documented for rsome.power (exact for integer exponents)."""
    a = _abs(v)
    fr = Fraction(p, q)
    if fr.denominator == 1:
        out = 1.0
        for _ in range(fr.numerator):
            out = out * a
        return out
    return _uf(f"POW_{fr.numerator}_{fr.denominator}", [a])


def _exp(v):
    return p_exp(v)


def _log(v):
    return p_log(v)


def base(xtype, vin, params=None):
    """Convex representative on the value array `vin` (object ndarray or scalar)."""
    vals = views.flat(vin)
    shape = np.shape(vin)

    def emap(f):
        out = np.empty(len(vals), dtype=object)
        for i, v in enumerate(vals):
            out[i] = f(v)
        return out.reshape(shape) if shape != () else out[0]

    if xtype == "A":
        return emap(_abs)
    if xtype == "M":
        return sum((_abs(v) for v in vals), 0.0)
    if xtype == "I":
        return views.smax_list([_abs(v) for v in vals])
    if xtype == "E":
        return p_sqrt(sum((_sq(v) for v in vals), 0.0))
    if xtype == "S":
        return emap(_sq)
    if xtype == "Q":
        return sum((_sq(v) for v in vals), 0.0)
    if xtype == "X":
        return emap(_exp)
    if xtype == "L":
        return emap(lambda v: -_log(v))
    if xtype == "F":
        return emap(lambda v: _log(1 + _exp(v)))
    if xtype == "P":
        return sum((v * _log(v) for v in vals), 0.0)
    if xtype in "NG":
        return pnorm_uf(params, vals)
    if xtype == "T":
        p, q = params
        p, q = np.asarray(p), np.asarray(q)
        if p.shape != () or q.shape != ():
            bp = np.broadcast(np.zeros(shape), p, q)
            out = np.empty(bp.shape, dtype=object)
            vv = np.broadcast_to(np.asarray(vin, dtype=object), bp.shape)
            pp, qq = np.broadcast_to(p, bp.shape), np.broadcast_to(q, bp.shape)
            for idx in np.ndindex(bp.shape):
                out[idx] = _pow(vv[idx], int(pp[idx]), int(qq[idx]))
            return out
        return emap(lambda v: _pow(v, int(p), int(q)))
    if xtype == "C":
        beta = list(params)
        return -_uf("GMEAN_" + "_".join(str(int(b)) for b in beta), vals)
    if xtype == "O":
        return -_uf(f"LOGDET_{len(vals)}", vals)
    if xtype == "D":
        return -_uf(f"ROOTDET_{len(vals)}", vals)
    raise ValueError(f"unknown xtype {xtype!r}")


def _bcast_to(b, shape):
    if np.shape(b) == tuple(shape):
        return b
    bb = np.asarray(b, dtype=object)
    if bb.size == int(np.prod(shape)):
        return bb.reshape(shape)
    return np.broadcast_to(bb, shape)


def den_convex(c, x, sign=None):
    """Value array of a Convex object at valuation x."""
    vin = views.val(c.affine_in, x)
    vout = views.val(c.affine_out, x)
    b = base(c.xtype, vin, c.params)
    m = c.multiplier
    mk = m * m if kpow(c.xtype) == 2 else m
    s = c.sign if sign is None else sign
    core = s * mk * b
    oshape = np.shape(vout)
    if np.shape(core) != oshape:
        core = _bcast_to(core, oshape)
    return core + vout


def mean_cvx(k, x):
    """CvxConstr: multiplier^k * base(in) + out <= 0, element-wise."""
    vin = views.val(k.affine_in, x)
    vout = views.val(k.affine_out, x)
    b = base(k.xtype, vin, k.params)
    m = k.multiplier
    mk = m * m if kpow(k.xtype) == 2 else m
    core = mk * b
    if np.shape(core) != np.shape(vout):
        core = _bcast_to(core, np.shape(vout))
    return views.all_le(core + vout, 0)


def inv_convex(c):
    """Inv(c): multiplier >= 0, sign in {-1,0,1}, sign = 0 => multiplier = 0."""
    s, m = c.sign, c.multiplier
    return p_and(p_le(0, m), p_or(p_eq(s, -1), p_eq(s, 0), p_eq(s, 1)), p_implies(p_eq(s, 0), p_eq(m, 0)))


# ---- perspective atoms: scale * f(in/scale) -----------------------------------

def persp_base(xtype, vin, vscale):
    """Perspective of exp / -log as an uninterpreted binary function per element."""
    a = np.asarray(vin, dtype=object)
    s = np.asarray(vscale, dtype=object)
    bc = np.broadcast(a, s)
    out = np.empty(bc.shape, dtype=object)
    aa, ss = np.broadcast_to(a, bc.shape), np.broadcast_to(s, bc.shape)
    for idx in np.ndindex(bc.shape):
        out[idx] = _uf("PERSP_" + xtype, [aa[idx], ss[idx]])
    return out if bc.shape != () else out[()]


def den_persp(c, x):
    vin = views.val(c.affine_in, x)
    vsc = views.val(c.affine_scale, x)
    vout = views.val(c.affine_out, x)
    core = c.sign * c.multiplier * persp_base(c.xtype, vin, vsc)
    if np.shape(core) != np.shape(vout):
        core = _bcast_to(core, np.shape(vout))
    return core + vout


def mean_pcvx(k, x):
    vin = views.val(k.affine_in, x)
    vsc = views.val(k.affine_scale, x)
    vout = views.val(k.affine_out, x)
    core = k.multiplier * persp_base(k.xtype, vin, vsc)
    if np.shape(core) != np.shape(vout):
        core = _bcast_to(core, np.shape(vout))
    return views.all_le(core + vout, 0)


# ---- piecewise ------------------------------------------------------------------

def den_piecewise(p, x, piece_val=None):
    pv = piece_val or (lambda e: views.val(e, x))
    vals = []
    for piece in p.pieces:
        v = pv(piece)
        vals.append(views.flat(v)[0])
    return p.sign * views.smax_list(vals)
