"""Projection of a compiled program onto the user's columns:  exists_feas(F, cols, X)  <=>  there are values for
the remaining columns that make (X, aux) feasible for F.

On proxies this is a quantified formula (linear real arithmetic when the program's coefficients are concrete, which
z3 decides); natively (replay of a counter-model) the same question is an LP feasibility problem, answered by HiGHS.
Only cone-free programs are supported natively.
"""
from __future__ import annotations

import itertools
import math

import numpy as np
import z3

from . import dual as D
from . import views
from ..sym import SymBool, SymReal, _issym, to_z3_bool

_uid = itertools.count()


def exists_feas(F, cols, X):
    n = F.linear.shape[1]
    cols = [int(j) for j in cols]
    if len(cols) != len(X) or any(j >= n for j in cols):
        return False
    if any(_issym(v) for v in X):
        k = next(_uid)
        aux = {j: z3.Real(f"ex{k}_{j}") for j in range(n) if j not in cols}
        full = [None] * n
        for j, v in zip(cols, X):
            full[j] = v
        for j, t in aux.items():
            full[j] = SymReal(t)
        body = to_z3_bool(D.feas(F, full))
        if not aux:
            return SymBool(body) if not isinstance(body, bool) else body
        return SymBool(z3.Exists(list(aux.values()), body))
    return _native(F, cols, [float(v) for v in X])


def _native(F, cols, X):
    from scipy.optimize import linprog
    if getattr(F, "qmat", None) or getattr(F, "xmat", None):
        raise NotImplementedError("native projection of conic programs")
    A = np.asarray(views.dense(F.linear), dtype=float)
    b = np.asarray(F.const, dtype=float).reshape(-1)
    sense = np.asarray(F.sense).reshape(-1)
    lb = np.asarray(F.lb, dtype=float).copy()
    ub = np.asarray(F.ub, dtype=float).copy()
    tol = 1e-7
    for j, v in zip(cols, X):
        if v < lb[j] - tol * (1 + abs(v)) or v > ub[j] + tol * (1 + abs(v)):
            return False
        lb[j] = ub[j] = v
    eq = sense == 1
    n = A.shape[1]
    # slack on every row so that boundary points are judged with the same tolerance as p_le
    slack = tol * (1 + np.abs(b))
    res = linprog(np.zeros(n), A_ub=np.vstack([A[~eq], A[eq], -A[eq]]) if len(b) else None,
                  b_ub=np.concatenate([b[~eq] + slack[~eq], b[eq] + slack[eq], -b[eq] + slack[eq]]) if len(b) else None,
                  bounds=[(None if math.isinf(l) else l, None if math.isinf(u) else u) for l, u in zip(lb, ub)], method="highs")
    return res.status == 0
