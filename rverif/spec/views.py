"""Abstract views (DESIGN.md 3): the denotation of rsome objects at a symbolic valuation.

These are spec functions: written from the mathematics, they read fields of the
objects (`linear`, `const`, `sense`, ...) but never call the rsome operators
they are used to judge.
"""
from __future__ import annotations

import numbers

import numpy as np
import z3

from ..sym import (SymBool, SymReal, sand, to_z3, to_z3_bool, ite, p_le, p_eq, p_and, p_max, p_iff)
from ..shims.sparse import ShimCSR, issparse


def fresh_vec(c, n, name="x"):
    out = np.empty(n, dtype=object)
    for i in range(n):
        out[i] = c.fresh_real(f"{name}{i}")
    return out


def dense(m):
    if isinstance(m, ShimCSR):
        return m.toarray()
    if issparse(m):
        return np.asarray(m.toarray(), dtype=object)
    return np.asarray(m)


def matvec(M, x):
    """Dense object mat-vec with zero skipping (keeps terms small)."""
    M = dense(M)
    out = np.empty(M.shape[0], dtype=object)
    for i in range(M.shape[0]):
        acc = 0.0
        for j in range(M.shape[1]):
            a = M[i, j]
            if not isinstance(a, SymReal) and a == 0:
                continue
            acc = acc + a * x[j]
        out[i] = acc
    return out


def val(e, x):
    """Value array of an affine expression / variable / constant at valuation x."""
    from rsome import lp
    if isinstance(e, (lp.Vars,)):
        e = lp.Vars.to_affine(e) if type(e) in (lp.Vars,) else e.to_affine()
    if isinstance(e, lp.Affine):
        n = e.linear.shape[1]
        xx = x[:n]
        if len(xx) < n:
            raise ValueError("valuation shorter than the expression's columns")
        v = matvec(e.linear, xx)
        c = np.asarray(e.const, dtype=object)
        return (v.reshape(c.shape) + c) if c.shape != () else (v[0] + c[()])
    if isinstance(e, np.ndarray):
        return e
    if isinstance(e, numbers.Real):
        return e
    raise TypeError(f"val: unsupported {type(e).__name__}")


def flat(v):
    if isinstance(v, np.ndarray):
        return list(v.reshape(-1))
    return [v]


def all_le(a, b):
    """Element-wise a <= b (with broadcasting) as one SymBool."""
    aa, bb = np.broadcast_arrays(np.asarray(a, dtype=object), np.asarray(b, dtype=object))
    return p_and(*[p_le(p, q) for p, q in zip(aa.flat, bb.flat)])


def all_eq(a, b):
    aa = np.asarray(a, dtype=object)
    bb = np.asarray(b, dtype=object)
    if aa.shape != bb.shape:
        try:
            aa, bb = np.broadcast_arrays(aa, bb)
        except ValueError:
            return False
    return p_and(*[p_eq(p, q) for p, q in zip(aa.flat, bb.flat)])


def same_shape_eq(a, b):
    """Shapes equal (concretely) and values equal."""
    sa, sb = np.shape(a), np.shape(b)
    if tuple(sa) != tuple(sb):
        return False
    return all_eq(a, b)


def mean_lin(k, x):
    """LinConstr: linear x <= const (sense 0) or == (sense 1), row by row."""
    lhs = matvec(k.linear, x[:k.linear.shape[1]])
    const = np.asarray(k.const, dtype=object).reshape(-1)
    sense = np.asarray(k.sense).reshape(-1)
    if not (len(lhs) == len(const) == len(sense)):
        return False
    terms = []
    for l, c, s in zip(lhs, const, sense):
        if isinstance(s, SymReal):
            raise TypeError("symbolic sense")
        terms.append(p_eq(l, c) if s == 1 else p_le(l, c))
    return p_and(*terms)


def mean_bounds(b, x):
    vals = np.asarray(b.values, dtype=object).reshape(-1)
    idx = np.asarray(b.indices).reshape(-1)
    terms = []
    for i, v in zip(idx, vals):
        if b.btype == "U":
            terms.append(p_le(x[int(i)], v))
        else:
            terms.append(p_le(v, x[int(i)]))
    return p_and(*terms)


def smax_list(vals):
    m = vals[0]
    for v in vals[1:]:
        m = p_max(m, v)
    return m
