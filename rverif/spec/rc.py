"""Spec side of the robust counterpart (DESIGN.md 3.1, C01/C02).

`holds_as_written(constr, zvals)`: the meaning of one user constraint of an uncertainty set at a
realisation z (no auxiliary variables, no square roots).
`mean_any(constr, X)`: the meaning of one compiled deterministic constraint at a full decision vector.
`rc_spec(raffine, affine, D, X, ybase, ...)`: the textbook robust counterpart of
    raffine(x) z + affine(x) <= 0  for all z in Z,   Z given by its dual standard form D:
      y_n . D.obj + affine_n <= 0
      sum_k D.linear[i,k] y_nk + D.const_i * raffine_ni  (D.sense_i)  0      i <  num_rand
      sum_k D.linear[i,k] y_nk                           (D.sense_i)  0      i >= num_rand (lifted)
      y_nk <= 0 where D.ub_k = 0,  y_nk >= 0 where D.lb_k = 0,  y_n in the cones listed in D
"""
from __future__ import annotations

import math

import numpy as np

from ..sym import SymReal, p_and, p_eq, p_le
from . import dual as D, views, atoms


def _sumsq(v):
    return sum((t * t for t in v), 0.0)


def written_cvx(k, val_in, val_out):
    """multiplier^k * base(in) + out <= 0 without square roots; exp-type atoms through the cone predicate."""
    m = k.multiplier
    xt = k.xtype
    vin = views.flat(val_in)
    vout = views.flat(val_out)
    if xt == "A":
        outs = vout if len(vout) == len(vin) else vout * len(vin)
        return p_and(*[p_le(m * abs(v) + o, 0) for v, o in zip(vin, outs)])
    if xt == "M":
        return p_le(m * sum((abs(v) for v in vin), 0.0) + vout[0], 0)
    if xt == "I":
        return p_and(*[p_le(m * abs(v) + vout[0], 0) for v in vin])
    if xt == "E":
        t = -vout[0]
        return p_and(p_le(0, t), p_le(m * m * _sumsq(vin), t * t))
    if xt == "S":
        outs = vout if len(vout) == len(vin) else vout * len(vin)
        return p_and(*[p_le(m * m * v * v + o, 0) for v, o in zip(vin, outs)])
    if xt == "Q":
        return p_le(m * m * _sumsq(vin) + vout[0], 0)
    if xt == "X":
        outs = vout if len(vout) == len(vin) else vout * len(vin)
        return p_and(*[D.exp_holds(v, -o / m, 1.0) for v, o in zip(vin, outs)])
    if xt == "L":
        outs = vout if len(vout) == len(vin) else vout * len(vin)
        return p_and(*[D.exp_holds(o / m, v, 1.0) for v, o in zip(vin, outs)])
    raise NotImplementedError(f"set constraint of xtype {xt}")


def holds_as_written(k, zval):
    """One constraint of an uncertainty set, evaluated at the realisation zval (array over the random model)."""
    from rsome import lp
    if isinstance(k, lp.LinConstr):
        return views.mean_lin(k, zval)
    if isinstance(k, lp.Bounds):
        return views.mean_bounds(k, zval)
    if isinstance(k, lp.CvxConstr):
        return written_cvx(k, views.val(k.affine_in, zval), views.val(k.affine_out, zval))
    if isinstance(k, lp.KLConstr):
        raise NotImplementedError("KL set")
    raise NotImplementedError(type(k).__name__)


def mean_any(k, X):
    """Meaning of one compiled (deterministic) constraint at the full decision vector X."""
    from rsome import lp
    if isinstance(k, lp.LinConstr):
        return views.mean_lin(k, X)
    if isinstance(k, lp.Bounds):
        return views.mean_bounds(k, X)
    if isinstance(k, lp.ConeConstr):
        head = X[k.right_var.first + int(k.right_index)]
        tail = [X[k.left_var.first + int(i)] for i in k.left_index]
        return D.soc_holds([head] + tail)
    if isinstance(k, lp.ExpConstr):
        vals = []
        for e in (k.expr1, k.expr2, k.expr3):
            vals.append(views.flat(views.val(e, X))[0] if not isinstance(e, (int, float)) else e)
        return D.exp_holds(vals[0], vals[1], vals[2])
    if isinstance(k, lp.CvxConstr):
        return written_cvx(k, views.val(k.affine_in, X), views.val(k.affine_out, X))
    raise NotImplementedError(type(k).__name__)


def _isinf(v, s):
    return isinstance(v, (float, np.floating)) and math.isinf(float(v)) and (float(v) > 0) == (s > 0)


def rc_spec(R, a, Dsup, X, ybase):
    """R: (N x nrand') value array of raffine at X, a: (N,) value array of affine at X, Dsup: the support's
    dual standard form, ybase: first column of the N x size_support block of fresh multipliers in X."""
    G = views.dense(Dsup.linear)
    nrows, ns = G.shape
    N = len(a)
    nr = min(R.shape[1], nrows) if N else 0
    obj = np.asarray(Dsup.obj, dtype=object).reshape(-1)
    const = np.asarray(Dsup.const, dtype=object).reshape(-1)
    sense = np.asarray(Dsup.sense).reshape(-1)
    terms = []
    for n in range(N):
        y = [X[ybase + n * ns + k] for k in range(ns)]
        terms.append(p_le(sum((obj[k] * y[k] for k in range(ns) if isinstance(obj[k], SymReal) or obj[k] != 0), 0.0) + a[n], 0))
        for i in range(nrows):
            lhs = sum((G[i, k] * y[k] for k in range(ns) if isinstance(G[i, k], SymReal) or G[i, k] != 0), 0.0)
            if i < nr:
                lhs = lhs + const[i] * R[n, i]
            terms.append(p_eq(lhs, 0) if sense[i] == 1 else p_le(lhs, 0))
        for k in range(ns):
            u, l = Dsup.ub[k], Dsup.lb[k]
            if not isinstance(u, SymReal) and not _isinf(u, 1) and float(u) == 0:
                terms.append(p_le(y[k], 0))
            if not isinstance(l, SymReal) and not _isinf(l, -1) and float(l) == 0:
                terms.append(p_le(0, y[k]))
        for q in getattr(Dsup, "qmat", []) or []:
            terms.append(D.soc_holds([y[int(i)] for i in q]))
        for e in getattr(Dsup, "xmat", []) or []:
            terms.append(D.exp_holds(y[int(e[0])], y[int(e[1])], y[int(e[2])]))
    return p_and(*terms)
