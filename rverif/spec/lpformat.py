"""An independent reader for the CPLEX-LP file format, written from the format definition (C16).

Supported (what an exporter of LP/MILP/SOCP programs can emit): Minimize/Maximize with an optional label,
Subject To with optionally labelled linear rows `expr (<=|=<|<|=|>=|=>|>) rhs`, quadratic rows
`[ a x1 ^2 + b x2 ^2 - c x3 ^2 ] <= rhs` (possibly mixed with linear terms), Bounds (`l <= x <= u`, `x >= l`,
`x <= u`, `x = v`, `x free`, with +-inf / +-infinity), General(s)/Integer(s), Binary/Binaries, End.
A linear expression may be empty (value 0).  Default bounds are [0, +inf) as the format defines.
"""
from __future__ import annotations

import math
import re

SECTION = re.compile(r"^\s*(minimi[sz]e|maximi[sz]e|min|max|subject\s+to|such\s+that|st|s\.t\.|bounds?|generals?|integers?|binar(?:y|ies)|end)\s*$", re.I)
NUM = r"(?:[0-9]+\.?[0-9]*(?:[eE][-+]?[0-9]+)?|\.[0-9]+(?:[eE][-+]?[0-9]+)?|inf(?:inity)?)"
TOKEN = re.compile(rf"\s*(\[|\]|\^\s*2|<=|=<|>=|=>|<|>|=|\+|-|{NUM}|[A-Za-z_!\"#$%&(),.;?@`'{{}}~][A-Za-z0-9_!\"#$%&(),.;?@`'{{}}~]*)", re.I)


class LPError(ValueError):
    pass


def _num(tok):
    t = tok.lower()
    if t in ("inf", "infinity"):
        return math.inf
    return float(tok)


def _tokens(s):
    pos, out = 0, []
    s = s.strip()
    while pos < len(s):
        m = TOKEN.match(s, pos)
        if not m:
            raise LPError(f"cannot tokenise {s[pos:pos + 20]!r}")
        out.append(m.group(1).replace(" ", ""))
        pos = m.end()
    return out


def _is_num(t):
    return re.fullmatch(NUM, t, re.I) is not None


def _parse_expr(toks):
    """returns (linear dict, quadratic dict var->coef of var^2, remaining tokens starting at a relation or end)"""
    lin, quad = {}, {}
    i, inq = 0, False
    sign, coef = 1.0, None
    while i < len(toks):
        t = toks[i]
        if t in ("<=", "=<", "<", ">=", "=>", ">", "="):
            break
        if t == "[":
            inq = True
        elif t == "]":
            inq = False
        elif t == "+":
            sign, coef = (1.0 if coef is None else sign), coef
            sign = 1.0
        elif t == "-":
            sign = -1.0
        elif _is_num(t):
            coef = _num(t)
        else:
            c = sign * (1.0 if coef is None else coef)
            sq = i + 1 < len(toks) and toks[i + 1] == "^2"
            if sq:
                quad[t] = quad.get(t, 0.0) + c
                i += 1
            else:
                if inq:
                    raise LPError("non-squared term inside [ ]")
                lin[t] = lin.get(t, 0.0) + c
            sign, coef = 1.0, None
        i += 1
    if coef is not None:
        raise LPError("dangling constant in expression")
    return lin, quad, toks[i:]


def read_lp(text):
    prog = {"sense": None, "obj": {}, "rows": [], "bounds": {}, "general": set(), "binary": set(), "order": []}
    section = None
    buf = []

    def flush():
        nonlocal buf
        if not buf:
            return
        line = " ".join(buf)
        buf = []
        if ":" in line:
            name, line = line.split(":", 1)
        toks = _tokens(line)
        if section == "obj":
            lin, quad, rest = _parse_expr(toks)
            if rest or quad:
                raise LPError("unexpected relation / quadratic objective")
            prog["obj"] = lin
        elif section == "st":
            lin, quad, rest = _parse_expr(toks)
            if len(rest) < 2:
                raise LPError(f"row without relation: {line!r}")
            rel = rest[0]
            s = -1.0 if rest[1] == "-" else 1.0
            val = rest[2] if rest[1] in "+-" else rest[1]
            rhs = s * _num(val)
            rel = {"<=": "<=", "=<": "<=", "<": "<=", ">=": ">=", "=>": ">=", ">": ">=", "=": "="}[rel]
            prog["rows"].append({"lin": lin, "quad": quad, "rel": rel, "rhs": rhs})

    for raw in text.splitlines():
        line = raw.split("\\")[0].rstrip()
        if not line.strip():
            continue
        m = SECTION.match(line)
        if m:
            flush()
            key = m.group(1).lower()
            if key.startswith("min") or key.startswith("max"):
                section = "obj"
                prog["sense"] = "min" if key.startswith("min") else "max"
            elif key[0] == "s":
                section = "st"
            elif key.startswith("bound"):
                section = "bounds"
            elif key.startswith("general") or key.startswith("integer"):
                section = "general"
            elif key.startswith("binar"):
                section = "binary"
            else:
                section = "end"
            continue
        if section in ("obj",):
            buf.append(line)
        elif section == "st":
            # a new row starts with a label "name:"; otherwise a row per line (what exporters emit)
            flush()
            buf.append(line)
        elif section == "bounds":
            toks = _tokens(line)

            def val(ts):
                s = 1.0
                if ts and ts[0] in "+-":
                    s = -1.0 if ts[0] == "-" else 1.0
                    ts = ts[1:]
                return s * _num(ts[0]), ts[1:]
            if len(toks) == 2 and toks[1].lower() == "free":
                prog["bounds"][toks[0]] = (-math.inf, math.inf)
            elif toks[0] in "+-" or _is_num(toks[0]):
                lo, rest = val(toks)
                if rest[0] not in ("<=", "=<", "<"):
                    raise LPError(f"bad bound line {line!r}")
                var = rest[1]
                rest = rest[2:]
                hi = prog["bounds"].get(var, (0.0, math.inf))[1]
                if rest:
                    if rest[0] not in ("<=", "=<", "<"):
                        raise LPError(f"bad bound line {line!r}")
                    hi, _ = val(rest[1:])
                prog["bounds"][var] = (lo, hi)
            else:
                var, rel = toks[0], toks[1]
                v, _ = val(toks[2:])
                lo, hi = prog["bounds"].get(var, (0.0, math.inf))
                if rel in ("<=", "=<", "<"):
                    hi = v
                elif rel in (">=", "=>", ">"):
                    lo = v
                else:
                    lo = hi = v
                prog["bounds"][var] = (lo, hi)
        elif section in ("general", "binary"):
            for t in line.split():
                prog[section].add(t)
    flush()
    return prog


def program_of(prog, nvars, name=lambda j: f"x{j + 1}"):
    """Dense numeric description of the parsed file over variables x1..xn (for comparison with a formula)."""
    idx = {name(j): j for j in range(nvars)}
    for d in [prog["obj"]] + [r["lin"] for r in prog["rows"]] + [r["quad"] for r in prog["rows"]]:
        for v in d:
            if v not in idx:
                raise LPError(f"unknown variable {v}")
    obj = [prog["obj"].get(name(j), 0.0) for j in range(nvars)]
    lin_rows, cones = [], []
    for r in prog["rows"]:
        if r["quad"]:
            cones.append(r)
        else:
            lin_rows.append(([r["lin"].get(name(j), 0.0) for j in range(nvars)], r["rel"], r["rhs"]))
    lb, ub, vt = [], [], []
    for j in range(nvars):
        lo, hi = prog["bounds"].get(name(j), (0.0, math.inf))
        t = "B" if name(j) in prog["binary"] else "I" if name(j) in prog["general"] else "C"
        if t == "B":
            lo, hi = max(lo, 0.0), min(hi, 1.0)
        lb.append(lo), ub.append(hi), vt.append(t)
    return {"sense": prog["sense"], "obj": obj, "rows": lin_rows, "cones": cones, "lb": lb, "ub": ub, "vtype": vt}
