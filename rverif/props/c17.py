"""C17 -- misuse fails loudly and models do not interfere with each other (DESIGN.md 5/C17).

Two structurally identical models A and B are built (same variable counts, so that a foreign
object is dimensionally compatible and would be accepted silently if a check were missing).
Every cross-model entry point must raise; objective redefinition, non-scalar objectives,
reads of unsolved/failed models and ambiguity-after-constraints must raise; and running every
public operation of A leaves the object graph of B (and all class-/module-level state) unchanged.
"""
from __future__ import annotations

import numpy as np

from ..engine import post, always_raises, check_function, source_info
from ..harness import lp, ro, dro, socp, gcp, rsome, arr, sym_affine
from .. import snap as S

META = {
    "level": "proof",
    "explanation": ("Each misuse entry point is executed on two structurally identical real models with the foreign "
                    "operand taken from the other model; the contract 'raises on every path' is checked per entry "
                    "point x operand class (coefficients of affine operands are fresh reals, so the verdict holds "
                    "for all values).  The ownership frame is discharged by comparing deep snapshots of model B, "
                    "of every rsome class dictionary and of every rsome module's non-callable globals before and "
                    "after a scripted run of every public operation of model A."),
    "bounds": "entry points x operand classes enumerated exhaustively from the classes rsome exports; 2 variables per array",
    "trusted_base": ["z3 (trivial VCs)", "CPython object model", "ShimCSR for scipy.sparse", "rverif.snap deep snapshot covers every field reachable through __dict__, lists, dicts, arrays"],
    "assumptions": ["A-ERR: any of ValueError/TypeError/SyntaxError/RuntimeError/KeyError counts as 'raises'; an "
                    "AttributeError/IndexError/NameError from deeper code is reported as a violation (crash, not a diagnosis)"],
}

ERR = (ValueError, TypeError, SyntaxError, RuntimeError, KeyError)


def jobs(tier):
    return [{"name": "cross-ro", "kind": "cross_ro"}, {"name": "cross-dro", "kind": "cross_dro"},
            {"name": "objective", "kind": "objective"}, {"name": "unsolved", "kind": "unsolved"},
            {"name": "frame", "kind": "frame"}]


def SOURCES():
    return {n: source_info(f) for n, f in (
        ("rsome.lp:Model.st", lp.Model.st), ("rsome.socp:Model.st", socp.Model.st), ("rsome.gcp:Model.st", gcp.Model.st),
        ("rsome.ro:Model.st", ro.Model.st), ("rsome.dro:Model.st", dro.Model.st), ("rsome.lp:RoConstr.forall", lp.RoConstr.forall),
        ("rsome.lp:DecRoConstr.forall", lp.DecRoConstr.forall), ("rsome.ro:Model.minmax", ro.Model.minmax),
        ("rsome.lp:Scen.suppset", lp.Scen.suppset), ("rsome.lp:Scen.exptset", lp.Scen.exptset),
        ("rsome.dro:Ambiguity.probset", dro.Ambiguity.probset), ("rsome.lp:Affine.__add__", lp.Affine.__add__),
        ("rsome.lp:Affine.__mul__", lp.Affine.__mul__), ("rsome.lp:Affine.__matmul__", lp.Affine.__matmul__),
        ("rsome.lp:RoAffine.__add__", lp.RoAffine.__add__), ("rsome.lp:concat", lp.concat),
        ("rsome.lp:DecRule.adapt", lp.DecRule.adapt), ("rsome.lp:DecVarSub.affadapt", lp.DecVarSub.affadapt),
        ("rsome.dro:Model.ambiguity", dro.Model.ambiguity))}


def _ro_pair(c=None):
    out = []
    for _ in range(2):
        m = ro.Model()
        x = m.dvar(2)
        y = m.dvar()
        X = m.dvar((2, 2))
        z = m.rvar(2)
        ld = m.ldr(2)
        out.append(dict(m=m, x=x, y=y, X=X, z=z, ld=ld))
    return out


def _dro_pair(labels=None):
    out = []
    for _ in range(2):
        m = dro.Model(2)
        x = m.dvar(2)
        y = m.dvar()
        z = m.rvar(2)
        out.append(dict(m=m, x=x, y=y, z=z))
    return out


class Formulate:
    """Returned by a misuse scenario: formulate exactly this model (no further st())."""

    def __init__(self, model):
        self.model = model


HANDED = (lp.LinConstr, lp.Bounds, lp.CvxConstr, lp.ConeConstr, lp.ExpConstr, lp.KLConstr, lp.LMIConstr, lp.PWConstr, lp.RoConstr, lp.IPCone,
          lp.Vars, lp.Affine, lp.Convex, lp.RoAffine, lp.PiecewiseConvex, lp.DecRule, lp.DecRuleSub)


def _hand_over(A, r):
    """The misuse did not raise on the spot: hand the product to model A and formulate.  The
    property only demands that no compiled program is produced."""
    m = A["m"]
    if isinstance(m, (ro.Model, dro.Model)) and m.obj is None:
        m.min(A["y"])
    if isinstance(r, Formulate):
        return r.model.do_math()
    items = r if isinstance(r, (list, tuple)) else [r]
    CONSTR = (lp.LinConstr, lp.Bounds, lp.CvxConstr, lp.ConeConstr, lp.ExpConstr, lp.KLConstr, lp.LMIConstr,
              lp.PWConstr, lp.RoConstr, lp.IPCone)
    EXPR = (lp.Vars, lp.Affine, lp.Convex, lp.RoAffine, lp.PiecewiseConvex, lp.DecRule, lp.DecRuleSub)
    for it in items:
        if isinstance(it, CONSTR):
            m.st(it)
        elif isinstance(it, EXPR):
            m.st(it <= 1)
    return m.do_math()


def _raises(fname, label, build, use, bounded=False, formulate=True):
    def setup(c):
        A, B = build()
        return {"A": A, "B": B, "c": c}

    def call(ns):
        r = use(ns["A"], ns["B"], ns["c"])
        if formulate:
            try:
                return _hand_over(ns["A"], r)
            except ERR:
                # model A refused the product.  A product that carries parts of BOTH models must be refused by model B as
                # well (it is built from A's columns too): hand it to B; only if B refuses too does the misuse "fail loudly"
                items = r if isinstance(r, (list, tuple)) else [r]
                if isinstance(r, Formulate) or not any(isinstance(it, HANDED) for it in items):
                    raise
            return _hand_over(ns["B"], r)
        return r
    cname = "raises-before-a-program-is-compiled" if formulate else "raises"
    obs, _ = check_function(fname, setup, call, [always_raises(cname, ERR)], mode="D", label=label, bounded=bounded)
    return obs


def cross_ro():
    out = []
    P = _ro_pair
    # ---- st() with a constraint of the other model, one per constraint class
    constr = {
        "LinConstr": lambda B, c: B["x"].sum() <= 1,
        "LinConstr(sym)": lambda B, c: sym_affine(c, B["m"].rc_model, (2,), [B["x"].first], "a") <= 1,
        "LinConstr(eq)": lambda B, c: B["x"] + B["y"] == 0,
        "Bounds(U)": lambda B, c: B["x"] <= 1,
        "Bounds(L)": lambda B, c: B["x"][0] >= 0,
        "CvxConstr(A)": lambda B, c: abs(B["x"]) <= 1,
        "CvxConstr(M)": lambda B, c: rsome.norm(B["x"], 1) <= 1,
        "CvxConstr(E)": lambda B, c: rsome.norm(B["x"], 2) <= 1,
        "CvxConstr(S)": lambda B, c: rsome.square(B["x"]) <= 1,
        "CvxConstr(Q)": lambda B, c: rsome.sumsqr(B["x"]) <= 1,
        "CvxConstr(G)": lambda B, c: rsome.pnorm(B["x"], 3) <= 1,
        "CvxConstr(T)": lambda B, c: rsome.power(B["x"], 3) <= 1,
        "CvxConstr(C)": lambda B, c: rsome.gmean(B["x"]) >= 1,
        "CvxConstr(X)": lambda B, c: rsome.exp(B["x"]) <= 1,
        "CvxConstr(L)": lambda B, c: rsome.log(B["x"]) >= 1,
        "CvxConstr(P)": lambda B, c: rsome.entropy(B["x"]) >= 1,
        "CvxConstr(F)": lambda B, c: rsome.softplus(B["x"]) <= 1,
        "CvxConstr(N)": lambda B, c: rsome.pnorm(B["x"], 2.5) <= 1,
        "CvxConstr(O)": lambda B, c: rsome.logdet(B["X"]) >= 1,
        "CvxConstr(D)": lambda B, c: rsome.rootdet(B["X"]) >= 1,
        "PCvxConstr(X)": lambda B, c: rsome.pexp(B["x"], B["y"]) <= 1,
        "ExpConstr": lambda B, c: rsome.expcone(B["y"], B["x"][0], B["x"][1]),
        "KLConstr": lambda B, c: rsome.kldiv(B["x"], 0.5, 0.1),
        "LMIConstr": lambda B, c: B["X"] >> 0,
        "rsocone": lambda B, c: rsome.rsocone(B["x"], B["y"], B["x"][0]),
        "PWConstr": lambda B, c: rsome.maxof(B["x"][0], B["x"][1]) <= B["y"],
        "RoConstr": lambda B, c: B["x"] @ B["z"] <= 1,
        "RoConstr(eq)": lambda B, c: (B["x"] * B["z"]).sum() + B["y"] == 0,
        "RoConstr(ldr)": lambda B, c: (B["ld"].adapt(B["z"]), B["ld"] <= 1)[1],
        "list": lambda B, c: [B["x"] >= 0, B["y"] <= 1],
    }
    for name, mk in constr.items():
        out += _raises("rsome.ro:Model.st", f"foreign {name}", P, lambda A, B, c, mk=mk: A["m"].st(mk(B, c)))
    # the deterministic layers reached directly
    for name in ("LinConstr", "Bounds(U)", "CvxConstr(A)", "CvxConstr(E)", "CvxConstr(G)", "CvxConstr(X)", "CvxConstr(O)",
                 "ExpConstr", "KLConstr", "LMIConstr", "rsocone"):
        mk = constr[name]
        out += _raises("rsome.gcp:Model.st", f"foreign {name}", P, lambda A, B, c, mk=mk: (A["m"].rc_model.st(mk(B, c)), Formulate(A["m"].rc_model))[1])
    # ---- uncertainty sets made of the other model's random variables
    sets = {
        "Bounds": lambda B: B["z"] <= 1,
        "LinConstr": lambda B: B["z"].sum() <= 1,
        "CvxConstr(E)": lambda B: rsome.norm(B["z"], 2) <= 1,
        "CvxConstr(M)": lambda B: rsome.norm(B["z"], 1) <= 1,
        "CvxConstr(G)": lambda B: rsome.pnorm(B["z"], 3) <= 1,
        "CvxConstr(X)": lambda B: rsome.exp(B["z"]).sum() <= 1,
        "ExpConstr": lambda B: rsome.expcone(B["z"][0], B["z"][1], 1),
        "KLConstr": lambda B: rsome.kldiv(B["z"], 0.5, 0.1),
        "tuple": lambda B: (B["z"] <= 1, B["z"] >= -1),
    }
    for name, mk in sets.items():
        out += _raises("rsome.lp:RoConstr.forall", f"set of foreign {name}", P,
                       lambda A, B, c, mk=mk: (A["x"] @ A["z"] <= 1).forall(mk(B)))
        out += _raises("rsome.lp:RoConstr.forall", f"own + foreign {name}", P,
                       lambda A, B, c, mk=mk: (A["x"] @ A["z"] <= 1).forall(A["z"] >= -1, mk(B)))
        out += _raises("rsome.ro:Model.minmax", f"set of foreign {name}", P,
                       lambda A, B, c, mk=mk: A["m"].minmax(A["x"] @ A["z"], mk(B)))
        out += _raises("rsome.ro:Model.maxmin", f"set of foreign {name}", P,
                       lambda A, B, c, mk=mk: A["m"].maxmin(A["x"] @ A["z"], mk(B)))
        out += _raises("rsome.lp:PWConstr.forall", f"set of foreign {name}", P,
                       lambda A, B, c, mk=mk: (rsome.maxof(A["x"] @ A["z"], A["y"]) <= 1).forall(mk(B)))
    # ---- expressions mixing two models
    ops = {
        "Affine.__add__ dec+dec": lambda A, B, c: A["x"] + B["x"],
        "Affine.__add__ sym+dec": lambda A, B, c: sym_affine(c, A["m"].rc_model, (2,), [A["x"].first], "a") + B["x"],
        "Affine.__sub__ dec-dec": lambda A, B, c: A["x"] - B["x"],
        "Affine.__add__ dec+rand": lambda A, B, c: A["x"] + B["z"],
        "Affine.__add__ rand+dec": lambda A, B, c: A["z"] + B["x"],
        "Affine.__add__ rand+rand": lambda A, B, c: A["z"] + B["z"],
        "Affine.__mul__ dec*rand": lambda A, B, c: A["x"] * B["z"],
        "Affine.__mul__ rand*dec": lambda A, B, c: A["z"] * B["x"],
        "Affine.__matmul__ dec@rand": lambda A, B, c: A["x"] @ B["z"],
        "Affine.__matmul__ rand@dec": lambda A, B, c: A["z"] @ B["x"],
        "RoAffine.__add__ +dec": lambda A, B, c: (A["x"] @ A["z"]) + B["y"],
        "RoAffine.__add__ +rand": lambda A, B, c: (A["x"] @ A["z"]) + B["z"][0],
        "RoAffine.__add__ +roaffine": lambda A, B, c: (A["x"] @ A["z"]) + (B["x"] @ B["z"]),
        "RoAffine.__le__ foreign rhs": lambda A, B, c: (A["x"] @ A["z"]) <= B["y"],
        "Affine.__le__ foreign rhs": lambda A, B, c: A["x"] <= B["x"],
        "Affine.__eq__ foreign rhs": lambda A, B, c: A["x"] == B["x"],
        "concat": lambda A, B, c: lp.concat([A["x"], B["x"]]),
        "rstack": lambda A, B, c: lp.rstack(A["x"], B["x"]),
        "cstack": lambda A, B, c: lp.cstack(A["x"], B["x"]),
        "vec": lambda A, B, c: lp.vec(A["y"], B["y"]),
        # stacking with the foreign operand in a later position and in every operand form (raw variable, slice, expression)
        "concat foreign slice second": lambda A, B, c: lp.concat([A["x"], B["x"][:1]]),
        "concat foreign first": lambda A, B, c: lp.concat([B["x"], A["x"]]),
        "concat own expression then foreign variable": lambda A, B, c: lp.concat([2 * A["x"], B["x"]]),
        "concat own variable then foreign expression": lambda A, B, c: lp.concat([A["x"], B["x"] + 0]),
        "concat array, own, foreign": lambda A, B, c: lp.concat([np.ones(1), A["x"], B["x"]]),
        "rstack foreign slice second": lambda A, B, c: lp.rstack(A["x"], B["x"][::-1]),
        "cstack own expression then foreign variable": lambda A, B, c: lp.cstack(2 * A["x"], B["x"]),
        "vec foreign slice": lambda A, B, c: lp.vec(A["y"], B["x"][0]),
        "Affine.concat": lambda A, B, c: A["x"].to_affine().concat(B["x"].to_affine()),
        "rsocone y": lambda A, B, c: rsome.rsocone(A["x"], B["y"], A["y"]),
        "rsocone z": lambda A, B, c: rsome.rsocone(A["x"], A["y"], B["y"]),
        "expcone x": lambda A, B, c: rsome.expcone(A["y"], B["y"], 1),
        "expcone z": lambda A, B, c: rsome.expcone(A["y"], A["x"][0], B["y"]),
        "kldiv q": lambda A, B, c: rsome.kldiv(A["x"], B["x"], 0.1),
        "maxof": lambda A, B, c: rsome.maxof(A["x"][0], B["x"][0]),
        "maxof foreign robust piece": lambda A, B, c: rsome.maxof(A["y"] * A["z"][0], B["y"] * B["z"][0]),
        "maxof foreign piece beside a number": lambda A, B, c: rsome.maxof(A["y"], 1, B["y"]),
        "maxof foreign rule piece": lambda A, B, c: (B["ld"].adapt(B["z"]), rsome.maxof(A["y"], B["ld"][0]))[1],
        "minof foreign piece": lambda A, B, c: rsome.minof(A["y"], B["y"]) >= 0,
        "Convex.__ge__ foreign (reflected)": lambda A, B, c: B["y"] >= rsome.norm(A["x"], 2),
        "Affine.__ge__ foreign atom": lambda A, B, c: A["y"] >= abs(B["y"]),
        "plog foreign scale": lambda A, B, c: rsome.plog(A["y"], B["y"]) >= 1,
        "expcone y": lambda A, B, c: rsome.expcone(B["y"], A["x"][0], 1),
        "expcone x (array y)": lambda A, B, c: rsome.expcone(A["x"], B["y"], 1),
        "Convex.__add__ foreign": lambda A, B, c: abs(A["y"]) + B["y"],
        "Convex.__le__ foreign": lambda A, B, c: abs(A["y"]) <= B["y"],
        "PiecewiseConvex.__add__ foreign": lambda A, B, c: rsome.maxof(A["y"], 1) + B["y"],
        "pexp foreign scale": lambda A, B, c: rsome.pexp(A["y"], B["y"]) <= 1,
        "DecRule.adapt": lambda A, B, c: A["ld"].adapt(B["z"]),
        # the same entry points on an object that has already been used legitimately (checks must not be
        # tied to first use / initialisation)
        "DecRule.adapt (after own adapt)": lambda A, B, c: (A["ld"].adapt(A["z"][0]), A["ld"].adapt(B["z"][1])),
        "DecRuleSub.adapt (after own adapt)": lambda A, B, c: (A["ld"][0].adapt(A["z"][0]), A["ld"][1].adapt(B["z"][1])),
        "RoConstr.forall (second call)": lambda A, B, c: (lambda k: (k.forall(A["z"] <= 1), k.forall(B["z"] <= 1))[1])(A["x"] @ A["z"] <= 1),
        "Model.st (after own st)": lambda A, B, c: (A["m"].st(A["x"] >= 0), A["m"].st(B["x"].sum() <= 1)),
        "Affine.__add__ (chained)": lambda A, B, c: (A["x"] + A["y"]) + B["y"],
        "DecRuleSub.adapt": lambda A, B, c: A["ld"][0].adapt(B["z"][1]),
        "DecRule + foreign": lambda A, B, c: A["ld"] + B["x"],
        "IPCone": lambda A, B, c: lp.IPCone(A["y"], B["x"].to_affine(), [1, 1]),
        "quad foreign": lambda A, B, c: A["x"].to_affine().quad(np.eye(2)) + B["y"],
    }
    for name, f in ops.items():
        out += _raises("rsome.lp:" + name.split(" ")[0], name, P, f)
    return out


def cross_dro():
    out = []
    P = _dro_pair
    constr = {
        "DecLinConstr": lambda B, c: B["x"].sum() <= 1,
        "DecLinConstr(eq)": lambda B, c: B["x"] == 0,
        "DecBounds?": lambda B, c: B["x"] <= 1,
        "DecCvxConstr": lambda B, c: abs(B["x"]) <= 1,
        "DecCvxConstr(E)": lambda B, c: rsome.norm(B["x"], 2) <= 1,
        "DecPCvxConstr": lambda B, c: rsome.pexp(B["x"], B["y"]) <= 1,
        "DecExpConstr": lambda B, c: rsome.expcone(B["y"], B["x"][0], B["x"][1]),
        "DecRoConstr": lambda B, c: B["x"] @ B["z"] <= 1,
        "DecRoConstr(E)": lambda B, c: rsome.E(B["x"] @ B["z"]) <= 1,
        "PWConstr": lambda B, c: rsome.maxof(B["x"][0], B["x"][1]) <= B["y"],
        "ExpPWConstr": lambda B, c: rsome.E(rsome.maxof(B["x"][0] * B["z"][0], B["y"])) <= 1,
    }
    for name, mk in constr.items():
        out += _raises("rsome.dro:Model.st", f"foreign {name}", P, lambda A, B, c, mk=mk: A["m"].st(mk(B, c)))

    def ro_into_dro():
        return _dro_pair()[0], _ro_pair()[0]
    out += _raises("rsome.dro:Model.st", "constraint of an ro model", ro_into_dro, lambda A, B, c: A["m"].st(B["x"].sum() <= 1))
    out += _raises("rsome.dro:Model.st", "robust constraint of an ro model", ro_into_dro,
                   lambda A, B, c: A["m"].st(B["x"] @ B["z"] <= 1))

    def dro_into_ro():
        return _ro_pair()[0], _dro_pair()[0]
    out += _raises("rsome.ro:Model.st", "constraint of a dro model", dro_into_ro, lambda A, B, c: A["m"].st(B["x"].sum() <= 1))
    out += _raises("rsome.ro:Model.st", "robust constraint of a dro model", dro_into_ro,
                   lambda A, B, c: A["m"].st(B["x"] @ B["z"] <= 1))
    # ---- ambiguity-set bookkeeping with foreign objects
    amb = {
        "Scen.suppset foreign Bounds": lambda A, B, c: A["m"].ambiguity().suppset(B["z"] <= 1),
        "Scen.suppset foreign norm": lambda A, B, c: A["m"].ambiguity().suppset(rsome.norm(B["z"], 2) <= 1),
        "Scen.suppset[0] foreign": lambda A, B, c: A["m"].ambiguity()[0].suppset(B["z"] <= 1),
        "Scen.suppset own+foreign": lambda A, B, c: A["m"].ambiguity().suppset(A["z"] >= -1, B["z"] <= 1),
        "Scen.exptset foreign": lambda A, B, c: A["m"].ambiguity().exptset(rsome.E(B["z"]) == 0),
        "Scen.exptset support-model constraint": lambda A, B, c: A["m"].ambiguity().exptset(A["z"] == 0),
        "Scen.suppset expectation-model constraint": lambda A, B, c: A["m"].ambiguity().suppset(rsome.E(A["z"]) == 0),
        "Ambiguity.probset foreign": lambda A, B, c: A["m"].ambiguity().probset(B["m"].p <= 0.6),
        "DecRoConstr.forall foreign ambiguity": lambda A, B, c: (A["x"] @ A["z"] <= 1).forall(B["m"].ambiguity()),
        "DecRoConstr.forall foreign support": lambda A, B, c: (A["x"] @ A["z"] <= 1).forall(B["z"] <= 1),
        "Model.minsup foreign ambiguity": lambda A, B, c: (A["m"].minsup(rsome.E(A["x"] @ A["z"]), B["m"].ambiguity()),
                                                           A["m"].st(A["x"] >= 0), A["m"].do_math()),
        "DecVar.adapt foreign rvar": lambda A, B, c: A["x"].adapt(B["z"]),
        "DecVar.adapt foreign rvar (after own adapt)": lambda A, B, c: (A["x"][0].adapt(A["z"][0]), A["x"][1].adapt(B["z"][1])),
        "Scen.suppset foreign (after own)": lambda A, B, c: (lambda f: (f.suppset(A["z"] <= 1), f[0].suppset(B["z"] <= 1)))(A["m"].ambiguity()),
        "Scen.exptset foreign (after own)": lambda A, B, c: (lambda f: (f.exptset(rsome.E(A["z"]) == 0), f[0].exptset(rsome.E(B["z"]) <= 1)))(A["m"].ambiguity()),
        "Model.st (after own st)": lambda A, B, c: (A["m"].st(A["x"] >= 0), A["m"].st(B["x"].sum() <= 1)),
        "DecVarSub.adapt foreign rvar": lambda A, B, c: A["x"][0].adapt(B["z"][1]),
        "DecAffine.__add__ foreign": lambda A, B, c: A["x"] + B["x"],
        "DecAffine.__mul__ foreign rand": lambda A, B, c: A["x"] * B["z"],
        "DecAffine.__matmul__ foreign rand": lambda A, B, c: A["x"] @ B["z"],
        "DecRoAffine.__add__ foreign": lambda A, B, c: (A["x"] @ A["z"]) + B["y"],
        "DecConvex.__add__ foreign": lambda A, B, c: abs(A["y"]) + B["y"],
        "concat dro": lambda A, B, c: lp.concat([A["x"], B["x"]]),
        "concat dro foreign slice second": lambda A, B, c: lp.concat([A["x"], B["x"][:1]]),
        "rstack dro own expression then foreign variable": lambda A, B, c: lp.rstack(2 * A["x"], B["x"]),
        "cstack dro": lambda A, B, c: lp.cstack(A["x"], B["x"]),
        "maxof dro": lambda A, B, c: rsome.maxof(A["y"], B["y"]),
        # atoms and cones with ONE argument from the other model (both models have the same columns, so nothing fails by size)
        "expcone dro foreign x": lambda A, B, c: rsome.expcone(A["y"], B["x"][1], 1),
        "expcone dro foreign y": lambda A, B, c: rsome.expcone(B["y"], A["x"][1], 1),
        "expcone dro foreign z": lambda A, B, c: rsome.expcone(A["y"], A["x"][1], B["x"][0]),
        "expcone dro foreign x (array y)": lambda A, B, c: rsome.expcone(A["x"], B["y"], 1),
        "rsocone dro foreign y": lambda A, B, c: rsome.rsocone(A["x"], B["y"], A["y"]),
        "rsocone dro foreign z": lambda A, B, c: rsome.rsocone(A["x"], A["y"], B["y"]),
        "kldiv dro foreign q": lambda A, B, c: rsome.kldiv(A["x"], B["x"], 0.1),
        "pexp dro foreign scale": lambda A, B, c: rsome.pexp(A["y"], B["y"]) <= 1,
        "plog dro foreign scale": lambda A, B, c: rsome.plog(A["y"], B["y"]) >= 1,
        "DecConvex.__le__ foreign": lambda A, B, c: abs(A["y"]) <= B["y"],
        "DecConvex.__ge__ foreign (reflected)": lambda A, B, c: B["y"] >= rsome.norm(A["x"], 2),
        "DecAffine.__le__ foreign atom": lambda A, B, c: A["y"] >= abs(B["y"]),
        "maxof dro foreign robust piece": lambda A, B, c: rsome.maxof(A["y"] * A["z"][0], B["y"] * B["z"][0]),
        "E(maxof) dro foreign robust piece": lambda A, B, c: rsome.E(rsome.maxof(A["y"] * A["z"][0], B["y"] * B["z"][0])) <= 1,
        "maxof dro foreign piece beside a number": lambda A, B, c: rsome.maxof(A["y"], 1, B["y"]),
        "DecRoAffine.__le__ foreign rhs": lambda A, B, c: (A["x"] @ A["z"]) <= B["y"],
        "DecAffine.__le__ foreign rhs": lambda A, B, c: A["x"] <= B["x"],
        "DecAffine.__eq__ foreign rhs": lambda A, B, c: A["x"] == B["x"],
        "RandVar.__add__ foreign decision": lambda A, B, c: A["z"] + B["x"],
        # ambiguity sets of the other model attached to objectives / constraints of every kind
        "Model.minsup foreign ambiguity, objective without randomness": lambda A, B, c: (A["m"].minsup(A["y"], B["m"].ambiguity()), Formulate(A["m"]))[1],
        "Model.maxinf foreign ambiguity, objective without randomness": lambda A, B, c: (A["m"].maxinf(A["y"], B["m"].ambiguity()), Formulate(A["m"]))[1],
        "Model.minsup foreign ambiguity with supports": lambda A, B, c: (lambda f: (f.suppset(B["z"] <= 1, B["z"] >= -1), A["m"].minsup(A["y"], f), Formulate(A["m"]))[2])(B["m"].ambiguity()),
        "Model.minsup foreign ambiguity, robust objective": lambda A, B, c: (A["m"].minsup(A["x"] @ A["z"], B["m"].ambiguity()), Formulate(A["m"]))[1],
        "Model.maxinf foreign ambiguity, expectation": lambda A, B, c: (A["m"].maxinf(rsome.E(A["x"] @ A["z"]), B["m"].ambiguity()), Formulate(A["m"]))[1],
        "Model.minsup foreign ambiguity, E(maxof)": lambda A, B, c: (A["m"].minsup(rsome.E(rsome.maxof(A["y"] * A["z"][0], A["y"])), B["m"].ambiguity()), Formulate(A["m"]))[1],
        "DecExpConstr.forall foreign ambiguity": lambda A, B, c: (rsome.E(A["x"] @ A["z"]) <= 1).forall(B["m"].ambiguity()),
        "ExpPWConstr.forall foreign ambiguity": lambda A, B, c: (rsome.E(rsome.maxof(A["y"] * A["z"][0], A["y"])) <= 1).forall(B["m"].ambiguity()),
        "DecLinConstr.forall foreign ambiguity": lambda A, B, c: (A["x"].sum() <= 1).forall(B["m"].ambiguity()),
    }
    for name, f in amb.items():
        out += _raises("rsome.dro/lp:" + name.split(" ")[0], name, P, f)

    def one():
        return _dro_pair()[0], None
    out += _raises("rsome.dro:Model.ambiguity", "after constraints exist", one,
                   lambda A, B, c: (A["m"].st(A["x"] >= 0), A["m"].ambiguity()))
    return out


def objective():
    out = []
    for front, pair in (("ro", _ro_pair), ("dro", _dro_pair)):
        def one(pair=pair):
            return pair()[0], None
        F = f"rsome.{front}:Model"
        firsts = {"min": lambda A: A["m"].min(A["y"]), "max": lambda A: A["m"].max(A["y"])}
        if front == "ro":
            firsts["minmax"] = lambda A: A["m"].minmax(A["y"] * A["z"][0], A["z"] <= 1)
            firsts["maxmin"] = lambda A: A["m"].maxmin(A["y"] * A["z"][0], A["z"] <= 1)
        else:
            firsts["minsup"] = lambda A: A["m"].minsup(rsome.E(A["y"] * A["z"][0]), A["m"].ambiguity())
            firsts["maxinf"] = lambda A: A["m"].maxinf(rsome.E(A["y"] * A["z"][0]), A["m"].ambiguity())
        seconds = dict(firsts)
        # a first objective that is a constant (a feasibility model) or a falsy value is still an objective
        firsts.update({"min 0": lambda A: A["m"].min(0), "max 0.0": lambda A: A["m"].max(0.0), "min np.float64(0)": lambda A: A["m"].min(np.float64(0)),
                       "min 2.5": lambda A: A["m"].min(2.5), "min 0*y": lambda A: A["m"].min(0 * A["y"]), "max y-y": lambda A: A["m"].max(A["y"] - A["y"])})
        for n1, f1 in firsts.items():
            for n2, f2 in seconds.items():
                out += _raises(f"{F}.{n2}", f"redefinition after {n1}", one, lambda A, B, c, f1=f1, f2=f2: (f1(A), f2(A)))
        nonscalar = {"min": lambda A: A["m"].min(A["x"]), "max": lambda A: A["m"].max(A["x"]),
                     "min slice": lambda A: A["m"].min(A["x"][0:2]), "min affine": lambda A: A["m"].min(2 * A["x"] + 1),
                     "min convex": lambda A: A["m"].min(abs(A["x"]))}
        # blocks of a 2-D variable: the number of ENTRIES decides, not the length of the first axis
        subs = {"X[0:1, :]": lambda X: X[0:1, :], "X[:, 0:1]": lambda X: X[:, 0:1], "X[0]": lambda X: X[0], "X[:, 1]": lambda X: X[:, 1],
                "X[1:2, 0:2]": lambda X: X[1:2, 0:2], "X": lambda X: X, "X[0:1, :].T": lambda X: X[0:1, :].T, "X[[0], :]": lambda X: X[[0], :]}
        if "X" in pair()[0]:
            for sn, sf in subs.items():
                nonscalar[f"min {sn}"] = lambda A, sf=sf: A["m"].min(sf(A["X"]))
                nonscalar[f"max {sn}"] = lambda A, sf=sf: A["m"].max(sf(A["X"]))
        if front == "ro":
            nonscalar["minmax"] = lambda A: A["m"].minmax(A["x"] * A["z"], A["z"] <= 1)
            nonscalar["maxmin"] = lambda A: A["m"].maxmin(A["x"] * A["z"], A["z"] <= 1)
        else:
            nonscalar["minsup"] = lambda A: A["m"].minsup(rsome.E(A["x"] * A["z"]), A["m"].ambiguity())
            nonscalar["maxinf"] = lambda A: A["m"].maxinf(rsome.E(A["x"] * A["z"]), A["m"].ambiguity())
        for n, f in nonscalar.items():
            out += _raises(f"{F}.{n.split(' ')[0]}", f"non-scalar objective ({n})", one, lambda A, B, c, f=f: f(A))

    def lpone():
        m = gcp.Model()
        x = m.dvar(2)
        return dict(m=m, x=x), None
    out += _raises("rsome.lp:Model.min", "redefinition", lpone, lambda A, B, c: (A["m"].min(A["x"][0]), A["m"].min(A["x"][1])))
    out += _raises("rsome.lp:Model.max", "redefinition", lpone, lambda A, B, c: (A["m"].min(A["x"][0]), A["m"].max(A["x"][1])))
    out += _raises("rsome.lp:Model.min", "redefinition after min 0", lpone, lambda A, B, c: (A["m"].min(0), A["m"].min(A["x"][1])))
    out += _raises("rsome.lp:Model.max", "redefinition after max 0.0", lpone, lambda A, B, c: (A["m"].max(0.0), A["m"].max(A["x"][1])))
    out += _raises("rsome.lp:Model.min", "non-scalar", lpone, lambda A, B, c: A["m"].min(A["x"]))
    out += _raises("rsome.lp:Model.max", "non-scalar slice", lpone, lambda A, B, c: A["m"].max(A["x"][0:2]))
    return out


def unsolved():
    out = []
    nan_sol = lambda: lp.Solution("oracle", float("nan"), None, 2, 0.0)    # noqa: E731

    def ro_one(failed):
        def build():
            A = _ro_pair()[0]
            A["ld"].adapt(A["z"])
            A["m"].minmax(A["y"] + A["ld"].sum(), A["z"] <= 1, A["z"] >= -1)
            A["k"] = A["m"].st(A["x"].sum() <= 1)
            A["b"] = A["m"].st(A["x"] >= 0)
            if failed:
                A["m"].do_math()
                A["m"].rc_model.solution = nan_sol()
                A["m"].solution = A["m"].rc_model.solution
            return A, None
        return build
    reads = {
        "Model.get": lambda A: A["m"].get(), "Vars.get": lambda A: A["x"].get(), "VarSub.get": lambda A: A["x"][0].get(),
        "DecRule.get": lambda A: A["ld"].get(), "DecRule.get(z)": lambda A: A["ld"].get(A["z"]),
        "Vars.__call__": lambda A: A["x"](), "Affine.__call__": lambda A: (2 * A["x"] + 1)(),
        "Convex.__call__": lambda A: abs(A["x"])(), "RoAffine.__call__": lambda A: (A["x"] @ A["z"])(),
        "DecRule.__call__": lambda A: A["ld"](), "LinConstr.dual": lambda A: A["k"].dual(), "Bounds.dual": lambda A: A["b"].dual(),
    }
    for failed in (False, True):
        for n, f in reads.items():
            if failed and n.endswith("dual"):
                continue
            out += _raises("rsome.lp:" + n.split("(")[0], f"ro, {'failed solve' if failed else 'unsolved'}: {n}", ro_one(failed),
                           lambda A, B, c, f=f: f(A), formulate=False)

    def dro_one(failed):
        def build():
            A = _dro_pair()[0]
            fs = A["m"].ambiguity()
            fs.suppset(A["z"] <= 1, A["z"] >= -1)
            A["x"].adapt(0)
            A["m"].minsup(rsome.E(A["y"] + A["x"].sum()), fs)
            A["m"].st(A["x"] >= A["z"])
            if failed:
                A["m"].do_math()
                s = nan_sol()
                A["m"].solution = s
                A["m"].ro_model.solution = s
                A["m"].ro_model.rc_model.solution = s
            return A, None
        return build
    dreads = {"Model.get": lambda A: A["m"].get(), "DecVar.get": lambda A: A["x"].get(), "DecVar.get(z)": lambda A: A["x"].get(A["z"]),
              "DecVar.__call__": lambda A: A["x"](), "DecAffine.__call__": lambda A: (2 * A["x"] + 1)(),
              "DecConvex.__call__": lambda A: abs(A["x"])()}
    for failed in (False, True):
        for n, f in dreads.items():
            out += _raises("rsome.lp:" + n.split("(")[0], f"dro, {'failed solve' if failed else 'unsolved'}: {n}", dro_one(failed),
                           lambda A, B, c, f=f: f(A), formulate=False)
    return out


# ---------------------------------------------------------------------------- ownership frame

def _global_state():
    import rsome as R
    import sys
    st = {}
    for name, mod in list(sys.modules.items()):
        if not name.startswith("rsome"):
            continue
        for k, v in vars(mod).items():
            if k.startswith("__") or callable(v) or isinstance(v, type) or type(v).__name__ == "module":
                continue
            if type(v).__module__.startswith("rverif"):
                continue
            st[f"{name}.{k}"] = S.snap(v)
        for k, v in vars(mod).items():
            if isinstance(v, type) and v.__module__ == name:
                for a, w in vars(v).items():
                    if a.startswith("__") and a.endswith("__") or callable(w) or isinstance(w, (property, staticmethod, classmethod)):
                        continue
                    st[f"{name}.{k}.{a}"] = S.snap(w)
                # default arguments of methods (mutable defaults must not be written)
                for a, w in vars(v).items():
                    d = getattr(w, "__defaults__", None)
                    if d:
                        st[f"{name}.{k}.{a}.__defaults__"] = S.snap(list(d))
        for k, v in vars(mod).items():
            d = getattr(v, "__defaults__", None)
            if d and getattr(v, "__module__", None) == name:
                st[f"{name}.{k}.__defaults__"] = S.snap(list(d))
    return st


def _oracle_solver():
    class Oracle:
        @staticmethod
        def solve(formula, display=True, log=False, params={}):
            n = formula.linear.shape[1]
            return lp.Solution("oracle", 0.0, np.zeros(n), 0, 0.0)
    return Oracle


def _script_ro(A):
    m = A["m"]
    w = m.dvar(3)
    A["ld"].adapt(A["z"])
    m.minmax(A["y"] + A["ld"].sum() + w.sum(), A["z"] <= 1, A["z"] >= -1, rsome.norm(A["z"], 2) <= 1.5)
    m.st((A["x"] * A["z"]).sum() + A["ld"][0] <= A["y"])
    m.st((A["x"] @ A["z"] <= 3).forall(abs(A["z"]) <= 0.5))
    m.st(abs(w) <= 2, rsome.sumsqr(A["x"]) <= 4, rsome.exp(A["y"]) <= 5, A["X"] >> 0)
    m.st(A["x"] >= 0, A["x"] <= 1)
    m.do_math()
    m.do_math(primal=False)
    m.solve(_oracle_solver(), display=False)
    m.get(), A["x"].get(), A["ld"].get(), A["ld"].get(A["z"]), (A["x"] @ A["z"])()
    m.st(w[0] <= 1)
    m.do_math()
    pass
    m.do_math().to_socp()


def _script_dro(A):
    m = A["m"]
    fs = m.ambiguity()
    fs[0].suppset(A["z"] <= 1, A["z"] >= -1)
    fs[1].suppset(rsome.norm(A["z"], 2) <= 1)
    fs.exptset(rsome.E(A["z"]) == 0)
    fs.probset(m.p <= 0.7)
    A["x"].adapt(1)
    A["x"].adapt(A["z"])
    m.minsup(rsome.E(A["y"] + A["x"].sum() + rsome.maxof(A["y"], A["z"][0])), fs)
    m.st(A["x"] >= A["z"] - 1, abs(A["y"]) <= 4)
    m.st(rsome.E(A["x"].sum()) <= 10)
    m.do_math()
    m.do_math(primal=False)
    m.solve(_oracle_solver(), display=False)
    m.get(), A["x"].get(), A["x"].get(A["z"]), A["x"]()


def frame():
    out = []
    for kindA, scriptA in (("ro", _script_ro), ("dro", _script_dro)):
        for kindB in ("ro", "dro"):
            def setup(c, kindA=kindA, kindB=kindB):
                A = (_ro_pair if kindA == "ro" else _dro_pair)()[0]
                B = (_ro_pair if kindB == "ro" else _dro_pair)()[0]
                # B is a complete, formulated and (oracle-)solved model
                (_script_ro if kindB == "ro" else _script_dro)(B)
                return {"A": A, "B": B, "before": S.snap(B), "gbefore": _global_state(), "script": scriptA}

            def call(ns):
                ns["script"](ns["A"])
                return S.snap(ns["B"]), _global_state()

            def b_unchanged(ns, res):
                d = S.diff(ns["before"], res[0])
                ns["_d"] = d
                return not d

            def globals_unchanged(ns, res):
                bad = [k for k in set(ns["gbefore"]) | set(res[1]) if ns["gbefore"].get(k) != res[1].get(k)]
                return not bad
            obs, _ = check_function("rsome:<all public operations>", setup, call,
                                    [post("other-model-untouched", b_unchanged),
                                     post("no-class-or-module-state-written", globals_unchanged)],
                                    mode="D", label=f"A={kindA},B={kindB}", bounded=True, replay=None)
            out += obs
    return out


def run_job(job):
    return {"cross_ro": cross_ro, "cross_dro": cross_dro, "objective": objective, "unsolved": unsolved, "frame": frame}[job["kind"]]()
