"""C19 -- formulation is deterministic and leaves user data untouched (DESIGN.md 5/C19).

Frame obligations, decided by executing the real code NATIVELY (real NumPy/SciPy, no shims -- aliasing and
in-place writes must be NumPy's own):
  * every numeric array supplied by the user (any dtype/layout, read-only or not) is byte-identical after the
    expression is built, added, formulated (primal and dual) and solved; a write attempt on a read-only array
    surfaces as an exception and is a violation;
  * formulas returned by do_math are not written by later do_math / solve / soc_solve calls;
  * building the same model twice in one process, and in fresh processes with different hash seeds, gives
    identical standard forms; repeated formulation returns the same program;
  * the global NumPy / Python random states are not consumed;
  * syntactic frame scan of every rsome module: no use of random, numpy.random, id(), hash(), uuid, datetime,
    os.environ, or iteration over sets (time is allowed for the solvers' run-time report only).
"""
from __future__ import annotations

import ast
import hashlib
import json
import os
import random
import subprocess
import sys

import numpy as np

from ..engine import post, check_function, source_info
from .. import install, snap as S

META = {
    "level": "other",
    "explanation": ("The formulation pipeline (ro and dro front ends, every operator that takes a user array) is executed "
                    "natively on write-protected and oddly laid-out user arrays, twice in one process and in fresh "
                    "processes with different hash seeds; deep snapshots decide the frame clauses; an AST scan of all "
                    "rsome modules excludes sources of nondeterminism."),
    "bounds": "arrays of <= 12 entries in 8 dtype/layout variants; 3 model templates (ro with LDR and cones, dro with events, deterministic MILP); 3 hash seeds",
    "trusted_base": ["CPython, NumPy, SciPy (native)", "rverif.snap deep snapshots", "read-only flag of NumPy arrays traps in-place writes"],
    "assumptions": ["solver-internal nondeterminism (threads, tolerances) is outside the property as stated for formulation"],
}


def SOURCES():
    from ..harness import lp, subroutines
    return {"rsome.lp:def_sol": source_info(lp.def_sol), "rsome.subroutines:add_linear": source_info(subroutines.add_linear),
            "rsome.lp:Model.do_math": source_info(lp.Model.do_math), "rsome.lp:concat": source_info(lp.concat)}


def _native():
    install.uninstall()


VARIANTS = {
    "float64": lambda a: np.array(a, dtype=float),
    "readonly": lambda a: _ro(np.array(a, dtype=float)),
    "int64": lambda a: _ro(np.array(np.round(a), dtype=np.int64)),
    "float32": lambda a: _ro(np.array(a, dtype=np.float32)),
    "fortran": lambda a: _ro(np.asfortranarray(np.array(a, dtype=float))),
    "fortran-writable": lambda a: np.asfortranarray(np.array(a, dtype=float)),
    "transposed-view": lambda a: _ro(np.ascontiguousarray(np.array(a, dtype=float).T).T),
    "strided-view": lambda a: _ro(np.repeat(np.array(a, dtype=float), 2, axis=-1)[..., ::2]),
    "negative-stride": lambda a: _ro(np.array(a, dtype=float)[..., ::-1][..., ::-1]),
    "readonly-view-of-writable": lambda a: _rov(np.array(a, dtype=float)),
}


def _ro(a):
    a.flags.writeable = False
    return a


def _rov(a):
    v = a.view()
    v.flags.writeable = False
    return v


class Oracle:
    @staticmethod
    def solve(formula, display=True, log=False, params={}):
        from rsome import lp
        return lp.Solution("oracle", 0.0, np.zeros(formula.linear.shape[1]), 0, 0.0)


def _user_arrays(mk):
    return {
        "A": mk(np.array([[1.0, 2.0, 0.0], [0.0, -1.0, 3.0]])), "b": mk(np.array([4.0, 5.0])), "c": mk(np.array([1.0, -2.0, 0.5])),
        "ub": mk(np.array([10.0, 9.0, 8.0])), "lb": mk(np.array([-1.0, 0.0, -3.0])), "Q": mk(np.array([[2.0, 0.5, 0.75], [0.5, 1.0, 0.25], [0.75, 0.25, 4.0]])),
        "q": mk(np.array([0.25, 0.25, 0.5])), "s": mk(np.array([1.0, 2.0, 3.0])), "zc": mk(np.array([[1.0, 0.0], [2.0, -1.0], [0.0, 1.0]])),
        "zv": mk(np.array([0.5, -0.5])), "beta": mk(np.array([1.0, 2.0, 1.0])), "w": mk(np.array([[1.0, 2.0, 3.0]])),
        # plain Python containers are user data too
        "beta_list": [1, 2, 2], "powers": [1, 2, 3], "bounds_list": [10.0, 9.0, 8.0], "Q_list": [[2.0, 0.5, 0.75], [0.5, 1.0, 0.25], [0.75, 0.25, 4.0]],
    }


def build_ro(U):
    from rsome import ro
    import rsome as rso
    m = ro.Model()
    x = m.dvar(3)
    t = m.dvar()
    z = m.rvar(2)
    y = m.ldr(3)
    y.adapt(z)
    m.minmax(U["c"] @ x + t + (x * (U["zc"] @ z)).sum(), z <= U["zv"] + 1, z >= U["zv"] - 1, rso.norm(z, 2) <= 1.5)
    m.st(U["A"] @ x <= U["b"], x <= U["ub"], x >= U["lb"], x * U["s"] + U["lb"] <= U["ub"] * 2)
    m.st(rso.quad(x, U["Q"]) <= t, rso.kldiv(x[:3] + 2, U["q"], 5.0), rso.pexp(x, U["s"]) <= 50, rso.norm(U["w"] @ x + 1, 2) <= 30)
    m.st((y + U["zc"] @ z <= U["ub"] + 5).forall(abs(z) <= U["zv"] + 2))
    m.st(rso.concat([x, U["b"]]) <= 20, (U["A"] @ x) @ U["b"] + U["b"].sum() <= 100, U["A"] @ y >= -50 - 0 * t)
    m.st(rso.gmean(x + 4, U["beta_list"]) >= 0.5, rso.power(x + 4, U["powers"]) <= 5000, rso.quad(x, U["Q_list"]) <= t + 50,
         rso.gmean(x + 5, U["beta"]) >= 0.25)
    return m, {"x": x, "z": z, "y": y}


def build_dro(U):
    from rsome import dro
    import rsome as rso
    m = dro.Model(3)
    x = m.dvar(3)
    t = m.dvar()
    w = m.dvar(2)
    z = m.rvar(2)
    fs = m.ambiguity()
    for s in range(3):
        fs[s].suppset(z <= U["zv"] + s, z >= U["zv"] - 2, rso.norm(z - U["zv"], 2) <= 2.5)
    fs.exptset(rso.E(z) <= U["zv"] + 0.5, rso.E(z) >= U["zv"] - 0.5)
    fs.probset(m.p <= 0.6)
    x.adapt(1)
    t.adapt(z)
    m.minsup(rso.E(U["c"] @ x + t + rso.maxof((x * U["s"]) @ (U["zc"] @ z), 1.5)), fs)
    m.st(U["A"] @ x <= U["b"], x <= U["ub"], x >= U["lb"], t >= U["zv"] @ z - 3)
    m.st(rso.E(w.sum() + x[0]) == 1.0, rso.E(w * (U["zc"] @ z)[:2] + x[:2]) == U["b"][:2] * 0.01, w <= 50, w >= -50)
    return m, {"x": x, "z": z}


def build_milp(U):
    from rsome import ro
    m = ro.Model()
    x = m.dvar(3, "B")
    y = m.dvar(3, "I")
    m.max(U["c"] @ x + U["s"] @ y)
    m.st(U["A"] @ y <= U["b"], y <= U["ub"], y >= U["lb"], x[0] <= 0, x + y <= U["ub"])
    return m, {"x": x}


def build_fixed(U):
    """variables pinned by a pair of equal bounds (at a non-zero value and at zero), zero and one-sided bounds: the branches of the dual
    formulation that read -- and must not write -- the cached primal's bound arrays"""
    from rsome import ro
    m = ro.Model()
    x = m.dvar(3)
    t = m.dvar()
    z = m.rvar()
    m.min(U["c"] @ x + t)
    m.st(U["A"] @ x <= U["b"], x[0] >= 2, x[0] <= 2, x[1] >= 0, x[1:] <= U["ub"][1:], x[2] >= U["lb"][2], t >= 0, t <= 0)
    m.st((x[1] * z + x[2] + t >= -9).forall(abs(z) <= 1), t + x.sum() >= -5)
    return m, {"x": x}


TEMPLATES = {"ro": build_ro, "dro": build_dro, "milp": build_milp, "fixed-by-equal-bounds": build_fixed}


def _bytes(U):
    return {k: ((v.tobytes(), v.dtype.str, v.shape, v.strides) if isinstance(v, np.ndarray) else repr(v)) for k, v in U.items()}


def user_data():
    _native()
    out = []
    for tname, build in TEMPLATES.items():
        for vname, mk in VARIANTS.items():
            def setup(c, build=build, mk=mk):
                U = _user_arrays(mk)
                return {"U": U, "before": _bytes(U), "build": build}

            def call(ns):
                import rsome as rso
                m, d = ns["build"](ns["U"])
                F = m.do_math()
                try:
                    m.do_math(primal=False)
                except Exception:
                    pass
                m.solve(Oracle, display=False)
                m.get()
                d["x"].get()
                if "z" in d and "y" in d:
                    d["y"].get(d["z"])
                    (d["x"] @ d["z"][:1].to_affine().reshape((1,)) if False else d["x"][0] * d["z"][0])(d["z"].assign(ns["U"]["zv"]))
                F2 = m.do_math()
                return _bytes(ns["U"])

            obs, _ = check_function("rsome:<formulation pipeline>", setup, call,
                                    [post("user-arrays-byte-identical", lambda ns, res: res == ns["before"])], mode="N",
                                    label=f"{tname},{vname}", bounded=True, replay=None)
            out += obs
    return out


def _digest(F):
    from ..props.c09 import canon
    return hashlib.sha1(json.dumps(S.snap(F), default=str, sort_keys=True).encode()).hexdigest()


CHILD = r"""
import sys, json, hashlib
sys.path.insert(0, %r); sys.path.insert(0, %r); sys.path.insert(0, %r)
import numpy as np
from rverif import install
install.uninstall()
from rverif.props import c19
from rverif import snap as S
out = {}
for t, build in c19.TEMPLATES.items():
    U = c19._user_arrays(c19.VARIANTS["float64"])
    m, d = build(U)
    out[t] = [hashlib.sha1(repr(S.snap(m.do_math())).encode()).hexdigest()]
    try:
        out[t].append(hashlib.sha1(repr(S.snap(m.do_math(primal=False))).encode()).hexdigest())
    except Exception as e:
        out[t].append(type(e).__name__)
print(json.dumps(out))
"""


def _dg(v):
    import scipy.sparse as sps
    if sps.issparse(v):
        c = v.tocsr()
        # the number of columns may legitimately grow (missing columns are zero: variables declared later); the entries may not change
        return ("sp", c.shape[0], c.data.tobytes(), c.indices.tobytes(), c.indptr.tobytes())
    if isinstance(v, np.ndarray):
        return ("nd", v.shape, str(v.dtype), v.tobytes() if v.dtype != object else repr(v.tolist()))
    if isinstance(v, (int, float, str, bool, type(None), np.generic)):
        return ("sc", repr(v))
    if isinstance(v, (list, tuple)):
        return ("seq", tuple(_dg(e) for e in v))
    if hasattr(v, "linear") and hasattr(v, "const"):
        return ("aff", _dg(v.linear), _dg(v.const))
    return None


def _stored_state(m):
    """numeric content of every constraint / expression object the model stores (the objects the user holds): coefficient
    matrices, constants, senses, multipliers, parameters -- not the back-references to models, caches or solutions"""
    out = []
    for k in list(getattr(m, "all_constr", [])) + [getattr(m, "obj", None)]:
        rec = {"type": type(k).__name__}
        for name, v in (vars(k).items() if hasattr(k, "__dict__") else []):
            if name in ("index",):          # row number assigned at formulation for dual(): bookkeeping, not content
                continue
            d = _dg(v)
            if d is not None:
                rec[name] = d
            elif isinstance(v, (list, tuple)) is False and hasattr(v, "__dict__") and name in ("affine", "raffine", "affine_in", "affine_out", "affine_scale"):
                rec[name] = _dg(v)
        for piece in getattr(k, "pieces", []) or []:
            rec.setdefault("_piece_fields", []).append({n: _dg(v) for n, v in vars(piece).items() if _dg(v) is not None})
        out.append(rec)
    return out


def determinism():
    _native()
    out = []
    from ..runner import ROOT
    for tname, build in TEMPLATES.items():
        def setup(c, build=build):
            return {"build": build}

        def call(ns):
            U1, U2 = _user_arrays(VARIANTS["float64"]), _user_arrays(VARIANTS["float64"])
            st0 = (np.random.get_state()[1].tobytes(), np.random.get_state()[2], random.getstate())
            m1, _ = ns["build"](U1)
            m2, _ = ns["build"](U2)
            stored0 = _stored_state(m1)
            F1, F2 = m1.do_math(), m2.do_math()
            s1 = S.snap(F1)
            again = m1.do_math()
            D1 = D2 = None
            try:
                D1, D2 = S.snap(m1.do_math(primal=False)), S.snap(m2.do_math(primal=False))
            except Exception:
                pass
            s1b = S.snap(m1.do_math())
            m1.solve(display=False)
            s1c = S.snap(m1.do_math())
            o1 = m1.solution.objval
            m1.solve(display=False)
            o2 = m1.solution.objval
            # the SOC approximation is a derived program: converting / soc_solve-ing any number of times at any degrees leaves the
            # cached program as it was, and the same request gives the same converted program
            soc = None
            if hasattr(m1, "soc_solve") and hasattr(F1, "to_socp"):
                c1 = S.snap(F1.to_socp(4, (-30, 60)))
                m1.soc_solve(Oracle, degree=4, display=False)
                m1.soc_solve(Oracle, degree=6, display=False)
                c2 = S.snap(m1.do_math().to_socp(4, (-30, 60)))
                soc = (S.diff(s1, S.snap(m1.do_math())), S.diff(c1, c2))
            st1 = (np.random.get_state()[1].tobytes(), np.random.get_state()[2], random.getstate())
            stored1 = _stored_state(m1)
            changed = [f"{a['type']}.{n}" for a, b in zip(stored0, stored1) for n in a if a.get(n) != b.get(n)] if len(stored0) == len(stored1) else ["number of stored constraints"]
            return dict(stored=changed, soc=soc, same=S.diff(s1, S.snap(F2)), cached=again is F1, dual_same=(D1 == D2), after_dual=S.diff(s1, s1b),
                        after_solve=S.diff(s1, s1c), objs=(o1, o2), rng=(st0 == st1))

        obs, _ = check_function("rsome:<formulation pipeline>", setup, call,
                                [post("two-builds-give-identical-standard-forms", lambda ns, r: not r["same"] and r["dual_same"]),
                                 post("repeated-formulation-returns-the-cached-program-unchanged", lambda ns, r: r["cached"] and not r["after_dual"]),
                                 post("solving-does-not-write-to-the-formula", lambda ns, r: not r["after_solve"]),
                                 post("re-solving-gives-the-same-answer", lambda ns, r: (r["objs"][0] == r["objs"][1]) or (r["objs"][0] != r["objs"][0] and r["objs"][1] != r["objs"][1])),
                                 post("soc-approximation-leaves-the-program-unchanged-and-is-repeatable", lambda ns, r: r["soc"] is None or (not r["soc"][0] and not r["soc"][1])),
                                 post("stored-constraints-and-objective-unchanged-by-formulation-and-solves", lambda ns, r: not r["stored"]),
                                 post("global-random-state-not-consumed", lambda ns, r: r["rng"])],
                                mode="N", label=tname, bounded=True, replay=None)
        out += obs

    def setup_p(c):
        return {}

    def call_p(ns):
        res = []
        for seed in ("0", "1", "4242"):
            env = dict(os.environ, PYTHONHASHSEED=seed)
            p = subprocess.run([sys.executable, "-c", CHILD % (ROOT, os.path.join(ROOT, ".pydeps"), install.REPO)],
                               capture_output=True, text=True, env=env, timeout=600)
            if p.returncode != 0:
                raise RuntimeError("child failed: " + p.stderr[-400:])
            res.append(json.loads(p.stdout.strip().splitlines()[-1]))
        return res
    obs, _ = check_function("rsome:<formulation pipeline>", setup_p, call_p,
                            [post("fresh-processes-with-different-hash-seeds-give-identical-standard-forms", lambda ns, r: all(x == r[0] for x in r))],
                            mode="N", label="3 processes", bounded=True, replay=None)
    out += obs
    return out


BANNED_CALLS = {"id", "hash"}
BANNED_ATTR_ROOTS = {("np", "random"), ("numpy", "random"), ("os", "environ")}
BANNED_IMPORTS = {"random", "uuid", "datetime", "secrets"}


def ast_scan():
    _native()
    out = []
    root = os.path.join(install.REPO, "rsome")

    def setup(c):
        return {}

    def call(ns):
        bad = []
        for fn in sorted(os.listdir(root)):
            if not fn.endswith(".py"):
                continue
            src = open(os.path.join(root, fn)).read()
            tree = ast.parse(src)
            for node in ast.walk(tree):
                if isinstance(node, ast.Import):
                    for a in node.names:
                        if a.name.split(".")[0] in BANNED_IMPORTS:
                            bad.append(f"{fn}:{node.lineno} import {a.name}")
                elif isinstance(node, ast.ImportFrom):
                    if (node.module or "").split(".")[0] in BANNED_IMPORTS or (node.module or "") == "numpy.random":
                        bad.append(f"{fn}:{node.lineno} from {node.module} import ...")
                elif isinstance(node, ast.Call) and isinstance(node.func, ast.Name) and node.func.id in BANNED_CALLS:
                    bad.append(f"{fn}:{node.lineno} {node.func.id}()")
                elif isinstance(node, ast.Attribute) and isinstance(node.value, ast.Name) and (node.value.id, node.attr) in BANNED_ATTR_ROOTS:
                    bad.append(f"{fn}:{node.lineno} {node.value.id}.{node.attr}")
                elif isinstance(node, (ast.For, ast.comprehension)):
                    it = node.iter
                    if isinstance(it, (ast.Set, ast.SetComp)) or (isinstance(it, ast.Call) and isinstance(it.func, ast.Name) and it.func.id in ("set", "frozenset")):
                        bad.append(f"{fn}:{getattr(node, 'lineno', it.lineno)} iteration over a set")
                elif isinstance(node, ast.Attribute) and isinstance(node.value, ast.Name) and node.value.id == "time" and node.attr not in ("time", "sleep"):
                    bad.append(f"{fn}:{node.lineno} time.{node.attr}")
        return bad
    obs, _ = check_function("rsome/*.py", setup, call, [post("no-source-of-nondeterminism-in-any-module", lambda ns, bad: not bad)],
                            mode="N", label="AST frame scan", bounded=False, replay=None)
    for o in obs:
        if o["status"] != "discharged":
            o["reason"] = (o.get("reason") or "") + " | " + "; ".join(call({})[:6])
    out += obs
    return out


def jobs(tier):
    return [{"name": "user-data", "kind": "user"}, {"name": "determinism", "kind": "det"}, {"name": "ast-scan", "kind": "scan"}]


def run_job(job):
    return {"user": user_data, "det": determinism, "scan": ast_scan}[job["kind"]]()
