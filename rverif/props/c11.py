"""C11 -- all solver interfaces solve the same program (DESIGN.md 5/C11).

Each interface is a translator: the real function is executed on a compiled program whose entries are
fresh reals, with the external solver replaced by a RECORDER.  Contract: the program described by the
arguments handed to the solver is the compiled program (same feasible set incl. bounds, senses, cone
memberships and integrality, same objective); the formula object is not written to; when the solver
reports no optimum the interface returns a Solution with NaN objective and no point; when it reports
an optimum the Solution carries the solver's point.  That the external solvers agree on equal
programs is trusted.
"""
from __future__ import annotations

import itertools
import math
import os
import sys
import types

import numpy as np

from ..engine import post, check_function, source_info, HarnessError
from ..harness import lp, socp, gcp, ro, rsome, arr, sym_array
from ..spec import dual as D, views
from ..sym import SymReal, p_and, p_eq, p_iff, p_le, ctx
from .c08 import _bounds, KINDS

import rsome.eco_solver as eco_mod          # noqa: E402
import rsome.ort_solver as ort_mod          # noqa: E402

META = {
    "level": "other",
    "explanation": ("def_sol (LP and MILP branches), eco_solver.solve and ort_solver.solve are executed on symbolic "
                    "compiled programs with the solver library replaced by a recorder; z3 proves that the recorded "
                    "solver arguments describe exactly the compiled program (feasible set and objective), that the "
                    "formula is left untouched, and that status handling returns NaN/None on failure and the "
                    "solver's point on success.  Complete over numeric entries; program dimensions, sense, bound and "
                    "type patterns enumerated."),
    "bounds": "2 variables, <= 2 rows, all sense patterns, all bound kinds; MILP: every vtype pattern over {C,B,I} with bounds from {-inf,-1,0,0.5,1,2,inf}; cones: one SOC and one exp cone",
    "trusted_base": ["z3", "documented argument conventions of scipy.optimize.linprog/milp, ecos.solve, pywraplp (recorded, not executed)",
                     "HiGHS, ECOS, SCIP/GLOP return optimal points of the program they are given"],
    "assumptions": ["Gurobi, CyLP, CPLEX, Mosek, COPT interfaces are not covered (not installed or licence-restricted)"],
}


def SOURCES():
    return {"rsome.lp:def_sol": source_info(lp.def_sol), "rsome.eco_solver:solve": source_info(eco_mod.solve),
            "rsome.ort_solver:solve": source_info(ort_mod.solve), "rsome.lp:Model.solve": source_info(lp.Model.solve)}


# ------------------------------------------------------------------------------ program builders

def sym_formula(c, nv, m, sense, kinds, vtype=None, cones=False, empty=()):
    """`empty`: rows that carry no stored entry (what `x - x <= b` compiles to): `0 <= b` resp. `0 == b`"""
    A = sym_array(c, (m, nv), "A")
    keep = np.array([i not in empty for i in range(m) for _ in range(nv)], dtype=bool)
    linear = lp.csr_matrix((A.reshape(-1)[keep], (np.repeat(np.arange(m), nv)[keep], np.tile(np.arange(nv), m)[keep])), shape=(m, nv))
    b = sym_array(c, (m,), "b")
    cost = sym_array(c, (nv,), "c")
    lb, ub = _bounds(c, kinds)
    if lb.dtype != object:
        lb, ub = lb.astype(object), ub.astype(object)
    vt = np.array(list(vtype) if vtype else ["C"] * nv)
    qmat = [[0, 1, 2]] if cones and nv >= 3 else []
    xmat = [[1, 2, 3]] if cones and nv >= 4 else []
    return gcp.GCProg(linear, b, np.array(sense, dtype=float), vt, ub, lb, qmat, xmat, [], cost)


class Rec:
    pass


# ------------------------------------------------------------------------------ def_sol, LP branch

class FakeOptLP:
    def __getattr__(self, name):
        # an API the recorder does not model: the harness needs extending; never a verdict about the interface
        raise HarnessError(f"{type(self).__name__} does not model '{name}'")

    def __init__(self, c, status):
        self.c, self.status, self.calls = c, status, []

    def linprog(self, cost, A_ub=None, b_ub=None, A_eq=None, b_eq=None, bounds=None, options=None):
        self.calls.append(dict(c=cost, A_ub=A_ub, b_ub=b_ub, A_eq=A_eq, b_eq=b_eq, bounds=bounds))
        n = len(cost)
        res = {"status": self.status, "x": arr([self.c.fresh_real(f"sx{i}_") for i in range(n)]),
               "upper": {"marginals": arr([self.c.fresh_real(f"up{i}_") for i in range(n)])},
               "lower": {"marginals": arr([self.c.fresh_real(f"lo{i}_") for i in range(n)])},
               "eqlin": {"marginals": arr([self.c.fresh_real(f"eq{i}_") for i in range(0 if A_eq is None else A_eq.shape[0])])},
               "ineqlin": {"marginals": arr([self.c.fresh_real(f"in{i}_") for i in range(0 if A_ub is None else A_ub.shape[0])])}}

        class R(dict):
            __getattr__ = dict.__getitem__
        return R(res)


def _rows_hold(A, b, x, eq):
    if A is None:
        return True
    lhs = views.matvec(A, x)
    return p_and(*[(p_eq(l, r) if eq else p_le(l, r)) for l, r in zip(lhs, np.asarray(b, dtype=object).reshape(-1))])


def _isinf(v, s):
    return isinstance(v, (float, np.floating)) and math.isinf(float(v)) and (float(v) > 0) == (s > 0)


def _box_holds(bounds, x):
    t = []
    for (l, u), xi in zip(bounds, x):
        if l is not None and not _isinf(l, -1):
            t.append(p_le(l, xi))
        if u is not None and not _isinf(u, 1):
            t.append(p_le(xi, u))
    return p_and(*t)


def def_sol_lp():
    out = []
    for nv, m, empty in ((2, 2, ()), (1, 1, ()), (2, 2, (1,)), (2, 2, (0, 1))):
        for sense in itertools.product([0, 1], repeat=m):
            for kinds in (itertools.product(["free", "lb", "box", "fixed"], repeat=nv) if not empty else [("lb", "box"), ("free", "ub")]):
                for status in (0, 2):
                    def setup(c, nv=nv, m=m, sense=sense, kinds=kinds, status=status, empty=empty):
                        F = sym_formula(c, nv, m, sense, kinds, empty=empty)
                        fake = FakeOptLP(c, status)
                        return {"F": F, "fake": fake, "before": D.snapshot_prog(F), "x": arr([c.fresh_real(f"x{j}_") for j in range(nv)]),
                                "status": status}

                    def call(ns):
                        real = lp.opt
                        lp.opt = ns["fake"]
                        try:
                            return lp.def_sol(ns["F"], display=False)
                        finally:
                            lp.opt = real

                    def same_program(ns, sol):
                        calls = ns["fake"].calls
                        if len(calls) != 1:
                            return False
                        k = calls[0]
                        x = ns["x"]
                        rec = p_and(_rows_hold(k["A_ub"], k["b_ub"], x, False), _rows_hold(k["A_eq"], k["b_eq"], x, True), _box_holds(k["bounds"], x))
                        obj = p_and(*[p_eq(a, b) for a, b in zip(k["c"], ns["F"].obj)])
                        return p_and(p_iff(rec, D.feas(ns["F"], x)), obj, len(k["c"]) == len(ns["F"].obj))

                    def frame(ns, sol):
                        return D.prog_unchanged(ns["before"], ns["F"])

                    def outcome(ns, sol):
                        if ns["status"] != 0:
                            return isinstance(sol, lp.Solution) and sol.x is None and isinstance(sol.objval, float) and math.isnan(sol.objval)
                        k = ns["fake"].calls[0]
                        return isinstance(sol, lp.Solution) and sol.x is not None and len(sol.x) == len(ns["F"].obj) and \
                            p_eq(sol.objval, sum((ns["F"].obj[i] * sol.x[i] for i in range(len(sol.x))), 0.0))

                    obs, _ = check_function("rsome.lp:def_sol", setup, call,
                                            [post("arguments-describe-the-compiled-program", same_program), post("formula-untouched", frame),
                                             post("status-handling", outcome)], mode="D",
                                            label=f"LP nv={nv} m={m} sense={sense} bounds={'/'.join(kinds)} status={status}" + (f" empty-rows={empty}" if empty else ""), bounded=True)
                    out += obs
    return out


# ------------------------------------------------------------------------------ def_sol, MILP branch (concrete bounds)

class FakeOptMILP:
    def __getattr__(self, name):
        # an API the recorder does not model: the harness needs extending; never a verdict about the interface
        raise HarnessError(f"{type(self).__name__} does not model '{name}'")

    def __init__(self, status):
        self.status, self.calls = status, []

    class LinearConstraint:
        def __init__(self, A, lb, ub):
            self.A, self.lb, self.ub = A, lb, ub

    class Bounds:
        def __init__(self, lb, ub):
            self.lb, self.ub = lb, ub

    def milp(self, c, constraints=None, bounds=None, integrality=None):
        self.calls.append(dict(c=c, constraints=constraints, bounds=bounds, integrality=integrality))
        r = Rec()
        r.status = self.status
        r.x = np.zeros(len(c))
        return r

    def linprog(self, *a, **k):
        raise AssertionError("linprog called for a mixed-integer program")


def def_sol_milp():
    out = []
    pool = [(-math.inf, math.inf), (0.0, 1.0), (-math.inf, 0.0), (0.0, math.inf), (0.5, 2.0), (-1.0, 0.5), (1.0, 1.0), (0.0, 0.0), (-1.0, 2.0)]
    for vt in itertools.product("CBI", repeat=2):
        if "B" not in vt and "I" not in vt:
            continue
        for bnds in itertools.product(pool, repeat=2):
            def setup(c, vt=vt, bnds=bnds):
                A = lp.csr_matrix(np.array([[1.0, 2.0], [3.0, -1.0]]))
                F = lp.LinProg(A, np.array([4.0, 5.0]), np.array([0.0, 1.0]), np.array(list(vt)),
                               np.array([b[1] for b in bnds]), np.array([b[0] for b in bnds]), np.array([1.0, -2.0]))
                return {"F": F, "fake": FakeOptMILP(0), "before": D.snapshot_prog(F), "vt": vt, "bnds": bnds}

            def call(ns):
                real = lp.opt
                lp.opt = ns["fake"]
                try:
                    return lp.def_sol(ns["F"], display=False)
                finally:
                    lp.opt = real

            def same_integer_box(ns, sol):
                k = ns["fake"].calls
                if len(k) != 1:
                    return False
                k = k[0]
                for j in range(2):
                    lo, hi = ns["bnds"][j]
                    rl, ru = float(k["bounds"].lb[j]), float(k["bounds"].ub[j])
                    integ = float(k["integrality"][j])
                    cand = [v / 2 for v in range(-8, 9)]
                    for v in cand:
                        in_prog = lo <= v <= hi and (ns["vt"][j] == "C" or (float(v).is_integer() and (ns["vt"][j] == "I" or v in (0.0, 1.0))))
                        in_rec = rl <= v <= ru and (integ == 0 or float(v).is_integer())
                        if in_prog != in_rec:
                            return False
                    if (integ != 0) != (ns["vt"][j] != "C"):
                        return False
                return True

            def rows_same(ns, sol):
                k = ns["fake"].calls[0]
                A = np.asarray(views.dense(k["constraints"].A), dtype=float)
                F = ns["F"]
                ok = np.array_equal(A, np.asarray(views.dense(F.linear), dtype=float))
                bl, bu = np.asarray(k["constraints"].lb, dtype=float), np.asarray(k["constraints"].ub, dtype=float)
                for i in range(2):
                    ok = ok and bu[i] == float(F.const[i]) and (bl[i] == float(F.const[i]) if F.sense[i] == 1 else bl[i] == -math.inf)
                return bool(ok and np.array_equal(np.asarray(k["c"], dtype=float), np.asarray(F.obj, dtype=float)))

            def frame(ns, sol):
                return D.prog_unchanged(ns["before"], ns["F"])

            obs, _ = check_function("rsome.lp:def_sol", setup, call,
                                    [post("bounds-and-integrality-describe-the-compiled-program", same_integer_box),
                                     post("rows-and-objective-describe-the-compiled-program", rows_same), post("formula-untouched", frame)],
                                    mode="D", label=f"MILP vtype={''.join(vt)} bounds={bnds}", bounded=True, replay=None)
            out += obs
    return out


# ------------------------------------------------------------------------------ ECOS

class FakeEcos:
    def __getattr__(self, name):
        # an API the recorder does not model: the harness needs extending; never a verdict about the interface
        raise HarnessError(f"{type(self).__name__} does not model '{name}'")

    __version__ = "recorder"

    def __init__(self, c, flag):
        self.c, self.flag, self.calls = c, flag, []

    def solve(self, cost, G, h, dims, A=None, b=None, **kw):
        self.calls.append(dict(c=cost, G=G, h=h, dims=dims, A=A, b=b, kw=kw))
        n = len(cost)
        m = G.shape[0]
        p = 0 if A is None else A.shape[0]
        self.last = {"x": arr([self.c.fresh_real(f"sx{i}_") for i in range(n)]), "y": arr([self.c.fresh_real(f"sy{i}_") for i in range(p)]),
                     "z": arr([self.c.fresh_real(f"sz{i}_") for i in range(m)]),
                     "info": {"exitFlag": self.flag, "pcost": self.c.fresh_real("pcost"), "infostring": "rec", "timing": {"runtime": 0.0}}}
        return self.last


def ecos_cases():
    out = []
    configs = []
    for sense in itertools.product([0, 1], repeat=2):
        for kinds in (("free", "free"), ("lb", "ub"), ("box", "fixed"), ("fixed", "lb")):
            configs.append((2, 2, sense, kinds, None, False))
    configs += [(4, 2, (0, 1), ("free", "lb", "free", "box"), None, True), (4, 1, (1,), ("lb", "free", "free", "ub"), None, True),
                (2, 1, (0,), ("box", "lb"), "BC", False), (2, 1, (1,), ("box", "box"), "IB", False)]
    configs = [cf + ((),) for cf in configs]
    configs += [(2, 2, (0, 0), ("lb", "box"), None, False, (1,)), (2, 2, (1, 0), ("free", "ub"), None, False, (0,)),
                (4, 2, (0, 1), ("free", "lb", "free", "box"), None, True, (0, 1))]
    for nv, m, sense, kinds, vt, cones, empty in configs:
        for flag in (0, 10, 1, -2, 11):
            def setup(c, nv=nv, m=m, sense=sense, kinds=kinds, vt=vt, cones=cones, flag=flag, empty=empty):
                F = sym_formula(c, nv, m, sense, kinds, vt, cones, empty=empty)
                return {"F": F, "fake": FakeEcos(c, flag), "before": D.snapshot_prog(F), "x": arr([c.fresh_real(f"x{j}_") for j in range(nv)]), "flag": flag}

            def call(ns):
                real = eco_mod.ecos
                eco_mod.ecos = ns["fake"]
                try:
                    return eco_mod.solve(ns["F"], display=False)
                finally:
                    eco_mod.ecos = real

            def same_program(ns, sol):
                k = ns["fake"].calls
                if len(k) != 1:
                    return False
                k = k[0]
                x = ns["x"]
                F = ns["F"]
                G = views.dense(k["G"])
                h = np.asarray(k["h"], dtype=object).reshape(-1)
                s = [h[i] - sum((G[i, j] * x[j] for j in range(len(x)) if isinstance(G[i, j], SymReal) or G[i, j] != 0), 0.0) for i in range(G.shape[0])]
                dims = k["dims"]
                nl = int(dims["l"])
                terms = [p_le(0, v) for v in s[:nl]]
                pos = nl
                for q in dims["q"]:
                    terms.append(D.soc_holds(s[pos:pos + int(q)]))
                    pos += int(q)
                for _ in range(int(dims["e"])):
                    terms.append(D.exp_holds(s[pos], s[pos + 1], s[pos + 2]))
                    pos += 3
                if pos != len(s):
                    return False
                eq = _rows_hold(k["A"], k["b"], x, True)
                rec = p_and(*terms, eq)
                obj = p_and(*[p_eq(a, b) for a, b in zip(k["c"], F.obj)])
                ints = (sorted(k["kw"].get("bool_vars_idx", [])) == [i for i, v in enumerate(F.vtype) if v == "B"] and
                        sorted(k["kw"].get("int_vars_idx", [])) == [i for i, v in enumerate(F.vtype) if v == "I"])
                return p_and(p_iff(rec, D.feas(F, x)), obj, ints)

            def frame(ns, sol):
                return D.prog_unchanged(ns["before"], ns["F"])

            def outcome(ns, sol):
                # continuous solves: 0 = optimal, 10 = optimal to reduced accuracy.  Branch and bound (ECOS-BB): 0 = optimal,
                # 10 = iteration limit reached with a feasible but NOT proven optimal incumbent, 11/12 = limit without one
                mixed = any(t != "C" for t in ns["F"].vtype)
                reached = ns["flag"] == 0 or (ns["flag"] == 10 and not mixed)
                if not reached:
                    return isinstance(sol, lp.Solution) and sol.x is None and isinstance(sol.objval, float) and math.isnan(sol.objval)
                return isinstance(sol, lp.Solution) and sol.x is not None and len(sol.x) == len(ns["F"].obj)

            obs, _ = check_function("rsome.eco_solver:solve", setup, call,
                                    [post("arguments-describe-the-compiled-program", same_program), post("formula-untouched", frame),
                                     post("status-handling", outcome)], mode="D",
                                    label=f"nv={nv} m={m} sense={sense} bounds={'/'.join(kinds)} vtype={vt} cones={cones} flag={flag}" + (f" empty-rows={empty}" if empty else ""), bounded=True)
            out += obs
    return out


# ------------------------------------------------------------------------------ OR-Tools

class LinExpr:
    def __init__(self, terms=None, const=0.0):
        self.terms, self.const = dict(terms or {}), const

    def _coerce(self, o):
        if isinstance(o, LinExpr):
            return o
        if isinstance(o, FVar):
            return LinExpr({o.idx: 1.0})
        return LinExpr({}, o)

    def __add__(self, o):
        o = self._coerce(o)
        t = dict(self.terms)
        for k, v in o.terms.items():
            t[k] = t.get(k, 0.0) + v
        return LinExpr(t, self.const + o.const)

    __radd__ = __add__

    def __mul__(self, k):
        return LinExpr({i: v * k for i, v in self.terms.items()}, self.const * k)

    __rmul__ = __mul__

    def __eq__(self, rhs):
        return ("==", self, rhs)

    def __le__(self, rhs):
        return ("<=", self, rhs)

    __hash__ = object.__hash__


class FVar:
    def __init__(self, idx, lb, ub, integer, name):
        self.idx, self.lb, self.ub, self.integer, self.name = idx, lb, ub, integer, name

    def __mul__(self, k):
        return LinExpr({self.idx: k})

    __rmul__ = __mul__

    def __add__(self, o):
        return LinExpr({self.idx: 1.0}) + o

    __radd__ = __add__

    def solution_value(self):
        return 0.0


class FakeOrtSolver:
    def __getattr__(self, name):
        # an API the recorder does not model: the harness needs extending; never a verdict about the interface
        raise HarnessError(f"{type(self).__name__} does not model '{name}'")

    OPTIMAL = 0
    INFEASIBLE = 2

    def __init__(self, name, status):
        self.name, self.vars, self.cons, self.obj, self.status = name, [], [], None, status

    def NumVar(self, lb, ub, name):
        v = FVar(len(self.vars), lb, ub, False, name)
        self.vars.append(v)
        return v

    def IntVar(self, lb, ub, name):
        v = FVar(len(self.vars), lb, ub, True, name)
        self.vars.append(v)
        return v

    def BoolVar(self, name):
        return self.IntVar(0.0, 1.0, name)

    def Minimize(self, e):
        self.obj = e

    def Add(self, con):
        self.cons.append(con)

    def Constraint(self, lb=-math.inf, ub=math.inf, name=""):
        """a row without coefficients: lb <= 0 <= ub"""
        if not _isinf(lb, -1):
            self.cons.append(("<=", LinExpr({}, lb), 0.0))
        if not _isinf(ub, 1):
            self.cons.append(("<=", LinExpr({}, 0.0), ub))
        return Rec()

    @staticmethod
    def infinity():
        return math.inf

    def Solve(self):
        return self.status

    def Objective(self):
        r = Rec()
        r.Value = lambda: 0.0
        return r


class FakePywraplp:
    def __init__(self, status):
        self.status = status
        self.created = []
        outer = self

        class Solver:
            OPTIMAL = 0

            @staticmethod
            def CreateSolver(name):
                s = FakeOrtSolver(name, outer.status)
                outer.created.append(s)
                return s
        self.Solver = Solver


def ortools_cases():
    out = []
    configs = []
    for sense in itertools.product([0, 1], repeat=2):
        for kinds in (("free", "free"), ("lb", "ub"), ("box", "fixed")):
            configs.append((sense, kinds, None))
    configs = [cf + ((),) for cf in configs]
    configs += [((0, 1), ("box", "lb"), "BC", ()), ((1, 0), ("box", "box"), "IB", ()), ((0, 0), ("free", "ub"), "BI", ())]
    # rows without any stored entry (x - x <= b): the row still constrains the program (infeasible when b < 0)
    configs += [((0, 0), ("lb", "ub"), None, (1,)), ((0, 1), ("free", "box"), None, (1,)), ((1, 0), ("box", "box"), "IC", (0,)),
                ((0, 0), ("lb", "lb"), None, (0, 1))]
    for sense, kinds, vt, empty in configs:
        for status in (0, 2):
            def setup(c, sense=sense, kinds=kinds, vt=vt, status=status, empty=empty):
                F = sym_formula(c, 2, 2, sense, kinds, vt, empty=empty)
                return {"F": F, "fake": FakePywraplp(status), "before": D.snapshot_prog(F), "x": arr([c.fresh_real(f"x{j}_") for j in range(2)]),
                        "status": status}

            def call(ns):
                real = ort_mod.pywraplp
                ort_mod.pywraplp = ns["fake"]
                try:
                    return ort_mod.solve(ns["F"], display=False)
                finally:
                    ort_mod.pywraplp = real

            def same_program(ns, sol):
                made = ns["fake"].created
                if len(made) != 1:
                    return False
                s = made[0]
                F, x = ns["F"], ns["x"]
                if len(s.vars) != 2:
                    return False
                terms = []
                for v, xi in zip(s.vars, x):
                    if not _isinf(v.lb, -1):
                        terms.append(p_le(v.lb, xi))
                    if not _isinf(v.ub, 1):
                        terms.append(p_le(xi, v.ub))
                for op, e, rhs in s.cons:
                    lhs = sum((cf * x[i] for i, cf in e.terms.items()), 0.0) + e.const
                    terms.append(p_eq(lhs, rhs) if op == "==" else p_le(lhs, rhs))
                rec = p_and(*terms)
                # continuous relaxation of both sides; integrality compared separately
                types_ok = all(v.integer == (t != "C") for v, t in zip(s.vars, F.vtype))
                obj = p_and(*[p_eq(s.obj.terms.get(i, 0.0), F.obj[i]) for i in range(2)]) if s.obj is not None else False
                relaxed = _ProgView(F)
                return p_and(p_iff(rec, D.feas(relaxed, x)), types_ok, obj, s.name == ("GLOP" if all(t == "C" for t in F.vtype) else "SCIP"))

            def frame(ns, sol):
                return D.prog_unchanged(ns["before"], ns["F"])

            def outcome(ns, sol):
                if ns["status"] != 0:
                    return isinstance(sol, lp.Solution) and sol.x is None and isinstance(sol.objval, float) and math.isnan(sol.objval)
                return isinstance(sol, lp.Solution) and sol.x is not None and len(sol.x) == 2
            obs, _ = check_function("rsome.ort_solver:solve", setup, call,
                                    [post("arguments-describe-the-compiled-program", same_program), post("formula-untouched", frame),
                                     post("status-handling", outcome)], mode="D",
                                    label=f"sense={sense} bounds={'/'.join(kinds)} vtype={vt} status={status}" + (f" empty-rows={empty}" if empty else ""), bounded=True)
            out += obs
    return out


# ------------------------------------------------------------------------------ Gurobi

class GSub:
    """x[idx] of the recorded MVar"""
    __array_ufunc__ = None

    def __init__(self, idx):
        self.idx = [int(i) for i in np.asarray(idx).reshape(-1)]

    def __matmul__(self, o):
        if isinstance(o, GSub):                                   # x[a] @ x[b]
            if len(self.idx) != len(o.idx):
                raise ValueError("shape mismatch")
            return GQuad([(1.0, i, j) for i, j in zip(self.idx, o.idx)])
        M = views.dense(o) if not isinstance(o, np.ndarray) else o
        if M.shape[0] != len(self.idx):
            raise ValueError("shape mismatch")
        return GRow(self.idx, M)

    def __rmatmul__(self, o):
        o = np.asarray(o, dtype=object).reshape(-1)
        if len(o) != len(self.idx):
            raise ValueError("shape mismatch")
        return GLin({i: v for i, v in zip(self.idx, o)})


class GRow:
    def __init__(self, idx, M):
        self.idx, self.M = idx, M

    def __matmul__(self, o):
        if not isinstance(o, GSub) or self.M.shape[1] != len(o.idx):
            raise ValueError("shape mismatch")
        return GQuad([(self.M[a, b], i, j) for a, i in enumerate(self.idx) for b, j in enumerate(o.idx)
                      if isinstance(self.M[a, b], SymReal) or self.M[a, b] != 0])


class GQuad:
    def __init__(self, terms):
        self.terms = terms

    def value(self, x):
        return sum((k * x[i] * x[j] for k, i, j in self.terms), 0.0)

    def __le__(self, o):
        return ("qc", self, o)


class GLin:
    def __init__(self, terms):
        self.terms = terms


class DecidingArray(np.ndarray):
    """object array of proxies whose comparisons with a number give a real boolean mask (each entry decided, i.e. the
    exploration forks on its sign) -- what `rc < 0` must be for `upi[rc < 0] = rc[rc < 0]` to run"""

    def __lt__(self, o):
        return np.array([bool(v < o) for v in np.asarray(self, dtype=object).reshape(-1)], dtype=bool).reshape(self.shape)

    def __gt__(self, o):
        return np.array([bool(v > o) for v in np.asarray(self, dtype=object).reshape(-1)], dtype=bool).reshape(self.shape)


class GMVar(GSub):
    def __init__(self, n, lb, ub, vtype, rc=None):
        super().__init__(range(n))
        self.n, self.lb, self.ub, self.vtype = n, lb, ub, vtype
        self.rc = np.zeros(n) if rc is None else rc

    def __getitem__(self, idx):
        return GSub(np.arange(self.n)[idx])


class FakeGrbModel:
    def __getattr__(self, name):
        # an API the recorder does not model: the harness needs extending; never a verdict about the interface
        raise HarnessError(f"{type(self).__name__} does not model '{name}'")

    duals = False          # True: Pi / RC / X are fresh symbols (C14 reads them back)

    def __init__(self, c, status):
        self.c, self.Status, self.Runtime = c, status, 0.0
        # an incumbent exists at OPTIMAL and (as observed / documented) at UNBOUNDED MILPs, SUBOPTIMAL and at the limit statuses
        self.SolCount = 0 if status in (3, 4) else 1
        self.mvars, self.mcons, self.qcons, self.obj, self.params, self.optimized = [], [], [], None, {}, 0
        self.mrecs, self.X = [], None

        class P:
            LogToConsole = 1
            TimeLimit = 1e100
        self.Params = P()

    def addMVar(self, n, lb=0.0, ub=math.inf, vtype="C"):
        rc = None
        if self.duals:
            rc = np.empty(int(n), dtype=object).view(DecidingArray)
            rc[:] = [self.c.fresh_real(f"rc{j}_") for j in range(int(n))]
        v = GMVar(int(n), lb, ub, vtype, rc)
        self.mvars.append(v)
        return v

    def addMConstr(self, A, x, sense, b):
        if not isinstance(x, GMVar) or A.shape[1] != x.n or A.shape[0] != len(b):
            raise ValueError("shape mismatch")
        self.mcons.append((A, sense, b))
        r = Rec()
        r.pi = np.zeros(A.shape[0])
        if self.duals:
            r.pi = arr([self.c.fresh_real(f"gpi{'e' if sense == '=' else 'i'}{i}_") for i in range(A.shape[0])])
        r.sense = sense
        self.mrecs = self.mrecs + [r]
        return r

    def addConstr(self, con):
        self.qcons.append(con)

    def setObjective(self, e):
        self.obj = e

    def setParam(self, k, v):
        self.params[k] = v

    def optimize(self):
        self.optimized += 1

    # observed with gurobipy 13: UNBOUNDED (5) MILPs and SUBOPTIMAL (13) QCPs still answer ObjVal / X (a point that need
    # not satisfy the program); INFEASIBLE (3) raises AttributeError for ObjVal; INF_OR_UNBD (4) answers ObjVal but raises
    # GurobiError for X
    @property
    def ObjVal(self):
        if self.Status == 3:
            raise AttributeError("Unable to retrieve attribute 'ObjVal'")
        return self.c.fresh_real("gobj")

    def getAttr(self, name):
        if self.Status == 3:
            raise AttributeError(name)
        if self.Status == 4:
            from gurobipy import GurobiError
            raise GurobiError("Unable to retrieve attribute 'X'")
        self.X = [self.c.fresh_real(f"gx{i}_") for i in range(self.mvars[0].n)]
        return self.X


class FakeGp:
    duals = False
    def __getattr__(self, name):
        # an API the recorder does not model: the harness needs extending; never a verdict about the interface
        raise HarnessError(f"{type(self).__name__} does not model '{name}'")

    class GRB:
        OPTIMAL, INFEASIBLE, INF_OR_UNBD, UNBOUNDED, SUBOPTIMAL, TIME_LIMIT, SOLUTION_LIMIT = 2, 3, 4, 5, 13, 9, 10

    def __init__(self, c, status):
        self.c, self.status, self.made = c, status, []

    def Model(self):
        m = FakeGrbModel(self.c, self.status)
        m.duals = getattr(self, "duals", False)
        self.made.append(m)
        return m


def gurobi_cases():
    """grb_solver.solve against a recorder of the gurobipy matrix API (Model/addMVar/addMConstr/addConstr/setObjective).
    Gurobi reads `x_l'x_l <= x_h*x_h` as a second-order cone only for x_h >= 0: that is a precondition on the compiled
    program (every cone head has a non-negative lower bound), checked on the compiled programs in job cone-heads."""
    try:
        import rsome.grb_solver as grb_mod
    except Exception:                                             # gurobipy not installed: nothing to check
        return []
    out = []
    configs = []
    for sense in itertools.product([0, 1], repeat=2):
        for kinds in (("free", "free"), ("lb", "ub"), ("box", "fixed")):
            configs.append((2, 2, sense, kinds, None, False, ()))
    configs += [(3, 2, (0, 1), ("lb", "free", "box"), None, True, ()), (3, 1, (1,), ("lb", "free", "ub"), None, True, ()),
                (2, 1, (0,), ("box", "lb"), "BC", False, ()), (2, 1, (1,), ("box", "box"), "IB", False, ()),
                (2, 2, (0, 0), ("lb", "box"), None, False, (1,)), (2, 2, (1, 0), ("free", "ub"), None, False, (0,)),
                (2, 2, (0, 0), ("lb", "box"), None, False, ()), (2, 2, (1, 1), ("lb", "box"), "CI", False, ())]
    for nv, m, sense, kinds, vt, cones, empty in configs:
        for status in (2, 3, 4, 5, 13, 9, 10):                    # GRB.OPTIMAL, INFEASIBLE, INF_OR_UNBD, UNBOUNDED, SUBOPTIMAL, TIME_LIMIT, SOLUTION_LIMIT
            def setup(c, nv=nv, m=m, sense=sense, kinds=kinds, vt=vt, cones=cones, status=status, empty=empty):
                F = sym_formula(c, nv, m, sense, kinds, vt, cones, empty=empty)
                if cones:
                    c.assume(F.lb[0] >= 0)
                if type(F) is not socp.SOCProg and not cones:
                    F = lp.LinProg(F.linear, F.const, F.sense, F.vtype, F.ub, F.lb, F.obj)
                return {"F": F, "fake": FakeGp(c, status), "before": D.snapshot_prog(F), "x": arr([c.fresh_real(f"x{j}_") for j in range(nv)]),
                        "status": status}

            def call(ns):
                real = grb_mod.gp
                grb_mod.gp = ns["fake"]
                try:
                    return grb_mod.solve(ns["F"], display=False)
                finally:
                    grb_mod.gp = real

            def same_program(ns, sol):
                made = ns["fake"].made
                if len(made) != 1 or len(made[0].mvars) != 1 or made[0].optimized != 1:
                    return False
                g = made[0]
                v = g.mvars[0]
                F, x = ns["F"], ns["x"]
                if v.n != len(x) or list(v.vtype) != list(F.vtype):
                    return False
                terms = []
                for j in range(v.n):
                    lo, hi = np.asarray(v.lb, dtype=object).reshape(-1)[j], np.asarray(v.ub, dtype=object).reshape(-1)[j]
                    if not _isinf(lo, -1):
                        terms.append(p_le(lo, x[j]))
                    if not _isinf(hi, 1):
                        terms.append(p_le(x[j], hi))
                nrows = 0
                for A, sn, b in g.mcons:
                    if sn not in ("=", "<"):
                        return False
                    terms.append(_rows_hold(A, b, x, sn == "="))
                    nrows += A.shape[0]
                if nrows != F.linear.shape[0]:
                    return False
                for tag, l, r in g.qcons:
                    terms.append(p_le(l.value(x), r.value(x)))
                rec = p_and(*terms)
                if g.obj is None or not isinstance(g.obj, GLin):
                    return False
                obj = p_and(*[p_eq(g.obj.terms.get(i, 0.0), F.obj[i]) for i in range(v.n)])
                return p_and(p_iff(rec, D.feas(F, x)), obj)

            def frame(ns, sol):
                return D.prog_unchanged(ns["before"], ns["F"])

            def outcome(ns, sol):
                if ns["status"] != 2:
                    return isinstance(sol, lp.Solution) and sol.x is None and isinstance(sol.objval, float) and math.isnan(sol.objval)
                return isinstance(sol, lp.Solution) and sol.x is not None and len(sol.x) == len(ns["F"].obj)
            obs, _ = check_function("rsome.grb_solver:solve", setup, call,
                                    [post("arguments-describe-the-compiled-program", same_program), post("formula-untouched", frame),
                                     post("status-handling", outcome)], mode="D",
                                    label=f"nv={nv} m={m} sense={sense} bounds={'/'.join(kinds)} vtype={vt} cones={cones} status={status}" + (f" empty-rows={empty}" if empty else ""),
                                    bounded=True)
            out += obs
    return out


def cone_heads():
    """Postcondition of the formulation layers that grb_solver's SOC encoding relies on (and that makes the
    quadratic form convex): in every compiled program each second-order cone's head variable has lower bound >= 0."""
    from . import c08
    out = []
    def dro_model(kind):
        def build(c):
            from ..harness import dro
            m = dro.Model(2)
            x = m.dvar(2)
            z = m.rvar(2)
            u = m.rvar()
            f = m.ambiguity()
            r = c.fresh_real("r")
            c.assume(r > 0)
            if kind == "ball-support":
                f.suppset(rsome.norm(z, 2) <= r, u == 0)
                f.exptset(rsome.E(z) == 0)
            elif kind == "wasserstein":
                zh = np.array([[0.5, -0.25], [0.0, 1.0]])
                for s in range(2):
                    f[s].suppset(z <= 2, z >= -2, rsome.norm(z - zh[s], 2) <= u)
                f.exptset(rsome.E(u) <= r)
            else:
                f.suppset(z <= 1, z >= -1, u == 0)
                f.probset(rsome.norm(m.p - 0.5, 2) <= r)
            m.minsup(rsome.E(rsome.maxof((x * z).sum(), x[0] - 2 * x[1])), f)
            m.st(rsome.norm(x, 2) <= 1.5)
            m.do_math()
            return m.ro_model.rc_model, False
        return build
    builders = {k: v for k, v in c08.CONIC.items() if not k.startswith("mix-")}     # mix-* are ambiguity-set programs, never handed to a solver
    builders.update({f"dro-{k}": dro_model(k) for k in ("ball-support", "wasserstein", "prob-norm2")})
    for name in builders:
        def setup(c, name=name):
            layer, objflag = builders[name](c)
            return {"layer": layer}

        def heads(ns, P):
            t = []
            for q in getattr(P, "qmat", []):
                lo = P.lb[int(q[0])]
                t.append(False if _isinf(lo, -1) else p_le(0.0, lo))
            return p_and(*t)
        obs, _ = check_function("rsome.gcp:Model.do_math(primal)", setup, lambda ns: ns["layer"].primal if ns["layer"].primal is not None else ns["layer"].do_math(),
                                [post("every-cone-head-has-a-non-negative-lower-bound", heads)], mode="D", label=name, bounded=True, max_paths=600)
        out += obs
        # the dual formulation is a program of its own (it is what a robust counterpart embeds, and a user may solve it)
        obs, _ = check_function("rsome.socp:Model.do_math(primal=False)", setup, lambda ns: ns["layer"].do_math(primal=False),
                                [post("every-cone-head-of-the-dual-has-a-non-negative-lower-bound", heads)], mode="D", label=name + ",dual", bounded=True, max_paths=600)
        out += obs
    return out


# ------------------------------------------------------------------------------ real solvers, sampled (bounded stand-in)

def cross_solver_sampled(n_inst, seed, kinds):
    """BOUNDED, numerical: seeded random programs (LP, MILP with bounds on binaries/integers, SOCP, exp-cone; feasible,
    infeasible and unbounded) are solved through every installed interface that supports their cones; optimal values
    must agree within 1e-5 (relative), every returned point must satisfy the compiled program, and an interface that
    does not reach an optimum must report no solution."""
    import random
    import warnings
    from .. import install
    from .c18 import _quiet
    install.uninstall()
    import rsome as rso
    from rsome import ro as nro, lpg_solver as lpg, eco_solver as eco, ort_solver as ort
    solvers = {"scipy": lpg, "ecos": eco, "ortools": ort}
    try:
        from rsome import grb_solver as grb
        solvers["gurobi"] = grb
    except Exception:
        pass
    supports = {"lp": ("scipy", "ecos", "ortools", "gurobi"), "milp": ("scipy", "ecos", "ortools", "gurobi"),
                "socp": ("ecos", "gurobi"), "exp": ("ecos",)}
    out = []

    def build(kind, rng):
        m = nro.Model()
        n = rng.randint(2, 4)
        vt = "C"
        if kind == "milp":
            vt = rng.choice("BI")
        x = m.dvar(n, vt)
        y = m.dvar(2)
        cost = np.array([rng.choice([-2.0, -1.0, -0.5, 0.5, 1.0, 3.0]) for _ in range(n)])
        # unbounded instances only for LPs: on unbounded MILP / conic instances the solvers themselves misreport
        # (ECOS-BB and SCIP answer "optimal" at arbitrary points), which is solver behaviour, not interface code
        shape = rng.choice(["feasible", "feasible", "feasible", "infeasible", "unbounded" if kind == "lp" else "feasible"])
        (m.min if rng.random() < 0.5 else m.max)(cost @ x + 0.5 * y.sum())
        A = np.array([[rng.choice([-2.0, -1.0, 0.0, 1.0, 1.5]) for _ in range(n)] for _ in range(2)])
        m.st(A @ x + y <= np.array([rng.choice([1.0, 2.5, 4.0]) for _ in range(2)]))
        m.st(x.sum() - y.sum() == rng.choice([0.0, 0.5, 1.0]))
        if shape != "unbounded":
            m.st(y <= 3, y >= -3)
            if vt == "B":
                # user bounds on binaries, as bound objects on slices
                if rng.random() < 0.5:
                    m.st(x[0] <= 0)
                if rng.random() < 0.5:
                    m.st(x[n - 1] >= 1)
            else:
                lo = rng.choice([-2.0, 0.0, 0.5])
                m.st(x >= lo, x <= lo + rng.choice([1.5, 3.0]))
        if shape == "infeasible":
            m.st(x[0] + y[0] >= 50)
        if kind == "socp":
            m.st(rso.norm(x[:2] - y, 2) <= x[n - 1] + 4, rso.sumsqr(y) <= 4)
        if kind == "exp":
            m.st(rso.exp(y[0]) <= x[0] + 3, rso.entropy(x[:2] + 3) >= -20)
        return m, x, shape

    def satisfied(F, xs, tol=2e-5):
        A = F.linear.toarray()
        r = A @ xs - F.const
        bad = []
        for i in range(len(r)):
            if (F.sense[i] == 1 and abs(r[i]) > tol * (1 + abs(F.const[i]))) or (F.sense[i] == 0 and r[i] > tol * (1 + abs(F.const[i]))):
                bad.append(f"row {i} residual {r[i]:.3g}")
        for j in range(len(xs)):
            if xs[j] > F.ub[j] + tol or xs[j] < F.lb[j] - tol:
                bad.append(f"x{j}={xs[j]:.6g} outside [{F.lb[j]},{F.ub[j]}]")
            if F.vtype[j] != "C" and abs(xs[j] - round(xs[j])) > 1e-5:
                bad.append(f"x{j}={xs[j]:.6g} not integral")
            if F.vtype[j] == "B" and not (-1e-6 <= xs[j] <= 1 + 1e-6):
                bad.append(f"binary x{j}={xs[j]:.6g}")
        for q in getattr(F, "qmat", []):
            if xs[q[0]] < np.linalg.norm(xs[list(q[1:])]) - 1e-4:
                bad.append(f"cone {list(q)} violated")
        for e in getattr(F, "xmat", []):
            a, b, c = (xs[i] for i in e)                   # (a, b, c) in K_exp:  c*exp(a/c) <= b, c > 0   (closure: c = 0, a <= 0, b >= 0)
            if c <= 1e-6:
                inside = c >= -1e-6 and a <= 1e-5 and b >= -1e-6
            else:
                inside = c * math.exp(min(a / c, 50.0)) <= b + 1e-4 * (1 + abs(b))
            if not inside:
                bad.append(f"exp cone {list(e)} violated ({a:.4g},{b:.4g},{c:.4g})")
        return bad

    for kind in kinds:
        def run(kind=kind):
            rng = random.Random(f"{seed}-{kind}")
            nontrivial = 0
            for k in range(n_inst):
                state = rng.getstate()
                vals, status = {}, {}
                for sname in supports[kind]:
                    if sname not in solvers:
                        continue
                    rng.setstate(state)
                    m, x, shape = build(kind, rng)
                    if sname == "ecos" and kind == "milp" and shape == "unbounded":
                        # ECOS-BB itself reports "optimal" at its internal 2^23 big-M box on unbounded integer programs
                        # (and may not terminate): solver behaviour, outside the interface's contract (A-SOLVER)
                        continue
                    capped = {}
                    if sname == "ecos" and kind == "milp":
                        # rsome lets ECOS-BB run 1e8 iterations; ECOS-BB cycles on some small bounded instances.  Cap the
                        # iterations for this sampled comparison and leave ECOS out of an instance it does not finish.
                        real_ecos = eco.ecos

                        class Capped:
                            __version__ = real_ecos.__version__

                            @staticmethod
                            def solve(*a, **kw):
                                kw["mi_max_iters"] = 2000
                                r = real_ecos.solve(*a, **kw)
                                capped["flag"] = r["info"]["exitFlag"]
                                return r
                        eco.ecos = Capped
                    with warnings.catch_warnings(), _quiet():
                        warnings.simplefilter("ignore")
                        try:
                            m.solve(solvers[sname], display=False)
                        except Exception as e:           # noqa
                            return f"instance {k} ({kind},{shape}) {sname}: solve raised {type(e).__name__}: {e}"
                        finally:
                            if capped is not None and sname == "ecos" and kind == "milp":
                                eco.ecos = real_ecos
                    if capped.get("flag") in (10, 11, 12):
                        continue
                    try:
                        vals[sname] = m.get()
                        status[sname] = "optimal"
                        F = m.do_math()
                        bad = satisfied(F, np.asarray(m.rc_model.solution.x, dtype=float))
                        if bad:
                            return f"instance {k} ({kind},{shape}) {sname}: returned point violates the compiled program: {bad[:3]}"
                    except RuntimeError:
                        status[sname] = "none"
                if len(set(status.values())) > 1:
                    return f"instance {k} ({kind},{shape}): interfaces disagree on solvability {status}"
                if shape == "infeasible" and "optimal" in status.values():
                    return f"instance {k} ({kind}): infeasible by construction but reported optimal {vals}"
                if vals:
                    nontrivial += 1
                    ref = next(iter(vals.values()))
                    for sname, v in vals.items():
                        if abs(v - ref) > 1e-5 * (1 + abs(ref)) + (2e-4 if kind in ("socp", "exp") else 0.0):
                            return f"instance {k} ({kind},{shape}): optimal values differ {vals}"
            return True
        obs, _ = check_function("rsome.<solver interfaces> (real solvers)", lambda c: {}, lambda ns, run=run: run(),
                                [post("interfaces-agree-and-return-feasible-points (sampled)", lambda ns, res: res is True)],
                                mode="N", label=f"{kind}: {n_inst} seeded instances, interfaces {[s for s in supports[kind] if s in solvers]}",
                                bounded=True, replay=None)
        for o in obs:
            if o["status"] == "violated":
                o["reason"] = (o.get("reason") or "") + " | " + str(run())
        out += obs
    return out


# ------------------------------------------------------------------------------ display / log / params

def _digest(v):
    """order-preserving structural digest of whatever an interface handed to its solver (symbols by name)"""
    if isinstance(v, dict):
        return {k: _digest(x) for k, x in sorted(v.items(), key=lambda kv: str(kv[0]))}
    if isinstance(v, (list, tuple)):
        return [_digest(x) for x in v]
    if isinstance(v, np.ndarray):
        return [_digest(x) for x in v.reshape(-1).tolist()] + [list(v.shape)]
    if hasattr(v, "toarray") or hasattr(v, "todense") or type(v).__name__ == "ShimCSR":
        return _digest(np.asarray(views.dense(v), dtype=object))
    if isinstance(v, (LinExpr, GLin)):
        return _digest(v.terms) if not hasattr(v, "const") else [_digest(v.terms), str(v.const)]
    if isinstance(v, GQuad):
        return [[str(k), i, j] for k, i, j in v.terms]
    if isinstance(v, (FVar, GMVar)):
        return [str(getattr(v, a, None)) for a in ("idx", "n", "lb", "ub", "integer", "vtype")]
    if isinstance(v, Rec) or v is None or isinstance(v, (str, bool, int)):
        return str(v) if not isinstance(v, Rec) else "rec"
    if hasattr(v, "lb") and hasattr(v, "ub"):
        return [_digest(v.lb), _digest(v.ub), _digest(getattr(v, "A", None))]
    return str(v)


def settings_cases():
    """display / log switches and a parameter dictionary change what is printed and which options the solver gets --
    never the program that is handed over, nor the status handling"""
    import contextlib
    import io
    import time as _time
    out = []
    try:
        import rsome.grb_solver as grb_mod
    except Exception:
        grb_mod = None

    def record(which, F, c, display, log, params):
        buf = io.StringIO()
        real_sleep = _time.sleep
        _time.sleep = lambda *_a: None
        try:
            with contextlib.redirect_stdout(buf):
                if which in ("lp", "milp"):
                    fake = FakeOptLP(c, 0) if which == "lp" else FakeOptMILP(0)
                    real, lp.opt = lp.opt, fake
                    try:
                        sol = lp.def_sol(F, display=display, log=log, params=params)
                    finally:
                        lp.opt = real
                    rec = fake.calls
                elif which == "ecos":
                    fake = FakeEcos(c, 0)
                    real, eco_mod.ecos = eco_mod.ecos, fake
                    try:
                        sol = eco_mod.solve(F, display=display, log=log, params=params)
                    finally:
                        eco_mod.ecos = real
                    rec = fake.calls
                elif which == "ort":
                    fake = FakePywraplp(0)
                    real, ort_mod.pywraplp = ort_mod.pywraplp, fake
                    try:
                        sol = ort_mod.solve(F, display=display, log=log, params=params)
                    finally:
                        ort_mod.pywraplp = real
                    s0 = fake.created[0]
                    rec = [s0.name, s0.vars, s0.cons, s0.obj]
                else:
                    fake = FakeGp(c, 2)
                    real, grb_mod.gp = grb_mod.gp, fake
                    try:
                        sol = grb_mod.solve(F, display=display, log=log, params=params)
                    finally:
                        grb_mod.gp = real
                    g = fake.made[0]
                    rec = [g.mvars, g.mcons, g.qcons, g.obj, {k: v for k, v in g.params.items() if k != "LogToConsole"}]
        finally:
            _time.sleep = real_sleep
        return _digest(rec), (sol.x is not None, str(type(sol.objval).__name__))

    cases = [("lp", None, {}), ("milp", "BI", {}), ("ecos", None, {}), ("ecos", "IC", {}), ("ort", None, {}), ("ort", "BC", {})]
    if grb_mod is not None:
        cases += [("grb", None, {}), ("grb", "CI", {"TimeLimit": 10})]
    for which, vt, params in cases:
        def setup(c, which=which, vt=vt):
            if which == "milp":
                A = lp.csr_matrix(np.array([[1.0, 2.0], [3.0, -1.0]]))
                F = lp.LinProg(A, np.array([4.0, 5.0]), np.array([0.0, 1.0]), np.array(list(vt)), np.array([1.0, 2.0]), np.array([-1.0, 0.0]), np.array([1.0, -2.0]))
            else:
                F = sym_formula(c, 2, 2, (0, 1), ("lb", "box"), vt)
                if which in ("lp", "ort", "grb"):
                    F = lp.LinProg(F.linear, F.const, F.sense, F.vtype, F.ub, F.lb, F.obj)
            return {"F": F, "c": c, "before": D.snapshot_prog(F)}

        def call(ns, which=which, params=params):
            quiet = record(which, ns["F"], ns["c"], False, False, {})
            loud = record(which, ns["F"], ns["c"], True, True, params)
            return quiet, loud

        def same(ns, res, params=params):
            (r1, o1), (r2, o2) = res
            if params:                      # the parameters reach the solver and nothing else changes
                r2 = list(r2)
                got = r2[-1] if isinstance(r2[-1], dict) else None
                if got is None or {k: str(v) for k, v in params.items()} != {k: v for k, v in got.items()}:
                    return False
                r2[-1] = {}
                r1 = list(r1)
                r1[-1] = {}
            return r1 == r2 and o1 == o2
        obs, _ = check_function({"lp": "rsome.lp:def_sol", "milp": "rsome.lp:def_sol", "ecos": "rsome.eco_solver:solve", "ort": "rsome.ort_solver:solve",
                                 "grb": "rsome.grb_solver:solve"}[which], setup, call,
                                [post("display-log-params-do-not-change-the-program-or-the-status-handling", same),
                                 post("formula-untouched", lambda ns, res: D.prog_unchanged(ns["before"], ns["F"]))],
                                mode="D", label=f"{which},vtype={vt},params={params}", bounded=True, replay=None)
        out += obs
    if grb_mod is not None:
        def setup_bad(c):
            F = sym_formula(c, 2, 2, (0, 1), ("lb", "box"))
            return {"F": lp.LinProg(F.linear, F.const, F.sense, F.vtype, F.ub, F.lb, F.obj), "fake": FakeGp(c, 2)}

        def call_bad(ns):
            real, grb_mod.gp = grb_mod.gp, ns["fake"]
            try:
                return grb_mod.solve(ns["F"], display=False, params={"NoSuchParameter": 1})
            finally:
                grb_mod.gp = real
        from ..engine import always_raises
        obs, _ = check_function("rsome.grb_solver:solve", setup_bad, call_bad, [always_raises("unknown-parameter-is-rejected", (ValueError, AttributeError))],
                                mode="D", label="params={'NoSuchParameter': 1}", bounded=True)
        out += obs
    return out


class _ProgView:
    """The compiled program with binaries read as integers in [max(lb,0), min(ub,1)] (their meaning)."""

    def __init__(self, F):
        from ..sym import p_max
        self.linear, self.const, self.sense, self.obj, self.vtype = F.linear, F.const, F.sense, F.obj, F.vtype
        lb, ub = list(F.lb), list(F.ub)
        for j, t in enumerate(F.vtype):
            if t == "B":
                lb[j] = _mx(lb[j], 0.0)
                ub[j] = _mn(ub[j], 1.0)
        self.lb, self.ub = lb, ub
        self.qmat, self.xmat = getattr(F, "qmat", []), getattr(F, "xmat", [])


def _mx(a, b):
    from ..sym import p_max
    if _isinf(a, -1):
        return b
    return p_max(a, b)


def _mn(a, b):
    from ..sym import p_max
    if _isinf(a, 1):
        return b
    return -p_max(-a, -b)


# ------------------------------------------------------------------------------ model.solve -> solution plumbing

def plumbing():
    out = []
    for front in ("ro", "dro"):
        for good in (True, False, None):                      # None: the interface hands back no Solution object at all
            def setup(c, front=front, good=good):
                from ..harness import dro
                m = ro.Model() if front == "ro" else dro.Model(2)
                x = m.dvar(2)
                m.min(x.sum())
                m.st(x >= 0)
                seen = []

                class S:
                    @staticmethod
                    def solve(formula, display=True, log=False, params={}):
                        seen.append(formula)
                        n = formula.linear.shape[1]
                        if good is None:
                            return None
                        return lp.Solution("rec", 1.5 if good else float("nan"), np.ones(n) if good else None, 0 if good else 3, 0.0)
                return {"m": m, "S": S, "seen": seen, "good": good}

            def call(ns):
                ns["m"].solve(ns["S"], display=False)
                return ns["m"]

            def handed_over(ns, m):
                return len(ns["seen"]) == 1 and ns["seen"][0] is m.do_math()

            def reported(ns, m):
                if ns["good"]:
                    return m.get() == 1.5 and m.optimal() is True
                try:
                    m.get()
                    return False
                except RuntimeError:
                    return m.optimal() is False
            obs, _ = check_function(f"rsome.{front}:Model.solve", setup, call,
                                    [post("the-compiled-program-is-what-the-interface-receives", handed_over),
                                     post("failure-is-reported-not-fabricated", reported)], mode="D",
                                    label=f"{front},{'optimal' if good else 'failed' if good is False else 'no Solution object'}", bounded=True, replay=None)
            out += obs
    return out


def jobs(tier):
    seed = int(os.environ.get("VERIF_SEED", "0") or 0)
    n = 12 if tier == "quick" else 150
    return [{"name": f"cross-solver-{k}", "kind": "cross", "kinds": [k], "n": n, "seed": seed} for k in ("lp", "milp", "socp", "exp")] + [{"name": "def_sol-lp", "kind": "lp"}, {"name": "def_sol-milp", "kind": "milp"}, {"name": "ecos", "kind": "ecos"},
            {"name": "ortools", "kind": "ort"}, {"name": "gurobi", "kind": "grb"}, {"name": "cone-heads", "kind": "heads"}, {"name": "plumbing", "kind": "plumbing"}, {"name": "settings", "kind": "settings"}]


def run_job(job):
    if job["kind"] == "cross":
        return cross_solver_sampled(job["n"], job["seed"], job["kinds"])
    return {"lp": def_sol_lp, "milp": def_sol_milp, "ecos": ecos_cases, "ort": ortools_cases, "grb": gurobi_cases, "heads": cone_heads, "settings": settings_cases, "plumbing": plumbing}[job["kind"]]()
