"""Sidecar LV contracts (pre / post / loop invariants) of the partition functions of rsome.subroutines (C13).

Part(S, n, Bk, Ps): the list of lists S is a partition of range(n), witnessed by the ghost functions Bk (block of an element) and
Ps (position of an element inside its block) -- a bijection between positions and elements, which says at once: every entry is in
range, every element occurs, no element occurs twice.  (Blocks may be empty lists; rsome never builds such a partition, and the
functions under contract do not need non-emptiness.)

event_dict(S)      ensures  result has exactly the keys 0..n-1 and result[e] == Bk(e)            (the block index of e)
comb_set(S1, S2)   ensures  result is a partition of range(n) into NON-EMPTY blocks, and two elements share a block of the result
                            iff they share a block of S1 and a block of S2 (the coarsest common refinement); S1, S2 not written.
"""
from __future__ import annotations

import z3

from ..lv import Contract, FE, forall, exists, Key, I

And, Or, Implies, Select = z3.And, z3.Or, z3.Implies, z3.Select


def part(S, n, Bk, Ps):
    return [
        ("elements-have-a-position", forall(1, lambda e: Implies(And(0 <= e, e < n), And(0 <= Bk(e), Bk(e) < S.n, 0 <= Ps(e), Ps(e) < Select(S.lens, Bk(e)),
                                                                                       S.at(Bk(e), Ps(e)) == e)))),
        ("positions-hold-their-element", forall(2, lambda b, j: Implies(And(0 <= b, b < S.n, 0 <= j, j < Select(S.lens, b)),
                                                                        And(0 <= S.at(b, j), S.at(b, j) < n, Bk(S.at(b, j)) == b, Ps(S.at(b, j)) == j)))),
    ]


def ghosts1():
    return {"n": z3.Int("n"), "B": z3.Function("B", I, I), "P": z3.Function("P", I, I)}


def ed_pre(env, g):
    return [("n>=0", g["n"] >= 0)] + part(env["event_set"], g["n"], g["B"], g["P"])


def ed_post(env, res, g):
    n, Bk = g["n"], g["B"]
    if res is None:
        return [("returns-a-dict", z3.BoolVal(False))]
    return [("keys-are-exactly-the-scenarios", forall(1, lambda e: Select(res.dom, e) == And(0 <= e, e < n))),
            ("each-scenario-maps-to-its-block", forall(1, lambda e: Implies(And(0 <= e, e < n), Select(res.val, e) == Bk(e))))]


def ed_inv_outer(env, g):
    n, Bk, b0, out = g["n"], g["B"], env["_i0"].t, env["output"]
    return [("count-is-the-block-index", env["count"].t == b0),
            ("keys-are-the-elements-of-earlier-blocks", forall(1, lambda e: Select(out.dom, e) == And(0 <= e, e < n, Bk(e) < b0))),
            ("values-are-block-indices", forall(1, lambda e: Implies(Select(out.dom, e), Select(out.val, e) == Bk(e))))]


def ed_inv_inner(env, g):
    n, Bk, Ps, b0, j0, out = g["n"], g["B"], g["P"], env["_i0"].t, env["_i1"].t, env["output"]
    return [("count-is-the-block-index", env["count"].t == b0),
            ("keys-are-the-elements-seen-so-far", forall(1, lambda e: Select(out.dom, e) == And(0 <= e, e < n, Or(Bk(e) < b0, And(Bk(e) == b0, Ps(e) < j0))))),
            ("values-are-block-indices", forall(1, lambda e: Implies(Select(out.dom, e), Select(out.val, e) == Bk(e))))]


EVENT_DICT = Contract("event_dict", {"event_set": "list[list[int]]"}, "dict[int,int]", ghosts1, ed_pre, ed_post,
                      invariants=[ed_inv_outer, ed_inv_inner], locals={"output": "dict[int,int]", "count": "int"})


def ghosts2():
    return {"n": z3.Int("n"), "B1": z3.Function("B1", I, I), "P1": z3.Function("P1", I, I), "B2": z3.Function("B2", I, I), "P2": z3.Function("P2", I, I)}


def cs_pre(env, g):
    return ([("n>=0", g["n"] >= 0)] + [("s1:" + a, t) for a, t in part(env["s1"], g["n"], g["B1"], g["P1"])]
            + [("s2:" + a, t) for a, t in part(env["s2"], g["n"], g["B2"], g["P2"])])


def keyof(g, e):
    return Key.mk(g["B1"](e), g["B2"](e))


def cs_blocks(out, g, upto, values=None):
    """facts about the blocks built so far from the elements 0..upto-1"""
    m = out.n
    cl = [("blocks-are-non-empty", forall(1, lambda b: Implies(And(0 <= b, b < m), Select(out.lens, b) >= 1))),
          ("entries-are-processed-elements", forall(2, lambda b, j: Implies(And(0 <= b, b < m, 0 <= j, j < Select(out.lens, b)), And(0 <= out.at(b, j), out.at(b, j) < upto)))),
          ("entries-increase-within-a-block", forall(3, lambda b, j, k: Implies(And(0 <= b, b < m, 0 <= j, j < k, k < Select(out.lens, b)), out.at(b, j) < out.at(b, k)))),
          ("every-processed-element-is-in-a-block", FE(lambda e: And(0 <= e, e < upto),
                                                       lambda e, b, j: And(0 <= b, b < m, 0 <= j, j < Select(out.lens, b), out.at(b, j) == e)))]
    if values is not None:
        cl += [("one-label-per-block", values.n == m),
               ("a-block-holds-the-elements-of-its-label", forall(2, lambda b, j: Implies(And(0 <= b, b < m, 0 <= j, j < Select(out.lens, b)), keyof(g, out.at(b, j)) == Select(values.arr, b)))),
               ("labels-are-distinct", forall(2, lambda b, c: Implies(And(0 <= b, b < c, c < m), Select(values.arr, b) != Select(values.arr, c))))]
    return cl


def cs_inv(env, g):
    return cs_blocks(env["output"], g, env["_i0"].t, env["values"])


def cs_post(env, res, g):
    n = g["n"]
    if res is None:
        return [("returns-a-list", z3.BoolVal(False))]
    m = res.n
    inr = lambda b, j: And(0 <= b, b < m, 0 <= j, j < Select(res.lens, b))
    return [("blocks-are-non-empty", forall(1, lambda b: Implies(And(0 <= b, b < m), Select(res.lens, b) >= 1))),
            ("entries-are-scenarios", forall(2, lambda b, j: Implies(inr(b, j), And(0 <= res.at(b, j), res.at(b, j) < n)))),
            ("every-scenario-is-in-a-block", FE(lambda e: And(0 <= e, e < n), lambda e, b, j: And(inr(b, j), res.at(b, j) == e))),
            ("no-scenario-occurs-twice", forall(4, lambda b, j, c, k: Implies(And(inr(b, j), inr(c, k), res.at(b, j) == res.at(c, k)), And(b == c, j == k)))),
            ("same-block-iff-same-block-in-both-arguments", forall(4, lambda b, j, c, k: Implies(And(inr(b, j), inr(c, k)),
                                                                                                  (b == c) == And(g["B1"](res.at(b, j)) == g["B1"](res.at(c, k)),
                                                                                                                  g["B2"](res.at(b, j)) == g["B2"](res.at(c, k))))))]


COMB_SET = Contract("comb_set", {"s1": "list[list[int]]", "s2": "list[list[int]]"}, "list[list[int]]", ghosts2, cs_pre, cs_post,
                    invariants=[cs_inv], locals={"values": "list[key]", "output": "list[list[int]]"},
                    call_ghosts=[lambda env, g: {"n": g["n"], "B": g["B1"], "P": g["P1"]}, lambda env, g: {"n": g["n"], "B": g["B2"], "P": g["P2"]}],
                    card_candidates=lambda g: [g["n"]])
