"""C14 -- dual() returns valid shadow prices of the user's constraints (DESIGN.md 5/C14).

Assumed (the documented contract of a dual-capable LP solver on the COMPILED program F: min obj.x,
rows by sense, bounds):  the returned multipliers (pi, upi, lpi) satisfy
    obj = A^T pi + upi + lpi,   pi_i <= 0 on <= rows,  upi <= 0,  lpi >= 0,
    upi_j = 0 where ub_j = +inf,  lpi_j = 0 where lb_j = -inf,   objval = b.pi + ub.upi + lb.lpi .
Proved: for the USER's model, with d_c = c.dual() on every linear constraint (rows read in the stored
<= / == orientation) and the duals of the bound constraints,
    gradient of the user's objective = sum_c A_c^T d_c + bound duals (on their entries),
    model.get()                      = sum_c b_c . d_c + sum bound * dual,
    signs follow the sense of optimisation,  each d_c is shaped like its constraint.
Also proved: the multiplier extraction of def_sol (HiGHS marginals) and eco_solver (ECOS y, z with
c + G^T z + A^T y = 0, z >= 0) yields (pi, upi, lpi) satisfying the assumed contract.
"""
from __future__ import annotations

import itertools
import math

import numpy as np

from ..engine import post, check_function, source_info
from ..harness import lp, ro, rsome, arr, sym_array
from ..spec import dual as D, views
from ..sym import SymReal, p_and, p_eq, p_implies, p_le, p_not, ctx
from . import c11

META = {
    "level": "other",
    "explanation": ("Continuous linear models are built through the API (array constraints in <=, >=, == form, bounds on "
                    "variables and slices, min or max) with symbolic coefficients and compiled by the real pipeline; "
                    "the solver's multipliers are fresh reals constrained only by the documented KKT contract on the "
                    "compiled program; z3 proves the certificate identities for the user's model from LinConstr.dual / "
                    "Bounds.dual.  The extraction code of def_sol and eco_solver is proved to produce multipliers "
                    "satisfying that contract from each solver's own convention."),
    "bounds": "3 user variables, 3 linear constraints with 2/1/1 rows, upper and lower bound constraints on variables and slices; min and max",
    "trusted_base": ["z3", "HiGHS marginals convention and ECOS dual convention as documented", "C06: compiled rows are the user's rows plus the epigraph row"],
    "assumptions": ["each variable entry carries at most one upper and one lower bound constraint (as stated in the property)",
                    "Gurobi: Pi / RC conventions of a minimisation LP as documented (assumed); QCP duals are not covered"],
}


def SOURCES():
    return {"rsome.lp:LinConstr.dual": source_info(lp.LinConstr.dual), "rsome.lp:Bounds.dual": source_info(lp.Bounds.dual),
            "rsome.lp:Model.do_math": source_info(lp.Model.do_math), "rsome.lp:def_sol": source_info(lp.def_sol),
            "rsome.eco_solver:solve": source_info(c11.eco_mod.solve)}


def _nz(c, n):
    v = c.fresh_real(n)
    c.assume(v != 0)
    return v


def _inf(v, s):
    return isinstance(v, (float, np.floating)) and math.isinf(float(v)) and (float(v) > 0) == (s > 0)


def kkt_contract(F, pi, upi, lpi, objval):
    A = views.dense(F.linear)
    m, n = A.shape
    t = []
    for j in range(n):
        acc = sum((A[i, j] * pi[i] for i in range(m) if isinstance(A[i, j], SymReal) or A[i, j] != 0), 0.0)
        t.append(p_eq(F.obj[j], acc + upi[j] + lpi[j]))
        t += [p_le(upi[j], 0), p_le(0, lpi[j])]
        if _inf(F.ub[j], 1):
            t.append(p_eq(upi[j], 0))
        if _inf(F.lb[j], -1):
            t.append(p_eq(lpi[j], 0))
    for i in range(m):
        if F.sense[i] == 0:
            t.append(p_le(pi[i], 0))
    val = sum((F.const[i] * pi[i] for i in range(m)), 0.0)
    for j in range(n):
        if not _inf(F.ub[j], 1):
            val = val + F.ub[j] * upi[j]
        if not _inf(F.lb[j], -1):
            val = val + F.lb[j] * lpi[j]
    t.append(p_eq(objval, val))
    return p_and(*t)


def user_certificate(sense, ns_variant):
    variant = ns_variant

    def setup_matrix(c):
        # a 2-D variable: constraints and bounds of shapes (2,3), (3,), (2,2), (2,), each dual shaped like its constraint
        m = ro.Model()
        X = m.dvar((2, 3))
        cost = arr([_nz(c, f"c{i}") for i in range(6)])
        (m.min if sense == "min" else m.max)((cost.reshape((2, 3)) * X).sum())
        W = arr([_nz(c, f"w{i}") for i in range(6)]).reshape((2, 3))
        k1 = m.st(W * X + X[::-1] <= sym_array(c, (2, 3), "B1"))
        a = arr([_nz(c, f"g{i}") for i in range(2)])
        k2 = m.st(a @ X >= sym_array(c, (3,), "b2"))
        k3 = m.st(X[:, ::-1] - 2 * X == sym_array(c, (2, 3), "b3"))
        bU = m.st(X[:, 1:] <= c.fresh_real("u0"))
        bL = m.st(X >= sym_array(c, (2, 3), "L"))
        bU2 = m.st(X[:, 0] <= c.fresh_real("u1"))
        bounds = [(bU, [1, 2, 4, 5], "U"), (bL, [0, 1, 2, 3, 4, 5], "L"), (bU2, [0, 3], "U")]
        F = m.do_math()
        nr, nv = F.linear.shape
        pi = arr([c.fresh_real(f"pi{i}_") for i in range(nr)])
        upi = arr([c.fresh_real(f"up{i}_") for i in range(nv)])
        lpi = arr([c.fresh_real(f"lo{i}_") for i in range(nv)])
        objval = c.fresh_real("objval")
        c.assume(kkt_contract(F, pi, upi, lpi, objval))
        sol = lp.Solution("rec", objval, arr([c.fresh_real(f"sx{i}_") for i in range(nv)]), 0, 0.0, y={"pi": pi, "upi": upi, "lpi": lpi})
        m.rc_model.solution = sol
        m.solution = sol
        return {"m": m, "x": X, "cost": cost, "ks": [k1, k2, k3], "bounds": bounds, "F": F, "sense": sense, "n": 6,
                "expect": ([(2, 3), (3,), (2, 3)], [(2, 2), (2, 3), (2,)])}

    def setup(c):
        if ns_variant == "matrix":
            return setup_matrix(c)
        m = ro.Model()
        x = m.dvar(3)
        cost = arr([_nz(c, f"c{i}") for i in range(3)])
        (m.min if sense == "min" else m.max)(cost @ x)
        A1 = arr([_nz(c, f"a{i}") for i in range(6)]).reshape((2, 3))
        b1 = sym_array(c, (2,), "b1")
        a2 = arr([_nz(c, f"g{i}") for i in range(3)])
        a3 = arr([_nz(c, f"h{i}") for i in range(3)])
        k1 = m.st(A1 @ x <= b1)
        k2 = m.st(a2 @ x >= c.fresh_real("b2"))
        k3 = m.st(a3 @ x == c.fresh_real("b3"))
        u = sym_array(c, (3,), "u")
        extra = []
        variant = ns_variant
        if variant.endswith("+reformulated"):
            # history: the model is formulated once BEFORE the bound constraints exist, then again (an ro model registers its
            # constraints anew at every formulation; the row labels dual() reads must follow)
            m.do_math()
            variant = variant[:-len("+reformulated")]
        if variant == "slices":
            bU = m.st(x[1:] <= u[1:])                  # a slice against an array: stored as linear rows
            bU2 = m.st(x[0] <= c.fresh_real("u0"))      # a slice against a number: a bound object
            bL = m.st(x[0] >= c.fresh_real("l0"))
            extra = [bU] if isinstance(bU, lp.LinConstr) else []
            bounds = [(bU2, [0], "U"), (bL, [0], "L")] + ([] if extra else [(bU, [1, 2], "U")])
        elif variant == "permuted":
            # the i-th dual value belongs to the i-th entry AS THE USER WROTE the slice
            bU = m.st(x[[2, 0, 1]] <= c.fresh_real("u0"))
            bL = m.st(x[::-1] >= c.fresh_real("l0"))
            bounds = [(bU, [2, 0, 1], "U"), (bL, [2, 1, 0], "L")]
        elif variant == "permuted-partial":
            bU = m.st(x[[2, 0]] <= c.fresh_real("u0"))
            bU2 = m.st(x[1] <= c.fresh_real("u1"))
            bL = m.st(x[2:0:-1] >= c.fresh_real("l0"))
            bounds = [(bU, [2, 0], "U"), (bU2, [1], "U"), (bL, [2, 1], "L")]
        else:
            bU = m.st(x <= u)
            bL = m.st(x >= sym_array(c, (3,), "l"))
            bounds = [(bU, [0, 1, 2], "U"), (bL, [0, 1, 2], "L")]
        F = m.do_math()
        nr, nv = F.linear.shape
        pi = arr([c.fresh_real(f"pi{i}_") for i in range(nr)])
        upi = arr([c.fresh_real(f"up{i}_") for i in range(nv)])
        lpi = arr([c.fresh_real(f"lo{i}_") for i in range(nv)])
        objval = c.fresh_real("objval")
        c.assume(kkt_contract(F, pi, upi, lpi, objval))
        sol = lp.Solution("rec", objval, arr([c.fresh_real(f"sx{i}_") for i in range(nv)]), 0, 0.0, y={"pi": pi, "upi": upi, "lpi": lpi})
        m.rc_model.solution = sol
        m.solution = sol
        return {"m": m, "x": x, "cost": cost, "ks": [k1, k2, k3] + extra, "bounds": bounds, "F": F, "sense": sense}

    def call(ns):
        return [k.dual() for k in ns["ks"]], [b.dual() for b, _, _ in ns["bounds"]], ns["m"].get()

    def shapes(ns, res):
        ds, bs, _ = res
        if "expect" in ns:
            return all(np.shape(d) == e for d, e in zip(ds, ns["expect"][0])) and all(np.shape(v) == e for v, e in zip(bs, ns["expect"][1]))
        ok = np.shape(ds[0]) == (2,) and np.shape(ds[1]) == () and np.shape(ds[2]) == ()
        for k, d in zip(ns["ks"][3:], ds[3:]):
            ok = ok and np.shape(d) == (k.linear.shape[0],)
        for (b, idx, _), v in zip(ns["bounds"], bs):
            ok = ok and (np.shape(v) == (len(idx),) if len(idx) > 1 else np.shape(v) == ())
        return bool(ok)

    def gradient(ns, res):
        ds, bs, _ = res
        x = ns["x"]
        terms = []
        for j in range(ns.get("n", 3)):
            col = x.first + j
            acc = 0.0
            for k, d in zip(ns["ks"], ds):
                A = views.dense(k.linear)
                dv = views.flat(d)
                acc = acc + sum((A[i, col] * dv[i] for i in range(A.shape[0]) if isinstance(A[i, col], SymReal) or A[i, col] != 0), 0.0)
            for (b, idx, _), v in zip(ns["bounds"], bs):
                vv = views.flat(v)
                if j in idx:
                    acc = acc + vv[idx.index(j)]
            terms.append(p_eq(ns["cost"][j], acc))
        return p_and(*terms)

    def objective(ns, res):
        ds, bs, got = res
        acc = 0.0
        for k, d in zip(ns["ks"], ds):
            dv = views.flat(d)
            bc = np.asarray(k.const, dtype=object).reshape(-1)
            acc = acc + sum((bc[i] * dv[i] for i in range(len(dv))), 0.0)
        for (b, idx, _), v in zip(ns["bounds"], bs):
            vv = views.flat(v)
            bv = np.asarray(b.values, dtype=object).reshape(-1)
            acc = acc + sum((bv[i] * vv[i] for i in range(len(vv))), 0.0)
        return p_eq(got, acc)

    def signs(ns, res):
        ds, bs, _ = res
        s = 1 if ns["sense"] == "min" else -1
        t = []
        for k, d in zip(ns["ks"], ds):
            sense = np.asarray(k.sense).reshape(-1)
            for i, v in enumerate(views.flat(d)):
                if sense[i] == 0:
                    t.append(p_le(s * v, 0))
        for (b, idx, kind), v in zip(ns["bounds"], bs):
            for vv in views.flat(v):
                t.append(p_le(s * vv, 0) if kind == "U" else p_le(0, s * vv))
        return p_and(*t)

    obs, _ = check_function("rsome.lp:LinConstr.dual/Bounds.dual", setup, call,
                            [post("each-dual-shaped-like-its-constraint", shapes),
                             post("objective-gradient-is-the-dual-weighted-sum-of-constraint-and-bound-gradients", gradient),
                             post("dual-weighted-right-hand-sides-sum-to-the-optimal-objective", objective),
                             post("signs-follow-the-direction-of-optimisation", signs)],
                            mode="D", label=f"{sense},{variant}", bounded=True, max_paths=200, z3_ms=60000)
    return obs


def unsolved():
    out = []
    from ..engine import always_raises

    def setup(c):
        m = ro.Model()
        x = m.dvar(2)
        m.min(x.sum())
        return {"m": m, "k": m.st(x.sum() >= 1), "b": m.st(x >= 0), "loose": (x.sum() <= 4)}
    for name, f in (("LinConstr.dual unsolved", lambda ns: ns["k"].dual()), ("Bounds.dual unsolved", lambda ns: ns["b"].dual()),
                    ("LinConstr.dual of a constraint that was never added", lambda ns: ns["loose"].dual())):
        obs, _ = check_function("rsome.lp:dual", setup, f, [always_raises("raises", (RuntimeError,))], mode="D", label=name)
        out += obs

    # an interface that returns no multipliers (MILP, OR-Tools): dual() says so and returns nothing -- never a number
    def setup_nodual(c):
        import warnings
        ns = setup(c)
        F = ns["k"].model.do_math() if False else None
        m = ns["m"]
        Fm = m.do_math()
        sol = lp.Solution("rec", 1.0, np.ones(Fm.linear.shape[1]), 0, 0.0, y=None)
        m.rc_model.solution = sol
        m.solution = sol
        return ns

    def call_nodual(ns):
        import warnings
        res = []
        for k in (ns["k"], ns["b"]):
            with warnings.catch_warnings(record=True) as w:
                warnings.simplefilter("always")
                res.append((k.dual(), len(w)))
        return res
    obs, _ = check_function("rsome.lp:dual", setup_nodual, call_nodual,
                            [post("no-multipliers-available: returns None and warns", lambda ns, res: all(v is None and nw >= 1 for v, nw in res))],
                            mode="D", label="solution without multipliers", bounded=True, replay=None)
    out += obs
    return out


def extraction():
    """def_sol and eco_solver turn the solver's own multipliers into (pi, upi, lpi)."""
    out = []
    for sense in itertools.product([0, 1], repeat=2):
        for kinds in (("free", "lb"), ("box", "ub"), ("fixed", "free")):
            # ---- SciPy / HiGHS: marginals per group, in group order
            def setup(c, sense=sense, kinds=kinds):
                F = c11.sym_formula(c, 2, 2, sense, kinds)
                return {"F": F, "fake": c11.FakeOptLP(c, 0)}

            def call(ns):
                real = lp.opt
                lp.opt = ns["fake"]
                try:
                    return lp.def_sol(ns["F"], display=False)
                finally:
                    lp.opt = real

            def highs_mapping(ns, sol):
                F = ns["F"]
                y = sol.y
                if y is None:
                    return False
                eq_rows = [i for i in range(2) if F.sense[i] == 1]
                in_rows = [i for i in range(2) if F.sense[i] == 0]
                t = []
                # recover what the fake returned through the recorded call order
                res_eq = [v for v in y["pi"][eq_rows]] if eq_rows else []
                res_in = [v for v in y["pi"][in_rows]] if in_rows else []
                names_eq = [str(v) for v in res_eq]
                names_in = [str(v) for v in res_in]
                ok = all(f"eq{k}_" in names_eq[k] for k in range(len(eq_rows))) and all(f"in{k}_" in names_in[k] for k in range(len(in_rows)))
                ok = ok and all(f"up{j}_" in str(y["upi"][j]) and f"lo{j}_" in str(y["lpi"][j]) for j in range(2))
                return ok
            obs, _ = check_function("rsome.lp:def_sol", setup, call,
                                    [post("marginals-placed-on-their-own-rows-and-columns", highs_mapping)], mode="D",
                                    label=f"sense={sense} bounds={'/'.join(kinds)}", bounded=True, replay=None)
            out += obs

            # ---- ECOS: c + G^T z + A^T y = 0, z >= 0  =>  the extracted triple satisfies the KKT contract
            def setup_e(c, sense=sense, kinds=kinds):
                F = c11.sym_formula(c, 2, 2, sense, kinds)
                return {"F": F, "fake": c11.FakeEcos(c, 0)}

            def call_e(ns):
                real = c11.eco_mod.ecos
                c11.eco_mod.ecos = ns["fake"]
                try:
                    return c11.eco_mod.solve(ns["F"], display=False)
                finally:
                    c11.eco_mod.ecos = real

            obs, _ = check_function("rsome.eco_solver:solve", setup_e, call_e,
                                    [post("extracted-multipliers-satisfy-the-kkt-contract", lambda ns, sol: ecos_contract(ns, sol))], mode="D",
                                    label=f"sense={sense} bounds={'/'.join(kinds)}", bounded=True)
            out += obs
    return out


def gurobi_extraction():
    """grb_solver.solve reads Pi of the '=' and '<' groups and the reduced costs RC.  Assumed (Gurobi's documented
    optimality conditions for a minimisation LP):  c = A'Pi + RC;  Pi_i <= 0 on '<' rows;  RC_j > 0 only with x_j at a
    finite lower bound, RC_j < 0 only with x_j at a finite upper bound;  Pi_i != 0 only on tight rows;  x feasible,
    ObjVal = c.x.  Proved: the (pi, upi, lpi) triple handed to the model satisfies the KKT contract of the compiled
    program (in particular its dual objective equals ObjVal)."""
    try:
        import rsome.grb_solver as grb_mod
    except Exception:
        return []
    out = []
    for sense in itertools.product([0, 1], repeat=2):
        for kinds in (("free", "lb"), ("box", "ub"), ("fixed", "free"), ("lb", "box")):
            def setup(c, sense=sense, kinds=kinds):
                F = c11.sym_formula(c, 2, 2, sense, kinds)
                F = lp.LinProg(F.linear, F.const, F.sense, F.vtype, F.ub, F.lb, F.obj)
                fake = c11.FakeGp(c, 2)
                fake.duals = True
                return {"F": F, "fake": fake}

            def call(ns):
                real = grb_mod.gp
                grb_mod.gp = ns["fake"]
                try:
                    return grb_mod.solve(ns["F"], display=False)
                finally:
                    grb_mod.gp = real

            def contract(ns, sol):
                F = ns["F"]
                g = ns["fake"].made[0]
                y = sol.y
                if y is None or sol.x is None:
                    return False
                A = views.dense(F.linear)
                x = list(g.X)
                rc = list(np.asarray(g.mvars[0].rc, dtype=object))
                # Pi per row, in the row order of the formula: the groups were added as ('=' rows, '<' rows)
                pi_true = [None, None]
                eq_rows = [i for i in range(2) if F.sense[i] == 1]
                in_rows = [i for i in range(2) if F.sense[i] == 0]
                for rec in g.mrecs:
                    rows = eq_rows if rec.sense == "=" else in_rows
                    for k_, i in enumerate(rows):
                        pi_true[i] = rec.pi[k_]
                if any(v is None for v in pi_true):
                    return False
                pre = []
                for j in range(2):
                    pre.append(p_eq(F.obj[j], sum((A[i, j] * pi_true[i] for i in range(2)), 0.0) + rc[j]))
                    lo, hi = F.lb[j], F.ub[j]
                    pre.append(p_le(rc[j], 0) if _inf(lo, -1) else p_implies(p_not(p_le(rc[j], 0)), p_eq(x[j], lo)))
                    pre.append(p_le(0, rc[j]) if _inf(hi, 1) else p_implies(p_not(p_le(0, rc[j])), p_eq(x[j], hi)))
                    if not _inf(lo, -1):
                        pre.append(p_le(lo, x[j]))
                    if not _inf(hi, 1):
                        pre.append(p_le(x[j], hi))
                for i in range(2):
                    ax = sum((A[i, j] * x[j] for j in range(2)), 0.0)
                    if F.sense[i] == 1:
                        pre.append(p_eq(ax, F.const[i]))
                    else:
                        pre += [p_le(ax, F.const[i]), p_le(pi_true[i], 0), p_implies(p_not(p_eq(pi_true[i], 0)), p_eq(ax, F.const[i]))]
                pre.append(p_eq(sol.objval, sum((F.obj[j] * x[j] for j in range(2)), 0.0)))
                return p_implies(p_and(*pre), kkt_contract(F, y["pi"], y["upi"], y["lpi"], sol.objval))
            obs, _ = check_function("rsome.grb_solver:solve", setup, call,
                                    [post("extracted-multipliers-satisfy-the-kkt-contract", contract)], mode="D",
                                    label=f"sense={sense} bounds={'/'.join(kinds)}", bounded=True, max_paths=200, z3_ms=60000)
            out += obs
    return out


def ecos_contract(ns, sol):
    """ECOS optimality: c + G^T z + A^T y = 0, z >= 0 (linear cone), objective pcost = -h.z - b.y.
    Then (pi, upi, lpi) read off by eco_solver.solve satisfy the KKT contract of the compiled program."""
    F = ns["F"]
    fake = ns["fake"]
    k = fake.calls[0]
    ret = fake.last
    G = views.dense(k["G"])
    h = np.asarray(k["h"], dtype=object).reshape(-1)
    z, yv = ret["z"], ret["y"]
    Aeq = views.dense(k["A"]) if k["A"] is not None else None
    beq = np.asarray(k["b"], dtype=object).reshape(-1) if k["b"] is not None else []
    n = 2
    pre = []
    for j in range(n):
        acc = k["c"][j] + sum((G[i, j] * z[i] for i in range(G.shape[0]) if isinstance(G[i, j], SymReal) or G[i, j] != 0), 0.0)
        if Aeq is not None:
            acc = acc + sum((Aeq[i, j] * yv[i] for i in range(Aeq.shape[0])), 0.0)
        pre.append(p_eq(acc, 0))
    pre += [p_le(0, v) for v in z]
    val = -sum((h[i] * z[i] for i in range(len(z))), 0.0) - sum((beq[i] * yv[i] for i in range(len(yv))), 0.0)
    y = sol.y
    if y is None:
        return False
    post_ = kkt_contract(F, y["pi"], y["upi"], y["lpi"], val)
    return p_implies(p_and(*pre), post_)


def jobs(tier):
    js = [{"name": f"certificate-{s}-{v}", "kind": "cert", "sense": s, "variant": v} for s in ("min", "max") for v in ("whole", "slices", "permuted", "permuted-partial", "whole+reformulated", "permuted-partial+reformulated", "matrix")]
    js += [{"name": "unsolved", "kind": "unsolved"}, {"name": "extraction", "kind": "extraction"}, {"name": "extraction-gurobi", "kind": "extraction-gurobi"}]
    return js


def run_job(job):
    if job["kind"] == "cert":
        return user_certificate(job["sense"], job["variant"])
    if job["kind"] == "unsolved":
        return unsolved()
    if job["kind"] == "extraction":
        return extraction()
    if job["kind"] == "extraction-gurobi":
        return gurobi_extraction()
    raise ValueError(job["kind"])
