"""C09 -- sets and expressions do not leak: results are independent of build history (DESIGN.md 5/C09).

Contract: the compiled program is a function of the DECLARED model only.  Every history (a sequence of
public API calls: creating constraints, attaching and re-attaching sets, st, minmax, dvar, formulating
primal/dual, solving, adding more) is executed on one model object; the final formulation is compared
with the formulation of a FRESH model on which only the final declarations are made.  The comparison
ignores columns that carry nothing (no coefficient, no cost, no cone): they are left over from earlier
formulations and cannot change the optimum.  Frame clauses: a captured support is not changed by later
set definitions; cached formulas are not changed by later formulations / soc_solve; an expression used
inside an expectation or a piecewise term keeps its meaning elsewhere.
"""
from __future__ import annotations

import itertools
import os
import random

import numpy as np

from ..engine import check_enumeration, post, check_function, source_info
from ..harness import lp, ro, dro, socp, gcp, rsome
from .. import snap as S
from ..spec import views

META = {
    "level": "other",
    "explanation": ("Histories of API calls (all orders of a fixed pool of operations up to the stated length, plus "
                    "a seeded random sample of longer ones) are executed on real models; the final formulation is "
                    "compared field by field with a from-scratch build of the declared model, and frame conditions on "
                    "captured supports, cached formulas and shared expressions are checked by deep snapshots.  "
                    "Bounded exploration of the history space; every verdict is by execution of the real code."),
    "bounds": "ro histories: all interleavings of 2 robust constraints x 3 set families (incl. p-norm and exp sets) with st/minmax/do_math/dual/solve/dvar, length <= 9; dro: 2 scenarios, re-formulation after added constraints/variables/adaptations",
    "trusted_base": ["CPython", "ShimCSR/NumPy shims (conformance-tested)", "rverif.snap deep snapshots"],
    "assumptions": ["columns without any coefficient, cost or cone membership are irrelevant to the optimum"],
}


def SOURCES():
    return {"rsome.socp:Model.reset": source_info(socp.Model.reset), "rsome.gcp:Model.reset": source_info(gcp.Model.reset),
            "rsome.ro:Model.reset": source_info(ro.Model.reset), "rsome.lp:RoConstr.forall": source_info(lp.RoConstr.forall),
            "rsome.ro:Model.minmax": source_info(ro.Model.minmax), "rsome.ro:Model.do_math": source_info(ro.Model.do_math),
            "rsome.dro:Model.do_math": source_info(dro.Model.do_math), "rsome.dro:Model.rule_var": source_info(dro.Model.rule_var),
            "rsome.lp:ExpPiecewiseConvex.__init__": source_info(lp.ExpPiecewiseConvex.__init__),
            "rsome.gcp:GCProg.to_socp": source_info(gcp.GCProg.to_socp)}


# ----------------------------------------------------------------------------- canonical form of a program

def canon(F, user_cols=None):
    """user_cols: the columns of the user's variables in declaration order -- they are put first, so that a variable that was
    declared late (and therefore sits behind the auxiliary columns of an earlier formulation) is compared by identity"""
    A = np.asarray(views.dense(F.linear), dtype=float)
    nv = A.shape[1]
    obj = np.asarray(F.obj, dtype=float).reshape(-1)
    cone_cols = {int(i) for q in list(getattr(F, "qmat", [])) + list(getattr(F, "xmat", [])) for i in q}
    lmi_cols = set()
    for l in getattr(F, "lmi", []) or []:
        L = np.asarray(views.dense(l["linear"]), dtype=float)
        lmi_cols |= {j for j in range(L.shape[1]) if np.any(L[:, j] != 0)}
    keep = [j for j in range(nv) if np.any(A[:, j] != 0) or obj[j] != 0 or j in cone_cols or j in lmi_cols
            or float(F.ub[j]) != np.inf or float(F.lb[j]) != -np.inf or str(F.vtype[j]) != "C"]
    if user_cols is not None:
        uc = [int(j) for j in user_cols]
        keep = uc + [j for j in keep if j not in set(uc)]
    pos = {j: k for k, j in enumerate(keep)}
    # rows without coefficients that hold trivially (0 <= c with c >= 0, 0 == 0) say nothing
    live = [i for i in range(A.shape[0]) if np.any(A[i] != 0) or not
            ((int(F.sense[i]) == 0 and float(F.const[i]) >= 0) or (int(F.sense[i]) == 1 and float(F.const[i]) == 0))]
    rows = [tuple(np.round(A[i, keep], 9)) + (round(float(F.const[i]), 9), int(F.sense[i])) for i in live]
    d = {"rows": rows, "obj": tuple(np.round(obj[keep], 9)), "ub": tuple(float(F.ub[j]) for j in keep),
         "lb": tuple(float(F.lb[j]) for j in keep), "vtype": tuple(str(F.vtype[j]) for j in keep),
         "qmat": [tuple(pos[int(i)] for i in q) for q in getattr(F, "qmat", [])],
         "xmat": [tuple(pos[int(i)] for i in q) for q in getattr(F, "xmat", [])],
         "nlmi": len(getattr(F, "lmi", []) or [])}
    return d


def canon_diff(a, b):
    out = []
    for k in a:
        if a[k] != b[k]:
            if k == "rows":
                out.append(f"rows: {len(a[k])} vs {len(b[k])}; first difference at "
                           f"{next((i for i, (x, y) in enumerate(zip(a[k], b[k])) if x != y), min(len(a[k]), len(b[k])))}")
            else:
                out.append(f"{k}: {str(a[k])[:80]} vs {str(b[k])[:80]}")
    return out


def canon_support(Dsup):
    """A support (dual standard form) modulo vacuous rows: a row without any coefficient belongs to a primal
    column of the support model that no constraint mentions (auxiliary variables left behind by an earlier
    set definition); le_to_rc turns it into the row 0 == 0."""
    A = np.asarray(views.dense(Dsup.linear), dtype=float)
    keep = [i for i in range(A.shape[0]) if np.any(A[i] != 0)]
    return {"rows": [tuple(np.round(A[i], 9)) + (round(float(Dsup.const[i]), 9), int(Dsup.sense[i])) for i in keep],
            "first_vacuous": min([i for i in range(A.shape[0]) if i not in keep] + [A.shape[0]]),
            "obj": tuple(np.round(np.asarray(Dsup.obj, dtype=float), 9)), "ub": tuple(map(float, Dsup.ub)), "lb": tuple(map(float, Dsup.lb)),
            "qmat": [tuple(int(i) for i in q) for q in getattr(Dsup, "qmat", [])],
            "xmat": [tuple(int(i) for i in q) for q in getattr(Dsup, "xmat", [])]}


class Oracle:
    @staticmethod
    def solve(formula, display=True, log=False, params={}):
        return lp.Solution("oracle", 0.0, np.zeros(formula.linear.shape[1]), 0, 0.0)


# ----------------------------------------------------------------------------- ro histories

SETFAM = {
    "box": lambda z: [z <= 1, z >= -1],
    "ball": lambda z: [rsome.norm(z, 2) <= 1.5],
    "pnorm": lambda z: [rsome.pnorm(z, 3) <= 0.5],
    "budget": lambda z: [rsome.norm(z, 1) <= 1.5, rsome.norm(z, "inf") <= 1],
    "exp": lambda z: [rsome.exp(z) <= 3, z >= -1],
    "kl": lambda z: [rsome.kldiv(z, 0.5, 0.1), z.sum() == 1],
    # sets made ONLY of general-cone constraints (no linear/bound/abs/norm part): they reach gcp.Model.st's own
    # branches and nothing else, so cache invalidation and reset must work without help from the lp/socp layers
    "kl-only": lambda z: [rsome.kldiv(z, 0.5, 0.1)],
    "exp-only": lambda z: [rsome.exp(z) <= 3],
    "entropy-only": lambda z: [rsome.entropy(z) >= 0.1],
    "pnorm-exc-only": lambda z: [rsome.pnorm(z, 2.5) <= 1.5],
    # no constraint at all (forall() / minmax(obj) without arguments): the whole space, NOT the set defined before
    "empty": lambda z: [],
}


class RoWorld:
    """one ro model plus the declarations made so far (to rebuild it from scratch)"""

    def __init__(self):
        self.m = ro.Model()
        self.x = self.m.dvar(2)
        self.w = self.m.dvar()
        self.z = self.m.rvar(2)
        self.k = {}
        self.sets = {}
        self.added = []
        self.obj = None
        self.extra = 0
        self.m.min(self.w) if False else None

    def expr(self, name):
        x, w, z = self.x, self.w, self.z
        return {"A": (x * z).sum() + w, "B": x[0] * z[1] - 2 * w + 1, "C": x[1] - w}[name]

    def op(self, o):
        m = self.m
        if o[0] == "create":
            self.k[o[1]] = (self.expr(o[1]) <= 3)
        elif o[0] == "forall":
            self.k[o[1]].forall(*SETFAM[o[2]](self.z))
            self.sets[o[1]] = o[2]
        elif o[0] == "st":
            m.st(self.k[o[1]])
            self.added.append(o[1])
        elif o[0] == "minmax":
            m.minmax(self.w + self.x[0] * self.z[0], *SETFAM[o[1]](self.z))
            self.obj = o[1]
        elif o[0] == "do_math":
            m.do_math()
        elif o[0] == "dual":
            m.do_math(primal=False)
        elif o[0] == "solve":
            m.solve(Oracle, display=False)
        elif o[0] == "dvar":
            v = m.dvar(2)
            m.st(v >= 0, v.sum() <= self.w)
            self.extra += 1
        elif o[0] == "cvx":
            # scaled convex atoms against purely numeric (array) bounds: re-formulating must not rescale them again
            m.st(2 * rsome.exp(self.x) <= np.array([5.0, 4.0]), 3 * abs(self.x - 1) <= np.array([6.0, 9.0]),
                 0.5 * rsome.square(self.x) <= np.array([8.0, 2.0]), 4 * rsome.norm(self.x, 2) <= 12.0,
                 0.25 * rsome.log(self.x + 9) >= np.array([0.25, 0.5]))

    def final(self):
        return self.m.do_math()

    def fresh(self):
        """the declared model, built once, in declaration order, on a new model object"""
        f = RoWorld()
        seq = []
        if self.obj:
            pass
        # same order of st() calls and dvar additions is reproduced by replaying only the declarative ops
        return f


DECL = ("create", "forall", "st", "minmax", "dvar")


def replay_fresh(history):
    """Only the declarations, each constraint given its FINAL set right when it is created."""
    f = RoWorld()
    final_set = {}
    for o in history:
        if o[0] == "forall":
            final_set[o[1]] = o[2]
    for o in history:
        if o[0] == "create":
            f.op(o)
            if o[1] in final_set:
                f.op(("forall", o[1], final_set[o[1]]))
        elif o[0] in ("st", "minmax", "dvar", "cvx"):
            f.op(o)
    return f


def valid(history):
    created, has_set, added, obj = set(), set(), set(), False
    for o in history:
        if o[0] == "create":
            if o[1] in created:
                return False
            created.add(o[1])
        elif o[0] == "forall":
            if o[1] not in created or o[1] in added:
                return False          # re-attaching a set after st() is not a declared use
            has_set.add(o[1])
        elif o[0] == "st":
            if o[1] not in created or o[1] in added:
                return False
            added.add(o[1])
        elif o[0] == "minmax":
            if obj:
                return False
            obj = True
        elif o[0] in ("do_math", "dual", "solve"):
            if not obj:
                return False
            # every robust constraint added so far must have a set or a default set (objective's)
    return obj and {"A", "B"} <= added


def ro_histories(tier, seed):
    base = [("create", "A"), ("create", "B"), ("st", "A"), ("st", "B"), ("minmax", "box")]
    out = []
    famA = ["ball", "pnorm", "box", "kl-only"] if tier == "quick" else list(SETFAM)
    famB = ["box", "exp", "budget", "exp-only", "entropy-only", "empty"] if tier == "quick" else list(SETFAM)
    rng = random.Random(seed)
    fixed = []
    for fa, fb in itertools.product(famA, famB):
        pool = base + [("forall", "A", fa), ("forall", "B", fb)]
        # all interleavings of the declarations ...
        perms = [p for p in itertools.permutations(pool) if valid(list(p))]
        sample = rng.sample(perms, min(6 if tier == "quick" else 24, len(perms)))
        for p in sample:
            fixed.append(list(p))
    # ... with formulations / solves / further declarations inserted in between
    inter = [("do_math",), ("dual",), ("solve",), ("dvar",), ("cvx",), ("forall", "A", "pnorm"), ("forall", "A", "box"), ("forall", "B", "ball")]
    for h in list(fixed):
        for _ in range(2 if tier == "quick" else 3):
            hh = list(h)
            for _k in range(rng.randint(1, 3)):
                ins = rng.choice(inter)
                pos = rng.randint(1, len(hh))
                cand = hh[:pos] + [ins] + hh[pos:]
                if valid(cand):
                    hh = cand
            if hh != h:
                fixed.append(hh)
    # always-included regression shapes
    fixed.append([("create", "A"), ("forall", "A", "pnorm"), ("create", "B"), ("forall", "B", "box"), ("minmax", "box"), ("st", "A"), ("st", "B")])
    fixed.append([("create", "A"), ("forall", "A", "box"), ("minmax", "pnorm"), ("create", "B"), ("st", "A"), ("st", "B"), ("solve",), ("dvar",), ("solve",)])
    fixed.append([("minmax", "ball"), ("create", "A"), ("st", "A"), ("do_math",), ("dual",), ("create", "B"), ("forall", "B", "kl"), ("st", "B"), ("dual",)])
    fixed.append([("minmax", "box"), ("cvx",), ("do_math",), ("create", "A"), ("forall", "A", "ball"), ("st", "A"), ("solve",), ("dvar",), ("do_math",)])
    fixed.append([("cvx",), ("minmax", "box"), ("solve",), ("solve",), ("create", "B"), ("st", "B"), ("dual",), ("do_math",)])
    fixed.append([("create", "A"), ("minmax", "ball"), ("st", "A"), ("cvx",), ("dual",), ("dvar",), ("dual",), ("solve",)])
    # a set attached (or replaced) with forall() AFTER the constraint was handed to st() and the model was formulated / solved:
    # the next formulation uses the new set (the library honours late forall(); C01 states "the set passed to its forall()")
    fixed.append([("create", "A"), ("create", "B"), ("st", "A"), ("st", "B"), ("minmax", "box"), ("do_math",), ("forall", "A", "ball")])
    fixed.append([("create", "A"), ("create", "B"), ("forall", "B", "box"), ("st", "A"), ("st", "B"), ("minmax", "ball"), ("solve",), ("forall", "A", "budget"), ("forall", "B", "ball")])
    fixed.append([("create", "A"), ("create", "B"), ("st", "A"), ("st", "B"), ("minmax", "box"), ("dual",), ("forall", "B", "exp-only"), ("do_math",)])
    uniq = []
    seen = set()
    for h in fixed:
        t = tuple(h)
        if t not in seen:
            seen.add(t)
            uniq.append(h)
    return uniq


def run_ro_histories(histories):
    out = []
    for h in histories:
        def setup(c, h=h):
            return {"h": h}

        def call(ns):
            w = RoWorld()
            for o in ns["h"]:
                w.op(o)
            inc = canon(w.final())
            fresh = canon(replay_fresh(ns["h"]).final())
            # the dual asked for FIRST (before any new primal formulation) after the same history
            w2 = RoWorld()
            for o in ns["h"]:
                w2.op(o)
            try:
                inc_d = canon(w2.m.do_math(primal=False))
                fresh_d = canon(replay_fresh(ns["h"]).m.do_math(primal=False))
            except Exception as e:                       # noqa: a history whose dual is not defined (integer model ...)
                inc_d = fresh_d = None
            return inc, fresh, inc_d, fresh_d

        def same(ns, res):
            d = canon_diff(res[0], res[1])
            ns["_diff"] = d
            return not d

        def same_dual(ns, res):
            if res[2] is None:
                return True
            return not canon_diff(res[2], res[3])
        label = " ; ".join("-".join(o) for o in h)
        obs, _ = check_function("rsome.ro:<history>", setup, call,
                                [post("final-formulation-equals-from-scratch-build", same),
                                 post("dual-requested-first-equals-dual-of-from-scratch-build", same_dual)], mode="D", label=label, bounded=True, replay=None)
        for o in obs:
            if o["status"] != "discharged":
                o["reason"] = (o.get("reason") or "") + " | " + "; ".join(setup_diff(h))
        out += obs
    return out


def setup_diff(h):
    try:
        w = RoWorld()
        for o in h:
            w.op(o)
        return canon_diff(canon(w.final()), canon(replay_fresh(h).final()))[:3]
    except Exception as e:
        return [f"{type(e).__name__}: {e}"]


# ----------------------------------------------------------------------------- deterministic layer models

def layer_histories():
    """lp.Model / socp.Model / gcp.Model used directly: formulations, dual requests and solves interleaved with further
    declarations (incl. variables declared after a formulation); the final formulation and the dual requested first must
    equal those of the same model declared in one go (user variables matched by identity, auxiliary columns in order)."""
    from ..harness import socp, gcp
    out = []
    layers = {"lp": lp.Model, "socp": socp.Model, "gcp": gcp.Model}
    cvec = np.array([1.0, -2.0])

    def decl(layer):
        ops = [("obj", lambda w: w["m"].min(w["t"] + 0.5 * w["x"].sum())),
               ("k1", lambda w: w["m"].st(rsome.norm(w["x"] - cvec, 1) <= w["t"])),
               ("k2", lambda w: (w["m"].st(w["x"][0] >= 2), w["m"].st(w["x"] <= 9))),
               ("y", lambda w: w.__setitem__("y", w["m"].dvar(2))),
               ("k3", lambda w: (w["m"].st(w["y"] >= np.array([5.0, 7.0])), w["m"].st(rsome.norm(w["y"] - w["x"], "inf") <= w["t"] + 20))),
               ("k4", lambda w: w["m"].st(abs(w["y"][0] - w["x"][1]) <= 30))]
        if layer in ("socp", "gcp"):
            ops.insert(2, ("q1", lambda w: w["m"].st(rsome.norm(w["x"], 2) <= w["t"] + 10)))
            ops.append(("q2", lambda w: w["m"].st(rsome.sumsqr(w["y"] - 6) <= 40)))
        if layer == "gcp":
            ops.append(("e1", lambda w: w["m"].st(rsome.exp(w["x"][1] - 9) <= w["t"] + 5)))
        return ops

    forms = {"do_math": lambda w: w["m"].do_math(), "dual": lambda w: w["m"].do_math(primal=False), "solve": lambda w: w["m"].solve(Oracle, display=False),
             "dual-twice": lambda w: (w["m"].do_math(primal=False), w["m"].do_math(primal=False))}

    def world(layer):
        m = layers[layer]()
        return {"m": m, "x": m.dvar(2), "t": m.dvar()}

    def user_cols(w):
        cols = [w["t"].first] + [w["x"].first + i for i in range(2)]
        if "y" in w:
            cols += [w["y"].first + i for i in range(2)]
        return cols

    for layer in layers:
        D_ = decl(layer)
        n = len(D_)
        plans = [((), ())]
        for pos in range(1, n + 1):
            for f in forms:
                plans.append(((pos,), (f,)))
        for p1 in range(1, n + 1):
            for p2 in range(p1, n + 1):
                for f1, f2 in (("solve", "do_math"), ("do_math", "dual"), ("dual", "solve"), ("solve", "solve")):
                    plans.append(((p1, p2), (f1, f2)))

        def run(plan, end):
            w = world(layer)
            for i, (_name, op) in enumerate(D_):
                op(w)
                for pos, f in zip(*plan):
                    if pos == i + 1:
                        forms[f](w)
            F = w["m"].do_math() if end == "primal" else w["m"].do_math(primal=False)
            return F, w

        def enumerate_all(layer=layer, plans=plans):
            for end in ("primal", "dual-first"):
                Ff, wf = run(((), ()), end)
                ref = canon(Ff, user_cols(wf) if end == "primal" else None)
                for plan in plans[1:]:
                    Fi, wi = run(plan, end)
                    got = canon(Fi, user_cols(wi) if end == "primal" else None)
                    if end == "dual-first":
                        # the dual's columns are the primal's rows: only sizes, objective multiset and cone counts are order-free
                        same = (len(got["rows"]) == len(ref["rows"]) and sorted(got["obj"]) == sorted(ref["obj"])
                                and len(got["qmat"]) == len(ref["qmat"]) and len(got["xmat"]) == len(ref["xmat"])
                                and sorted(map(sorted, got["rows"])) == sorted(map(sorted, ref["rows"])))
                        if not same:
                            return f"{layer}: formulations {plan} then the dual first: differs from the dual of the model declared in one go"
                    else:
                        d = canon_diff(got, ref)
                        if d:
                            return f"{layer}: formulations {plan}: final program differs from the model declared in one go: {d[:2]}"
            return True
        out += check_enumeration(f"rsome.{layer}:Model.<history>", "final-formulation-and-dual-equal-those-of-the-model-declared-in-one-go",
                                 f"{layer}.Model: {len(plans) - 1} formulation plans x (primal, dual first)", enumerate_all)
    return out


# ----------------------------------------------------------------------------- frames

def frames():
    out = []

    def run(fname, label, setup, call, clauses):
        obs, _ = check_function(fname, setup, call, clauses, mode="D", label=label, bounded=True, replay=None)
        out.extend(obs)

    # (1) a captured support is not changed by later set definitions, formulations or solves
    for first, later in itertools.product(["box", "ball", "pnorm", "exp", "kl-only"], ["box", "ball", "pnorm", "budget", "kl", "kl-only", "exp-only", "entropy-only", "pnorm-exc-only"]):
        def setup(c, first=first, later=later):
            w = RoWorld()
            k1 = (w.expr("A") <= 1).forall(*SETFAM[first](w.z))
            return {"w": w, "k1": k1, "before": S.snap(k1.support, view=True), "later": later}

        def call(ns):
            w = ns["w"]
            k2 = (w.expr("B") <= 1).forall(*SETFAM[ns["later"]](w.z))
            w.m.minmax(w.w, *SETFAM[ns["later"]](w.z))
            w.m.st(ns["k1"], k2)
            w.m.do_math()
            w.m.do_math(primal=False)
            return S.snap(ns["k1"].support, view=True)
        run("rsome.lp:RoConstr.forall", f"support({first}) then {later}", setup, call,
            [post("captured-support-unchanged", lambda ns, res: not S.diff(ns["before"], res))])

        # and it equals the support of the same set on a fresh model
        def call2(ns):
            w2 = RoWorld()
            k = (w2.expr("A") <= 1)
            (w2.expr("B") <= 1).forall(*SETFAM[ns["later"]](w2.z))       # another set defined BEFORE
            k.forall(*SETFAM[first_of(ns)](w2.z))
            return canon_support(k.support)

        def first_of(ns):
            return ns["first"]

        def setup2(c, first=first, later=later):
            w = RoWorld()
            k1 = (w.expr("A") <= 1).forall(*SETFAM[first](w.z))
            return {"before": canon_support(k1.support), "later": later, "first": first}

        def indep(ns, res):
            b = dict(ns["before"])
            r = dict(res)
            # vacuous rows may only appear behind the rows of the declared random variables
            ok = r.pop("first_vacuous") >= 2 and b.pop("first_vacuous") >= 2
            return ok and b == r
        run("rsome.lp:RoConstr.forall", f"support({first}) after {later} was defined", setup2, call2,
            [post("support-independent-of-earlier-sets", indep)])

    # (2) cached formulas are not written by later formulations / soc_solve
    def setup_cache(c):
        w = RoWorld()
        w.m.minmax(w.w + w.x[0] * w.z[0], *SETFAM["ball"](w.z))
        w.m.st(((w.expr("A") <= 3).forall(*SETFAM["exp"](w.z))), rsome.exp(w.x[0]) <= 4, w.x <= 0, w.w >= 0)
        P = w.m.do_math()
        return {"w": w, "P": P, "before": S.snap(P)}
    run("rsome.ro:Model.do_math", "primal; dual; primal", setup_cache,
        lambda ns: (ns["w"].m.do_math(primal=False), ns["w"].m.do_math(), S.snap(ns["P"]))[2],
        [post("cached-primal-unchanged", lambda ns, res: not S.diff(ns["before"], res)),
         post("primal-is-still-the-cached-object", lambda ns, res: ns["w"].m.do_math() is ns["P"])])
    run("rsome.gcp:GCProg.to_socp", "to_socp does not write to the formula", setup_cache,
        lambda ns: (ns["P"].to_socp(), S.snap(ns["P"]))[1],
        [post("formula-unchanged-by-to_socp", lambda ns, res: not S.diff(ns["before"], res))])
    run("rsome.ro:Model.soc_solve", "soc_solve then solve", setup_cache,
        lambda ns: (ns["w"].m.soc_solve(Oracle, display=False), ns["w"].m.solve(Oracle, display=False), S.snap(ns["P"]))[2],
        [post("cached-primal-unchanged", lambda ns, res: not S.diff(ns["before"], res))])

    # (2b) a model whose constraints are all general-cone constraints is re-formulated after one more is added
    def setup_conly(c):
        m = ro.Model()
        x = m.dvar(2)
        m.min(rsome.exp(x[0]) + 0.0 if False else x.sum())
        m.st(rsome.exp(x) <= 5)
        F1 = canon(m.do_math())
        D1 = canon(m.do_math(primal=False))
        return {"m": m, "x": x, "F1": F1}

    def call_conly(ns):
        m, x = ns["m"], ns["x"]
        m.st(rsome.entropy(x) >= 0.2)
        inc = canon(m.do_math())
        incd = canon(m.do_math(primal=False))
        f = ro.Model()
        y = f.dvar(2)
        f.min(y.sum())
        f.st(rsome.exp(y) <= 5)
        f.st(rsome.entropy(y) >= 0.2)
        return inc, canon(f.do_math()), incd, canon(f.do_math(primal=False))
    run("rsome.gcp:Model.st", "exp-cone-only model: formulate, add an entropy constraint, formulate again", setup_conly, call_conly,
        [post("primal-reflects-the-added-constraint", lambda ns, res: not canon_diff(res[0], res[1])),
         post("dual-reflects-the-added-constraint", lambda ns, res: not canon_diff(res[2], res[3]))])

    # (3) an expression used inside an expectation / piecewise term keeps its meaning elsewhere
    def setup_share(c):
        m = dro.Model(2)
        x = m.dvar(2)
        z = m.rvar(2)
        e = x @ z + x[0]
        a = 2 * x[1] - 1
        return {"m": m, "e": e, "a": a, "se": S.snap(e, view=True), "sa": S.snap(a, view=True)}
    run("rsome.lp:ExpPiecewiseConvex.__init__", "E(maxof(e, a)) leaves e and a as they were", setup_share,
        lambda ns: (rsome.E(rsome.maxof(ns["e"], ns["a"])), S.snap(ns["e"], view=True), S.snap(ns["a"], view=True)),
        [post("bi-affine-piece-unchanged", lambda ns, res: not S.diff(ns["se"], res[1])),
         post("affine-piece-unchanged", lambda ns, res: not S.diff(ns["sa"], res[2]))])

    def setup_pw(c):
        m = ro.Model()
        x = m.dvar(2)
        z = m.rvar(2)
        e = x @ z + x[0]
        a = 2 * x[1] - 1
        return {"e": e, "a": a, "se": S.snap(e, view=True), "sa": S.snap(a, view=True)}
    run("rsome.math:maxof", "maxof/minof and their operators leave the pieces as they were", setup_pw,
        lambda ns: (-(2 * rsome.minof(ns["e"], ns["a"]) - 1) + ns["a"], S.snap(ns["e"], view=True), S.snap(ns["a"], view=True)),
        [post("pieces-unchanged", lambda ns, res: not S.diff(ns["se"], res[1]) and not S.diff(ns["sa"], res[2]))])

    # (4) operators do not change their operands' views (column padding is invisible)
    def setup_ops(c):
        m = ro.Model()
        x = m.dvar(2)
        a = 2 * x + 1
        y = m.dvar(3)                    # declared later: a has fewer columns than b
        b = y[:2] - 3
        return {"a": a, "b": b, "sa": S.snap(a, view=True), "sb": S.snap(b, view=True)}
    run("rsome.subroutines:add_linear", "a + b, concat, a <= b leave operands' views unchanged", setup_ops,
        lambda ns: (ns["a"] + ns["b"], lp.concat([ns["a"], ns["b"]]), ns["a"] <= ns["b"], ns["a"].concat(ns["b"]),
                    S.snap(ns["a"], view=True), S.snap(ns["b"], view=True)),
        [post("operands-unchanged", lambda ns, res: not S.diff(ns["sa"], res[4]) and not S.diff(ns["sb"], res[5]))])
    return out


# ----------------------------------------------------------------------------- dro histories

def dro_world(steps):
    m = dro.Model(2)
    x = m.dvar(2)
    w = m.dvar()
    z = m.rvar(2)
    fs = m.ambiguity()
    fs.suppset(z <= 1, z >= -1)
    fs.exptset(rsome.E(z) == 0)
    decl = {"x": x, "w": w, "z": z, "fs": fs, "m": m, "late": None}
    for s in steps:
        if s == "adapt":
            x.adapt(1)
        elif s == "affadapt":
            w.adapt(z[0])
        elif s == "obj":
            m.minsup(rsome.E(w + (x * z).sum()), fs)
        elif s == "probA":
            fs.probset(m.p == 0.5)
        elif s == "probB":
            fs.probset(m.p <= 0.75, m.p >= 0.125)
        elif s == "suppB":
            fs.suppset(z <= 2, z >= -0.5)               # re-declaring the support of all scenarios: the last declaration stands
        elif s == "supp1":
            fs[1].suppset(z <= 0.5, z >= -3)
        elif s == "expt1":
            fs[1].exptset(rsome.E(z) <= 0.25)
        elif s == "keq":
            # equalities of expectations, one without a random variable in its text (a DecLinConstr), one with (a DecRoConstr)
            m.st(rsome.E(w + x.sum()) == 1)
            m.st(rsome.E(x[0] * z[0] + w) == 0.5)
        elif s == "k1":
            m.st(x >= z - 1)
        elif s == "k2":
            m.st(rsome.E(rsome.maxof(x[0] * z[0], w)) <= 2)
        elif s == "k3":
            m.st(abs(w) <= 5)
        elif s == "late-var":
            v = m.dvar()
            decl["late"] = v
            m.st(v >= w, v <= 3)
        elif s == "do_math":
            m.do_math()
        elif s == "dual":
            m.do_math(primal=False)
        elif s == "solve":
            m.solve(Oracle, display=False)
        elif s == "solve-free":
            m.min(w)
            m.solve(Oracle, display=False)
            m.obj = None
    return decl


DRO_HISTORIES = [
    (["obj", "k1", "do_math", "adapt", "k3"], ["obj", "k1", "adapt", "k3"]),
    (["obj", "k1", "solve", "affadapt", "k3"], ["obj", "k1", "affadapt", "k3"]),
    (["adapt", "k3", "solve-free", "late-var", "obj", "k1"], ["adapt", "k3", "late-var", "obj", "k1"]),
    (["adapt", "obj", "k1", "do_math", "k2", "k3"], ["adapt", "obj", "k1", "k2", "k3"]),
    (["adapt", "obj", "k1", "solve", "k2", "solve", "k3"], ["adapt", "obj", "k1", "k2", "k3"]),
    (["obj", "k1", "k2", "do_math", "dual", "do_math"], ["obj", "k1", "k2"]),
    (["adapt", "obj", "k1", "solve", "late-var"], ["adapt", "obj", "k1", "late-var"]),
    (["obj", "k1", "do_math", "late-var", "k3", "dual"], ["obj", "k1", "late-var", "k3"]),
    (["obj", "k2", "solve", "k1", "late-var", "solve"], ["obj", "k2", "k1", "late-var"]),
    # re-declared parts of the ambiguity set: what was declared LAST is the set, whatever was declared before
    (["probA", "probB", "obj", "k1", "k2"], ["probB", "obj", "k1", "k2"]),
    (["probB", "probA", "obj", "k1"], ["probA", "obj", "k1"]),
    (["probA", "obj", "k1", "do_math", "probB", "k2"], ["probB", "obj", "k1", "k2"]),
    (["suppB", "obj", "k1", "k2"], ["suppB", "obj", "k1", "k2"]),
    (["supp1", "suppB", "obj", "k1"], ["suppB", "obj", "k1"]),
    (["suppB", "supp1", "probA", "obj", "k1", "solve", "probB", "k3"], ["suppB", "supp1", "probB", "obj", "k1", "k3"]),
    # a part of the ambiguity set changed AFTER a formulation / solve and nothing else declared afterwards: the next
    # formulation must see the changed set
    (["obj", "k1", "do_math", "suppB"], ["suppB", "obj", "k1"]),
    (["obj", "k1", "k2", "solve", "supp1"], ["supp1", "obj", "k1", "k2"]),
    (["obj", "k1", "do_math", "probB"], ["probB", "obj", "k1"]),
    (["obj", "k1", "k2", "solve", "expt1"], ["expt1", "obj", "k1", "k2"]),
    (["adapt", "obj", "k1", "dual", "do_math", "supp1", "probA"], ["adapt", "supp1", "probA", "obj", "k1"]),
    # equalities of expectations survive a formulation as equalities
    (["obj", "keq", "do_math", "k3"], ["obj", "keq", "k3"]),
    (["adapt", "obj", "keq", "k1", "solve", "dual", "k3"], ["adapt", "obj", "keq", "k1", "k3"]),
]


def run_dro_histories():
    out = []
    for inc, fresh in DRO_HISTORIES:
        def outcome(steps):
            try:
                return canon(dro_world(steps)["m"].do_math())
            except (ValueError, TypeError, SyntaxError, RuntimeError) as e:
                # declaring a variable after expressions with random terms were built is rejected by the
                # library (dimension mismatch): a loud failure, the same from scratch and incrementally
                return {"raised": type(e).__name__}

        def call(ns, inc=inc, fresh=fresh):
            return outcome(inc), outcome(fresh)
        obs, _ = check_function("rsome.dro:<history>", lambda c: {}, call,
                                [post("final-formulation-equals-from-scratch-build-or-history-is-rejected-loudly", lambda ns, res: (
                                    "raised" in res[0] or ("raised" not in res[1] and not canon_diff(res[0], res[1]))))],
                                mode="D", label=" ; ".join(inc), bounded=True, replay=None)
        out += obs
    return out


def jobs(tier):
    seed = int(os.environ.get("VERIF_SEED", "0") or 0)
    hs = ro_histories(tier, seed)
    js = []
    n = 8 if tier == "quick" else 48
    for i in range(n):
        js.append({"name": f"ro-histories-{i}", "kind": "ro", "histories": [[list(o) for o in h] for h in hs[i::n]]})
    js += [{"name": "frames", "kind": "frames"}, {"name": "dro-histories", "kind": "dro"}, {"name": "layer-histories", "kind": "layers"}]
    return js


def run_job(job):
    if job["kind"] == "ro":
        return run_ro_histories([[tuple(o) for o in h] for h in job["histories"]])
    if job["kind"] == "frames":
        return frames()
    if job["kind"] == "layers":
        return layer_histories()
    if job["kind"] == "dro":
        return run_dro_histories()
    raise ValueError(job["kind"])
