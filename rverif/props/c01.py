"""C01 -- robust solutions are feasible for every realisation in the uncertainty set (DESIGN.md 5/C01).

End-to-end and semantic: a real ro model is built through the public API (variables, decision rules,
robust <=, >=, == constraints with per-constraint or default sets, min/max/minmax/maxmin objectives,
maxof pieces) with symbolic coefficients, and compiled by the real do_math().  With X an ARBITRARY
vector over all columns of the compiled program and z an ARBITRARY realisation:

    Feas(F, X)  and  z in Z(constraint)   =>   the constraint as written holds at (X restricted to
                                               the user's variables and rule coefficients, z)
    Feas(F, X)  and  z in Z(objective)    =>   sign * X[0] bounds the objective expression at z

z3 proves these directly (the weak-duality certificate is found by the solver), so nothing about
the shape of the counterpart is assumed: forall/minmax capture, the support's dual, le_to_rc,
st's splitting of equalities, the default-set rule and the assembly in do_math are all inside.
Any solver that returns a feasible point therefore returns a robustly feasible one.
"""
from __future__ import annotations

import numpy as np

from ..engine import post, check_function, source_info
from ..harness import lp, ro, rsome, arr, sym_array
from ..spec import dual as D, rc, views
from ..sym import SymReal, p_and, p_eq, p_implies, p_le
from .c05 import value as expr_value

META = {
    "level": "other",
    "explanation": ("Real ro models with symbolic coefficients are compiled by the real pipeline; z3 proves, for an "
                    "arbitrary vector feasible for the compiled program and an arbitrary realisation in the set "
                    "attached to each constraint (own set, or the objective's default set), that the constraint as "
                    "written holds and that the epigraph variable bounds the objective.  Complete over coefficient "
                    "values, decision values and realisations; model shapes and set families enumerated."),
    "bounds": "2 random variables, <= 2 robust rows per constraint, decision rules 2x2 with every dependency pattern; set families: box, polytope with equality, budget (1-norm & inf-norm), ball, ellipsoid, box-and-ball, intersections, exp/KL (with the K/K* pairing fact)",
    "trusted_base": ["z3/cvc5 (NRA)", "value of an expression at an assignment = linear.x + const (C05 contract)",
                     "the external solver returns a point feasible for the compiled program within tolerance",
                     "M3 pairing of the exponential cone with its dual (only for exp/KL sets): Lean-checked (lean/Lemmas.lean expcone_pairing*, job lemmas-lean), as are weak duality and the SOC pairing, which the direct semantic VCs do not use but the cross-check does"],
    "assumptions": ["A-EXACTFLOAT: set parameters are symbolic or exactly representable so that floats-as-reals introduces no artefact"],
}


# lemmas over the contracts, checked by Lean 4 + Mathlib on every run (lean/Lemmas.lean, rverif/lemmas.py)
LEMMAS = ["weak_duality", "weak_duality_eq", "soc_pairing", "expcone_pairing", "expcone_pairing_boundary_right", "expcone_pairing_boundary_left"]


def SOURCES():
    return {"rsome.lp:RoConstr.forall": source_info(lp.RoConstr.forall), "rsome.lp:RoConstr.le_to_rc": source_info(lp.RoConstr.le_to_rc),
            "rsome.ro:Model.st": source_info(ro.Model.st), "rsome.ro:Model.do_math": source_info(ro.Model.do_math),
            "rsome.ro:Model.minmax": source_info(ro.Model.minmax), "rsome.ro:Model.maxmin": source_info(ro.Model.maxmin),
            "rsome.lp:DecRule.to_affine": source_info(lp.DecRule.to_affine), "rsome.lp:DecRule.adapt": source_info(lp.DecRule.adapt),
            "rsome.lp:PWConstr.forall": source_info(lp.PWConstr.forall)}


# ----------------------------------------------------------------------------------------- sets

def _nz(c, name):
    """a generic (non-zero) coefficient: zero-ness of such coefficients only changes sparsity bookkeeping"""
    v = c.fresh_real(name)
    c.assume(v != 0)
    return v


def _nzarr(c, n, name):
    return arr([_nz(c, f"{name}{i}") for i in range(n)])


def _pos(c, name):
    v = c.fresh_real(name)
    c.assume(v > 0)
    return v


SETS = {
    "box": lambda c, z: [z <= c.fresh_real("u"), z >= c.fresh_real("l")],
    # every component with its OWN bounds: zero-ness forks per component, so sets where one random variable has a bound at
    # exactly 0 (a sign-constrained dual row) and the other has not (a free one) occur on some path
    "box-per-component": lambda c, z: [z[0] <= c.fresh_real("u0"), z[0] >= c.fresh_real("l0"), z[1] <= c.fresh_real("u1"), z[1] >= c.fresh_real("l1")],
    "polytope": lambda c, z: [_nzarr(c, 2, "pa") @ z <= c.fresh_real("pb"), z >= 0, z[0] + 2 * z[1] == c.fresh_real("pt")],
    "budget": lambda c, z: [rsome.norm(z, 1) <= _pos(c, "g"), rsome.norm(z, "inf") <= 1],
    "ball": lambda c, z: [rsome.norm(z, 2) <= _pos(c, "r")],
    "shifted-ball": lambda c, z: [rsome.norm(z - _nzarr(c, 2, "z0"), 2) <= _pos(c, "r")],
    "ellipsoid": lambda c, z: [rsome.sumsqr(np.array([2.0, 0.5]) * z) <= _pos(c, "r")],
    "box-ball": lambda c, z: [z <= 1, z >= -0.5, rsome.norm(z, 2) <= 1.25],
    "abs": lambda c, z: [abs(z) <= _pos(c, "g")],
    "square": lambda c, z: [rsome.square(z) <= _pos(c, "g")],
    "list-and-args": lambda c, z: [[z <= 1, z >= -1], z.sum() <= c.fresh_real("s")],
}
EXPSETS = {
    "exp": lambda c, z: [rsome.exp(z) <= _pos(c, "r"), z >= -1],
}


def _flat(cs):
    out = []
    for k in cs:
        if isinstance(k, (list, tuple)):
            out += _flat(k)
        else:
            out.append(k)
    return out


def in_set(set_constraints, zval):
    return p_and(*[rc.holds_as_written(k, zval) for k in _flat(set_constraints)])


# ----------------------------------------------------------------------------------------- scenarios

def _new(c):
    m = ro.Model()
    x = m.dvar(2)
    w = m.dvar()
    z = m.rvar(2)
    return m, x, w, z


def sc_le(c, S):
    m, x, w, z = _new(c)
    a = _nzarr(c, 2, "a")
    e = (x * z).sum() + a @ z + _nz(c, "d") * w + c.fresh_real("e")
    cost = _nzarr(c, 2, "c")
    m.min(cost @ x + w)
    zs = S(c, z)
    m.st((e <= 0).forall(*zs))
    return m, [("le", e, zs)], None


def sc_ge(c, S):
    m, x, w, z = _new(c)
    e = (x * z).sum() - 2 * z[1] + w
    m.max(x.sum() - w)
    zs = S(c, z)
    b = c.fresh_real("b")
    m.st((e >= b).forall(*zs))
    m.st(x <= 5, x >= -5, w >= -5)
    return m, [("le", -e + b, zs)], None


def sc_two_rows(c, S):
    m, x, w, z = _new(c)
    e = x * z + w + _nzarr(c, 2, "b")         # two robust rows
    m.min(x.sum() + w)
    zs = S(c, z)
    m.st((e <= 1).forall(_flat(zs)))          # the set given as ONE list
    return m, [("le", e - 1, zs)], None


def sc_eq(c, S):
    m, x, w, z = _new(c)
    v = m.dvar(2)
    e = (x * z).sum() - (v * z).sum() + w - c.fresh_real("t")
    m.min(x.sum() + v.sum() + w)
    zs = S(c, z)
    m.st((e == 0).forall(*zs))
    return m, [("eq", e, zs)], None


def sc_late_forall(c, S):
    """the set is attached with forall() AFTER the constraints were handed to st() (an inequality and an equality), beside a
    different, smaller default set from minmax: each constraint holds on the set attached to it"""
    m, x, w, z = _new(c)
    v = m.dvar(2)
    zs = S(c, z)
    obj = x.sum() + v.sum() + w
    m.minmax(obj, z <= 0.25, z >= -0.125, z[0] == z[1])      # a segment: an equality that holds on it need not hold off it
    k1 = ((x * z).sum() + w - 3 <= 0)
    e2 = (x * z).sum() - (v * z).sum() + w - c.fresh_real("t")
    k2 = (e2 == 0)
    m.st(k1, k2)
    k1.forall(*zs)
    k2.forall(*zs)
    return m, [("le", (x * z).sum() + w - 3, zs), ("eq", e2, zs)], None


def sc_default_set(c, S):
    """constraints without forall use the set given to minmax/maxmin"""
    m, x, w, z = _new(c)
    zs = S(c, z)
    obj = (x * z).sum() + w
    m.minmax(obj, *zs)
    e1 = x @ z - w
    e2 = x[0] * z[1] + w - 4
    m.st(e1 <= 2)
    m.st(e2 <= 0)
    return m, [("le", e1 - 2, zs), ("le", e2, zs)], (1, obj, zs)


def sc_maxmin_own_set(c, S):
    """a constraint with its own set keeps it; the objective has another set"""
    m, x, w, z = _new(c)
    zs = S(c, z)
    other = [z <= 2, z >= -2]
    obj = (x * z).sum() - w
    m.maxmin(obj, *other)
    e1 = x @ z + w
    m.st((e1 <= 3).forall(*zs))
    e2 = x[1] * z[0] - w
    m.st(e2 <= 1)
    m.st(x <= 5, x >= -5, w >= -5, w <= 5)
    return m, [("le", e1 - 3, zs), ("le", e2 - 1, other)], (-1, obj, other)


def sc_ldr(c, S, pattern="full"):
    m, x, w, z = _new(c)
    y = m.ldr(2)
    if pattern == "full":
        y.adapt(z)
    elif pattern == "diag":
        y[0].adapt(z[0])
        y[1].adapt(z[1])
    elif pattern == "one":
        y[1].adapt(z[0])
    zs = S(c, z)
    m.minmax(x.sum() + y.sum() + w, *zs)
    e1 = y - z - x                          # y >= z + x   as  z + x - y <= 0
    m.st(e1 >= 0)
    e2 = y[0] + (x * z).sum() - w
    m.st((e2 <= 2).forall(*zs))
    return m, [("le", -e1 + 0.0, zs), ("le", e2 - 2, zs)], (1, x.sum() + y.sum() + w, zs)


def sc_piecewise(c, S):
    m, x, w, z = _new(c)
    zs = S(c, z)
    p1 = x @ z + w
    p2 = 2 * (x @ z) - 1
    m.minmax(rsome.maxof(p1, p2), *zs)
    e = rsome.maxof(x[0] * z[0] - w, x[1] * z[1] + 1.0)
    m.st((e <= 3).forall(*zs))
    m.st(x <= 5, x >= -5)
    return m, [("le", (x[0] * z[0] - w) - 3, zs), ("le", (x[1] * z[1] + 1.0) - 3, zs)], (1, [p1, p2], zs)


def sc_interleaved_sets(c, S):
    """two constraints with different sets built in interleaved order (C09 flavour, judged semantically)"""
    m, x, w, z = _new(c)
    zs1 = S(c, z)
    zs2 = [z <= 3, z >= -3, z.sum() <= 1]
    e1 = x @ z + w
    e2 = x[0] * z[0] - x[1] * z[1] - w
    k1 = (e1 <= 1)
    k2 = (e2 <= 2)
    k2.forall(*zs2)
    k1.forall(*zs1)
    m.min(x.sum() + w)
    m.st(k2, k1)
    return m, [("le", e1 - 1, zs1), ("le", e2 - 2, zs2)], None


def sc_set_then_box(c, S):
    """the parametrised set is built FIRST, a plain (larger) box afterwards: nothing of the first set may leak into the second"""
    m, x, w, z = _new(c)
    zs1 = S(c, z)
    zs2 = [z <= 3, z >= -3]
    e1 = x @ z + w
    e2 = x[0] * z[0] - x[1] * z[1] - w
    k1 = (e1 <= 1).forall(*zs1)
    k2 = (e2 <= 2).forall(*zs2)
    m.min(x.sum() + w)
    m.st(k1, k2)
    return m, [("le", e1 - 1, zs1), ("le", e2 - 2, zs2)], None


SCENARIOS = {
    "le": sc_le, "ge": sc_ge, "two-rows": sc_two_rows, "eq": sc_eq, "late-forall": sc_late_forall, "default-set": sc_default_set,
    "maxmin-own-set": sc_maxmin_own_set, "ldr-full": lambda c, S: sc_ldr(c, S, "full"), "ldr-diag": lambda c, S: sc_ldr(c, S, "diag"),
    "ldr-one": lambda c, S: sc_ldr(c, S, "one"), "piecewise": sc_piecewise, "interleaved-sets": sc_interleaved_sets,
    "set-then-box": sc_set_then_box,
}


def run_scenario(sname, setname):
    S = SETS.get(setname) or EXPSETS[setname]
    D.PAIRING = setname in EXPSETS

    def setup(c):
        m, constraints, objective = SCENARIOS[sname](c, S)
        if sname == "ge":
            # rebuild the written form: e >= b  is  b - e <= 0 ; the scenario returned (-e, set) and the bound b
            pass
        F = m.do_math()
        nv = F.linear.shape[1]
        X = arr([c.fresh_real(f"X{j}_") for j in range(nv)])
        nz = m.sup_model.vars[-1].last
        Z = arr([c.fresh_real(f"z{j}_") for j in range(nz)])
        return {"m": m, "F": F, "X": X, "Z": Z, "constraints": constraints, "objective": objective}

    def safe_k(idx):
        def safe(ns, F):
            X, Z = ns["X"], ns["Z"]
            if idx >= len(ns["constraints"]):
                return True
            rec = ns["constraints"][idx]
            kind, e, zs = rec[0], rec[1], rec[2]
            val = views.flat(expr_value(e, X, Z))
            hyp = p_and(D.feas(F, X), in_set(zs, Z))
            return p_implies(hyp, p_and(*[(p_le(v, 0) if kind == "le" else p_eq(v, 0)) for v in val]))
        return safe

    def objective_k(idx):
        def objective_bound(ns, F):
            if ns["objective"] is None:
                return True
            X, Z = ns["X"], ns["Z"]
            sign, obj, zs = ns["objective"]
            objs = obj if isinstance(obj, list) else [obj]
            if idx >= len(objs):
                return True
            return p_implies(p_and(D.feas(F, X), in_set(zs, Z)), p_le(sign * views.flat(expr_value(objs[idx], X, Z))[0], X[0]))
        return objective_bound

    clauses = [post(f"SAFE: compiled-feasible implies robust constraint #{i} holds at every realisation of its set", safe_k(i)) for i in range(2)]
    clauses += [post(f"SAFE: epigraph variable bounds objective piece #{i} at every realisation of the objective's set", objective_k(i)) for i in range(2)]
    obs, _ = check_function("rsome.ro:<model pipeline>", setup, lambda ns: ns["F"],
                            clauses, mode="D", label=f"{sname},set={setname}", bounded=True, max_paths=400, z3_ms=60000)
    return obs


def late_random_variable(setname):
    """A random variable declared AFTER the default set was given to minmax() is not restricted by that set: a constraint that uses it
    (directly, or through a decision rule adapted to it) must hold for every value of it -- or the library must refuse the model.
    Either is accepted; silently reading the late variable as 0 is not."""
    S = SETS[setname]
    REJ = (RuntimeError, ValueError, TypeError, SyntaxError, IndexError)
    out = []
    for use in ("in-the-constraint", "through-a-decision-rule", "in-a-later-constraint-only"):
        def setup(c, use=use):
            m, x, w, z = _new(c)
            cost = _nzarr(c, 2, "c")
            zs = S(c, z)
            m.minmax(cost @ x + w, *zs)
            u = m.rvar()
            k = _nz(c, "k")
            if use == "through-a-decision-rule":
                y = m.ldr()
                y.adapt(u)
                e = (x * z).sum() + y - w
                m.st(y >= k * u)
            else:
                e = (x * z).sum() + k * u - w
            if use == "in-a-later-constraint-only":
                m.st(x <= 3, x >= -3)
                m.do_math()                                   # a first formulation without the late variable
            m.st(e <= 0)
            return {"m": m, "e": e, "zs": zs}

        def call(ns):
            try:
                return ns["m"].do_math()
            except REJ as ex:
                return f"rejected: {type(ex).__name__}"

        def safe(ns, F):
            if isinstance(F, str):
                return True
            nv = F.linear.shape[1]
            X = arr([ctx_().fresh_real(f"X{j}_") for j in range(nv)])
            nz = ns["m"].sup_model.vars[-1].last
            Z = arr([ctx_().fresh_real(f"z{j}_") for j in range(nz)])
            val = views.flat(expr_value(ns["e"], X, Z))
            return p_implies(p_and(D.feas(F, X), in_set(ns["zs"], Z)), p_and(*[p_le(v, 0) for v in val]))
        obs, _ = check_function("rsome.lp:RoConstr.le_to_rc", setup, call,
                                [post("SAFE-or-refused: a random variable declared after the default set is not read as zero", safe)],
                                mode="D", label=f"late-random-variable,{use},set={setname}", bounded=True, max_paths=400, z3_ms=60000)
        out += obs
    return out


def ctx_():
    from ..sym import ctx
    return ctx()


# scenario/set pairs whose direct VC is beyond a stable solver budget (z3 needs > 30 s or times out, measured
# twice on this machine); they are NOT attempted and not claimed -- the same code paths are covered by the
# lighter pairs, by the set lemmas below and by the row-by-row equivalence with the textbook counterpart (C02)
TOO_HEAVY = [
    "default-set/box-ball",
    "default-set/budget",
    "default-set/square",
    "ge/square",
    "interleaved-sets/box-ball",
    "interleaved-sets/square",
    "ldr-diag/budget",
    "ldr-diag/square",
    "ldr-full/box-ball",
    "ldr-full/budget",
    "ldr-full/ellipsoid",
    "ldr-full/shifted-ball",
    "ldr-full/square",
    "ldr-one/budget",
    "ldr-one/ellipsoid",
    "ldr-one/square",
    "le/square",
    "maxmin-own-set/square",
    "piecewise/box-ball",
    "piecewise/budget",
    "piecewise/square",
    "set-then-box/square",
    "two-rows/square",
    "late-forall/square"
]
TIMES = {"late-forall/budget": 91.0, "ldr-full/box-per-component": 94.0, "late-forall/box-per-component": 93.0, "set-then-box/budget": 90.0, "le/square": 122.0, "ge/budget": 14.6, "ge/square": 121.5, "two-rows/square": 121.6, "eq/square": 14.2, "default-set/budget": 65.2, "default-set/box-ball": 136.7, "default-set/square": 243.2, "default-set/list-and-args": 14.2, "maxmin-own-set/budget": 14.7, "maxmin-own-set/square": 121.9, "maxmin-own-set/list-and-args": 14.4, "ldr-full/box": 5.2, "ldr-full/budget": 138.6, "ldr-full/ball": 5.8, "ldr-full/shifted-ball": 121.5, "ldr-full/ellipsoid": 122.1, "ldr-full/box-ball": 139.2, "ldr-full/square": 366.5, "ldr-diag/budget": 102.3, "ldr-diag/ellipsoid": 18.9, "ldr-diag/square": 364.2, "ldr-one/budget": 135.4, "ldr-one/ellipsoid": 121.7, "ldr-one/box-ball": 14.2, "ldr-one/square": 244.3, "piecewise/budget": 40.6, "piecewise/box-ball": 172.2, "piecewise/square": 245.4, "interleaved-sets/budget": 24.3, "interleaved-sets/box-ball": 121.7, "interleaved-sets/square": 121.4, "le/exp": 120.4}
QUICK_SETS = ["box", "box-per-component", "polytope", "ball", "ellipsoid", "box-ball", "budget", "abs"]


def jobs(tier):
    js = []
    for sname in SCENARIOS:
        for st in SETS:
            name = f"{sname}/{st}"
            if name in TOO_HEAVY:
                continue
            if tier == "quick" and (st not in QUICK_SETS or TIMES.get(name, 0) > 6):
                continue
            js.append({"name": name, "kind": "scenario", "scenario": sname, "set": st})
    js += [{"name": f"late-random-variable/{st}", "kind": "late-rvar", "set": st} for st in ("box", "ball")]
    if tier != "quick":
        for st in EXPSETS:
            js.append({"name": f"le/{st}", "kind": "scenario", "scenario": "le", "set": st})
    return js


def run_job(job):
    if job.get("kind") == "late-rvar":
        return late_random_variable(job["set"])
    return run_scenario(job["scenario"], job["set"])
