"""C06 / C07 -- every accepted constraint and the objective are enforced as written (SOUND, C06),
and the conic encodings are exact (EXACT, C07)  (DESIGN.md 5/C06, C07).

A real model with one symbolic constraint  k * atom(a.x + b) <= d.x + e  (or an objective) is
compiled by the real primal do_math of the lp/socp/gcp layers.  With X an arbitrary vector over all
columns (user and auxiliary):
  SOUND  Feas(F, X)            =>  the constraint as written holds at X restricted to the user columns
  EXACT  constraint holds at x  =>  Feas(F, (x, W(x)))  for the ghost witness W of the auxiliary columns
Second-order atoms are judged in real arithmetic (NRA); exponential-cone atoms through the
uninterpreted cone predicate KEXP (the atom's textbook cone form is its meaning), so wiring, order
and sign errors are caught while exp itself stays abstract.
"""
from __future__ import annotations

import math

import numpy as np

from ..engine import post, check_function, source_info
from ..harness import lp, socp, gcp, ro, dro, rsome, arr, sym_array
from ..spec import atoms, dual as D, views
from ..sym import SymReal, p_and, p_eq, p_implies, p_le, p_max, p_or, ctx

META = {
    "level": "other",
    "explanation": ("lp/socp/gcp Model.st and the primal do_math are executed on models with one symbolic constraint "
                    "or objective per atom; z3 discharges SOUND (every point feasible for the compiled rows, bounds "
                    "and cones satisfies the user's constraint / bounds the user's objective) and EXACT (every user "
                    "point satisfying the constraint extends to a feasible point through a ghost witness).  Complete "
                    "over coefficient values, multipliers, offsets and the point; argument length <= 2-3."),
    "bounds": "atom argument length 2 (vector atoms) / 2 elements (element-wise atoms); one constraint per model plus bounds",
    "trusted_base": ["z3/cvc5 (NRA + EUF)", "M5: the textbook cone forms of exp/log/plog/entropy/softplus/KL on the interior of the cone: Lean-checked (lean/Lemmas.lean cone_form_*, job lemmas-lean); the closure c = 0 is not examined", "ShimCSR, NumPy on object arrays"],
    "assumptions": ["A-UFEXP: exponential-cone atoms are judged through an uninterpreted cone predicate",
                    "p-norm/power/geometric-mean: call-site contracts here, the tower lemma itself in C07; 'N' p-norms via exponential cones only through a sampled numerical stand-in (ECOS); not covered: log-det/root-det LMIs"],
}


# lemmas over the contracts, checked by Lean 4 + Mathlib on every run (lean/Lemmas.lean, rverif/lemmas.py)
LEMMAS = ["cone_form_exp", "cone_form_log", "cone_form_plog", "cone_form_entropy", "cone_form_kl", "cone_form_softplus"]


def SOURCES():
    return {"rsome.lp:Model.st": source_info(lp.Model.st), "rsome.socp:Model.st": source_info(socp.Model.st),
            "rsome.gcp:Model.st": source_info(gcp.Model.st), "rsome.lp:Model.do_math": source_info(lp.Model.do_math),
            "rsome.socp:Model.do_math": source_info(socp.Model.do_math), "rsome.gcp:Model.do_math": source_info(gcp.Model.do_math),
            "rsome.ro:Model.do_math": source_info(ro.Model.do_math)}


# --------------------------------------------------------------------------- the constraint as written

def K(a, b, c):
    return D.exp_holds(a, b, c)


def lin(c, x, n, name):
    a = sym_array(c, (n,), name + "a")
    b = sym_array(c, (n,), name + "b")
    return a * x + b, (lambda xv: a * xv + b)


class Case:
    """builds the rsome constraint and gives its meaning as written (a predicate on user values)."""

    def __init__(self, name, build, exact=True):
        self.name, self.build, self.exact = name, build, exact


def _rhs(c, x, shape):
    d = c.fresh_real("d")
    e = c.fresh_real("e")
    if shape == ():
        return d * x[0] + e, (lambda xv: d * xv[0] + e)
    return d * x + e, (lambda xv: d * xv + e)


def _mult(c):
    k = c.fresh_real("k")
    c.assume(k > 0)
    return k


def _sumsq(v):
    return sum((t * t for t in v), 0.0)


CASES = {}


def case(name, exact=True):
    def deco(f):
        CASES[name] = Case(name, f, exact)
        return f
    return deco


@case("abs")
def _(c, m, x):
    e, ev = lin(c, x, 2, "in")
    r, rv = _rhs(c, x, (2,))
    k = _mult(c)
    return k * abs(e) <= r, lambda xv, aux: views.all_le(k * np.array([abs(t) for t in ev(xv)], dtype=object), rv(xv))


@case("norm1")
def _(c, m, x):
    e, ev = lin(c, x, 2, "in")
    r, rv = _rhs(c, x, ())
    k = _mult(c)
    return k * rsome.norm(e, 1) <= r, lambda xv, aux: p_le(k * sum((abs(t) for t in ev(xv)), 0.0), rv(xv))


@case("norminf")
def _(c, m, x):
    e, ev = lin(c, x, 2, "in")
    r, rv = _rhs(c, x, ())
    k = _mult(c)
    return k * rsome.norm(e, "inf") <= r, lambda xv, aux: p_le(k * views.smax_list([abs(t) for t in ev(xv)]), rv(xv))


@case("norm2")
def _(c, m, x):
    e, ev = lin(c, x, 2, "in")
    r, rv = _rhs(c, x, ())
    k = _mult(c)
    # k*||v|| <= t   <=>   t >= 0 and k^2 sum v^2 <= t^2
    return k * rsome.norm(e, 2) <= r, lambda xv, aux: p_and(p_le(0, rv(xv)), p_le(k * k * _sumsq(ev(xv)), rv(xv) * rv(xv)))


@case("square")
def _(c, m, x):
    e, ev = lin(c, x, 2, "in")
    r, rv = _rhs(c, x, (2,))
    k = _mult(c)
    return k * rsome.square(e) <= r, lambda xv, aux: views.all_le(k * ev(xv) * ev(xv), rv(xv))


@case("sumsqr")
def _(c, m, x):
    e, ev = lin(c, x, 2, "in")
    r, rv = _rhs(c, x, ())
    k = _mult(c)
    return k * rsome.sumsqr(e) <= r, lambda xv, aux: p_le(k * _sumsq(ev(xv)), rv(xv))


@case("quad")
def _(c, m, x):
    r, rv = _rhs(c, x, ())
    Q = np.array([[4.0, 0.0], [0.0, 0.25]])      # square roots are exact binary floats
    return rsome.quad(x, Q) <= r, lambda xv, aux: p_le(4.0 * xv[0] * xv[0] + 0.25 * xv[1] * xv[1], rv(xv))


@case("quad-nonsymmetric")
def _(c, m, x):
    # x'Qx depends only on the symmetric part of Q: here diag(4, 0.25) (the skew part cancels), whose square root is exact
    r, rv = _rhs(c, x, ())
    Q = np.array([[4.0, 1.0], [-1.0, 0.25]])
    return rsome.quad(x, Q) <= r, lambda xv, aux: p_le(4.0 * xv[0] * xv[0] + 0.25 * xv[1] * xv[1], rv(xv))


@case("rsocone")
def _(c, m, x):
    e, ev = lin(c, x, 2, "in")
    y = m.dvar()
    z = m.dvar()
    # sum(v^2) <= y*z, y >= 0, z >= 0
    return rsome.rsocone(e, y, z), lambda xv, aux, yi=y.first, zi=z.first: p_and(
        p_le(_sumsq(ev(xv)), aux[yi] * aux[zi]), p_le(0, aux[yi]), p_le(0, aux[zi]))


@case("fnorm of two arrays", exact=False)
def _(c, m, x):
    e, ev = lin(c, x, 2, "in")
    f, fv = lin(c, x, 2, "fn")
    r, rv = _rhs(c, x, ())
    # || (e, f as a 2x1 block) ||_F <= t   <=>   t >= 0 and sum e^2 + sum f^2 <= t^2
    return rsome.fnorm(e, f.reshape((2, 1))) <= r, lambda xv, aux: p_and(p_le(0, rv(xv)), p_le(_sumsq(ev(xv)) + _sumsq(fv(xv)), rv(xv) * rv(xv)))


@case("sumsqr of two arrays", exact=False)
def _(c, m, x):
    e, ev = lin(c, x, 2, "in")
    f, fv = lin(c, x, 2, "fn")
    r, rv = _rhs(c, x, ())
    return rsome.sumsqr(e, f[0]) <= r, lambda xv, aux: p_le(_sumsq(ev(xv)) + fv(xv)[0] * fv(xv)[0], rv(xv))


@case("rsocone of a collection", exact=False)
def _(c, m, x):
    e, ev = lin(c, x, 2, "in")
    f, fv = lin(c, x, 2, "fn")
    y = m.dvar()
    z = m.dvar()
    return rsome.rsocone([e, f[1:]], y, z), lambda xv, aux, yi=y.first, zi=z.first: p_and(
        p_le(_sumsq(ev(xv)) + fv(xv)[1] * fv(xv)[1], aux[yi] * aux[zi]), p_le(0, aux[yi]), p_le(0, aux[zi]))


@case("concave-abs-ge")
def _(c, m, x):
    e, ev = lin(c, x, 2, "in")
    r, rv = _rhs(c, x, (2,))
    k = _mult(c)
    # r >= k|v|  written with the concave side:  -k|v| >= -r
    return -k * abs(e) >= -r, lambda xv, aux: views.all_le(k * np.array([abs(t) for t in ev(xv)], dtype=object), rv(xv))


@case("exp")
def _(c, m, x):
    e, ev = lin(c, x, 2, "in")
    r, rv = _rhs(c, x, (2,))
    k = _mult(c)
    # k*exp(v) <= t  <=>  (v, t/k, 1) in K_exp
    return k * rsome.exp(e) <= r, lambda xv, aux: p_and(*[K(v, t / k, 1.0) for v, t in zip(ev(xv), rv(xv))])


@case("log")
def _(c, m, x):
    e, ev = lin(c, x, 2, "in")
    r, rv = _rhs(c, x, (2,))
    k = _mult(c)
    # k*log(v) >= t  <=>  (t/k, v, 1) in K_exp
    return k * rsome.log(e) >= r, lambda xv, aux: p_and(*[K(t / k, v, 1.0) for v, t in zip(ev(xv), rv(xv))])


@case("pexp")
def _(c, m, x):
    e, ev = lin(c, x, 2, "in")
    s, sv = lin(c, x, 2, "sc")
    r, rv = _rhs(c, x, (2,))
    # s*exp(v/s) <= t  <=>  (v, t, s) in K_exp
    return rsome.pexp(e, s) <= r, lambda xv, aux: p_and(*[K(v, t, s_) for v, t, s_ in zip(ev(xv), rv(xv), sv(xv))])


@case("plog")
def _(c, m, x):
    e, ev = lin(c, x, 2, "in")
    s, sv = lin(c, x, 2, "sc")
    r, rv = _rhs(c, x, (2,))
    # s*log(v/s) >= t  <=>  (t, v, s) in K_exp
    return rsome.plog(e, s) >= r, lambda xv, aux: p_and(*[K(t, v, s_) for v, t, s_ in zip(ev(xv), rv(xv), sv(xv))])


@case("expcone")
def _(c, m, x):
    e, ev = lin(c, x, 2, "in")
    y = m.dvar()
    return rsome.expcone(y, e[0], e[1]), lambda xv, aux, yi=y.first: K(ev(xv)[0], aux[yi], ev(xv)[1])


# ---- the same atoms scaled and used on the REFLECTED side (affine >= k*convex, affine <= k*concave): these go
# ---- through Affine.__ge__/__le__, the expression's __rsub__/__neg__ and must keep the multiplier
@case("abs-scaled-reflected")
def _(c, m, x):
    e, ev = lin(c, x, 2, "in")
    r, rv = _rhs(c, x, (2,))
    k = _mult(c)
    return r >= k * abs(e), lambda xv, aux: views.all_le(k * np.array([abs(t) for t in ev(xv)], dtype=object), rv(xv))


@case("norm2-scaled-reflected")
def _(c, m, x):
    e, ev = lin(c, x, 2, "in")
    r, rv = _rhs(c, x, ())
    k = _mult(c)
    return r >= k * rsome.norm(e, 2), lambda xv, aux: p_and(p_le(0, rv(xv)), p_le(k * k * _sumsq(ev(xv)), rv(xv) * rv(xv)))


@case("sumsqr-scaled-reflected-offset")
def _(c, m, x):
    e, ev = lin(c, x, 2, "in")
    r, rv = _rhs(c, x, ())
    k = _mult(c)
    o = c.fresh_real("o")
    return r - o >= k * rsome.sumsqr(e) - 2 * o, lambda xv, aux: p_le(k * _sumsq(ev(xv)) - 2 * o, rv(xv) - o)


@case("exp-scaled-reflected")
def _(c, m, x):
    e, ev = lin(c, x, 2, "in")
    r, rv = _rhs(c, x, (2,))
    k = _mult(c)
    return r >= k * rsome.exp(e), lambda xv, aux: p_and(*[K(v, t / k, 1.0) for v, t in zip(ev(xv), rv(xv))])


@case("log-scaled-reflected")
def _(c, m, x):
    e, ev = lin(c, x, 2, "in")
    r, rv = _rhs(c, x, (2,))
    k = _mult(c)
    return r <= k * rsome.log(e), lambda xv, aux: p_and(*[K(t / k, v, 1.0) for v, t in zip(ev(xv), rv(xv))])


@case("pexp-scaled")
def _(c, m, x):
    e, ev = lin(c, x, 2, "in")
    s, sv = lin(c, x, 2, "sc")
    r, rv = _rhs(c, x, (2,))
    k = _mult(c)
    return k * rsome.pexp(e, s) <= r, lambda xv, aux: p_and(*[K(v, t / k, s_) for v, t, s_ in zip(ev(xv), rv(xv), sv(xv))])


@case("pexp-scaled-reflected")
def _(c, m, x):
    e, ev = lin(c, x, 2, "in")
    s, sv = lin(c, x, 2, "sc")
    r, rv = _rhs(c, x, (2,))
    k = _mult(c)
    return r >= k * rsome.pexp(e, s), lambda xv, aux: p_and(*[K(v, t / k, s_) for v, t, s_ in zip(ev(xv), rv(xv), sv(xv))])


@case("plog-scaled-reflected")
def _(c, m, x):
    e, ev = lin(c, x, 2, "in")
    s, sv = lin(c, x, 2, "sc")
    r, rv = _rhs(c, x, (2,))
    k = _mult(c)
    return r <= k * rsome.plog(e, s), lambda xv, aux: p_and(*[K(t / k, v, s_) for v, t, s_ in zip(ev(xv), rv(xv), sv(xv))])


@case("plog-scaled-negated-twice")
def _(c, m, x):
    e, ev = lin(c, x, 2, "in")
    s, sv = lin(c, x, 2, "sc")
    r, rv = _rhs(c, x, (2,))
    k = _mult(c)
    return -(-(k * rsome.plog(e, s))) >= r, lambda xv, aux: p_and(*[K(t / k, v, s_) for v, t, s_ in zip(ev(xv), rv(xv), sv(xv))])


@case("exp-sum", exact=False)
def _(c, m, x):
    e, ev = lin(c, x, 2, "in")
    r, rv = _rhs(c, x, ())
    # sum_i exp(v_i) <= t   <=>   exists u: sum u <= t, (v_i, u_i, 1) in K_exp
    return rsome.exp(e).sum() <= r, ("expsum", ev, rv)



@case("exp-sum-scaled-offset", exact=False)
def _(c, m, x):
    e, ev = lin(c, x, 2, "in")
    r, rv = _rhs(c, x, ())
    k = _mult(c)
    # k * sum_i exp(v_i) + 1 <= t: operators applied AFTER sum() keep the summation
    return k * rsome.exp(e).sum() + 1.0 <= r, ("expsum", ev, lambda xv: (rv(xv) - 1.0) / k)


@case("exp-scaled-then-summed", exact=False)
def _(c, m, x):
    e, ev = lin(c, x, 2, "in")
    r, rv = _rhs(c, x, ())
    k = _mult(c)
    # (k * exp(v)).sum() + 1 <= t: the factor applied BEFORE sum() scales the exponential terms, not only the other side
    return (k * rsome.exp(e)).sum() + 1.0 <= r, ("expsum", ev, lambda xv: (rv(xv) - 1.0) / k)


@case("exp-scaled-then-summed-reflected", exact=False)
def _(c, m, x):
    e, ev = lin(c, x, 2, "in")
    r, rv = _rhs(c, x, ())
    k = _mult(c)
    return r >= (rsome.exp(e) * k).sum(), ("expsum", ev, lambda xv: rv(xv) / k)


def _expsum2d(axis):
    def build(c, m, x):
        e0, ev0 = lin(c, x, 2, "in0")
        e1, ev1 = lin(c, x, 2, "in1")
        r, rv = _rhs(c, x, (2,))
        M = rsome.rstack(e0.reshape((1, 2)), e1.reshape((1, 2)))               # a 2 x 2 argument: rows e0, e1
        # sum over axis 0: one constraint per COLUMN; over axis 1: one per ROW
        return rsome.exp(M).sum(axis=axis) <= r, ("expsum2d", (ev0, ev1), rv, axis)
    return build


case("exp-sum-2d-axis0", exact=False)(_expsum2d(0))
case("exp-sum-2d-axis1", exact=False)(_expsum2d(1))


@case("log-sum", exact=False)
def _(c, m, x):
    e, ev = lin(c, x, 2, "in")
    r, rv = _rhs(c, x, ())
    # t <= sum_i log(v_i)   <=>   exists u: t <= sum u, (u_i, v_i, 1) in K_exp  (exp(u_i) <= v_i)
    return r <= rsome.log(e).sum(), ("logsum", ev, rv)


@case("kldiv with integer reference weights", exact=False)
def _(c, m, x):
    e, ev = lin(c, x, 2, "in")
    r = c.fresh_real("r")
    q = np.array([4, 2])               # an INTEGER array (counts): 1/q must not be an integer division
    return rsome.kldiv(e, q, r), ("kldiv", ev, q, r)


@case("kldiv with an integer scalar reference", exact=False)
def _(c, m, x):
    e, ev = lin(c, x, 2, "in")
    r = c.fresh_real("r")
    return rsome.kldiv(e, 2, r), ("kldiv", ev, np.array([2, 2]), r)


# ---- broadcasting between the atom's argument and the other side of the comparison ------------------------------------

def _bc(c, x):
    """argument of shape (2,1), right-hand side of shape (2,2):  rhs[i,j] = d*x[j] + e0 + R0[i,j]"""
    e, ev = lin(c, x, 2, "in")
    d, e0 = c.fresh_real("d"), c.fresh_real("e")
    R0 = sym_array(c, (2, 2), "R")
    r = (d * x + e0).reshape((1, 2)) + R0
    rv = lambda xv: np.array([[d * xv[j] + e0 + R0[i, j] for j in range(2)] for i in range(2)], dtype=object)      # noqa: E731
    return e.reshape((2, 1)), ev, r, rv


@case("abs-broadcast (2,1) vs (2,2)")
def _(c, m, x):
    e, ev, r, rv = _bc(c, x)
    k = _mult(c)
    return k * abs(e) <= r, lambda xv, aux: p_and(*[p_le(k * abs(ev(xv)[i]), rv(xv)[i, j]) for i in range(2) for j in range(2)])


@case("square-broadcast (2,1) vs (2,2)")
def _(c, m, x):
    e, ev, r, rv = _bc(c, x)
    k = _mult(c)
    return k * rsome.square(e) <= r, lambda xv, aux: p_and(*[p_le(k * ev(xv)[i] * ev(xv)[i], rv(xv)[i, j]) for i in range(2) for j in range(2)])


@case("square-scalar-argument vs (2,)")
def _(c, m, x):
    e, ev = lin(c, x, 2, "in")
    r, rv = _rhs(c, x, (2,))
    return rsome.square(e[0]) <= r, lambda xv, aux: p_and(*[p_le(ev(xv)[0] * ev(xv)[0], rv(xv)[j]) for j in range(2)])


@case("reflected-square-broadcast: (2,2) >= square (2,1)")
def _(c, m, x):
    e, ev, r, rv = _bc(c, x)
    return r >= rsome.square(e), lambda xv, aux: p_and(*[p_le(ev(xv)[i] * ev(xv)[i], rv(xv)[i, j]) for i in range(2) for j in range(2)])


@case("exp-broadcast (2,1) vs (2,2)")
def _(c, m, x):
    e, ev, r, rv = _bc(c, x)
    k = _mult(c)
    return k * rsome.exp(e) <= r, lambda xv, aux: p_and(*[K(ev(xv)[i], rv(xv)[i, j] / k, 1.0) for i in range(2) for j in range(2)])


@case("exp-row (2,) vs (2,2)")
def _(c, m, x):
    e, ev, r, rv = _bc(c, x)
    return rsome.exp(e.reshape((2,))) <= r, lambda xv, aux: p_and(*[K(ev(xv)[j], rv(xv)[i, j], 1.0) for i in range(2) for j in range(2)])


@case("log-broadcast (2,1) vs (2,2)")
def _(c, m, x):
    e, ev, r, rv = _bc(c, x)
    k = _mult(c)
    return k * rsome.log(e) >= r, lambda xv, aux: p_and(*[K(rv(xv)[i, j] / k, ev(xv)[i], 1.0) for i in range(2) for j in range(2)])


@case("pexp-broadcast (2,1),(2,1) vs (2,2)")
def _(c, m, x):
    e, ev, r, rv = _bc(c, x)
    s_, sv = lin(c, x, 2, "sc")
    return rsome.pexp(e, s_.reshape((2, 1))) <= r, lambda xv, aux: p_and(*[K(ev(xv)[i], rv(xv)[i, j], sv(xv)[i]) for i in range(2) for j in range(2)])

@case("expcone with an array on the large side")
def _(c, m, x):
    e, ev = lin(c, x, 2, "in")
    r, rv = _rhs(c, x, (2,))
    s_, sv = lin(c, x, 2, "sc")
    # z*exp(x/z) <= y for EVERY entry of the array y (x and z scalars)
    return rsome.expcone(r, e[0], s_[1]), lambda xv, aux: p_and(*[K(ev(xv)[0], rv(xv)[j], sv(xv)[1]) for j in range(2)])


@case("entropy", exact=False)
def _(c, m, x):
    e, ev = lin(c, x, 2, "in")
    r, rv = _rhs(c, x, ())
    k = _mult(c)
    # k * (-sum v log v) >= t  <=>  exists u: sum u >= t/k, (u_s, 1, v_s) in K_exp.  SOUND direction: the compiled
    # program must provide such u (read from its auxiliary block, located as the multipliers' pre-images below).
    return k * rsome.entropy(e) >= r, ("entropy", ev, rv, k)


@case("softplus", exact=False)
def _(c, m, x):
    e, ev = lin(c, x, 2, "in")
    r, rv = _rhs(c, x, (2,))
    k = _mult(c)
    # k*log(1+exp(v)) <= t  <=>  exists a, b: a + b <= 1, (v - t/k, a, 1) in K, (-t/k, b, 1) in K
    return k * rsome.softplus(e) <= r, ("softplus", ev, rv, k)


@case("kldiv", exact=False)
def _(c, m, x):
    e, ev = lin(c, x, 2, "in")
    r = c.fresh_real("r")
    q = np.array([0.25, 0.5])          # reciprocals are exact binary floats
    # sum p log(p/q) <= r  <=>  exists u: sum u <= r, (-u_s, q_s, p_s) in K   [p exp(-u/p) <= q]
    return rsome.kldiv(e, q, r), ("kldiv", ev, q, r)


OBJECTIVES = {}


def objective(name):
    def deco(f):
        OBJECTIVES[name] = f
        return f
    return deco


@objective("min-affine")
def _(c, m, x):
    d = sym_array(c, (2,), "d")
    e = c.fresh_real("e")
    return "min", d @ x + e, lambda xv: d[0] * xv[0] + d[1] * xv[1] + e, "affine"


@objective("max-affine")
def _(c, m, x):
    d = sym_array(c, (2,), "d")
    e = c.fresh_real("e")
    return "max", d @ x + e, lambda xv: d[0] * xv[0] + d[1] * xv[1] + e, "affine"


@objective("min-norm1")
def _(c, m, x):
    e, ev = lin(c, x, 2, "in")
    k = _mult(c)
    o = c.fresh_real("o")
    return "min", k * rsome.norm(e, 1) + o, lambda xv: k * sum((abs(t) for t in ev(xv)), 0.0) + o, "value"


@objective("max-neg-abs")
def _(c, m, x):
    e, ev = lin(c, x, 1, "in")
    k = _mult(c)
    return "max", (-k * abs(e[0:1])).sum() if False else -k * abs(e[0]) + 1.0, lambda xv: -k * abs(ev(xv)[0]) + 1.0, "value"


@objective("min-sumsqr")
def _(c, m, x):
    e, ev = lin(c, x, 2, "in")
    k = _mult(c)
    o = c.fresh_real("o")
    return "min", k * rsome.sumsqr(e) + o, lambda xv: k * _sumsq(ev(xv)) + o, "value"


@objective("min-pnorm-exc")
def _(c, m, x):
    e, ev = lin(c, x, 2, "in")
    return "min", rsome.pnorm(e, 2.5), lambda xv: None, "linked"


@objective("min-norm2")
def _(c, m, x):
    e, ev = lin(c, x, 2, "in")
    o = c.fresh_real("o")
    return "min", rsome.norm(e, 2) + o, lambda xv: ("norm2", ev(xv), o), "norm2"


# --------------------------------------------------------------------------- generic ghost witness

def _coef_nz(a):
    return isinstance(a, SymReal) or a != 0


def witness(F, nuser, xuser):
    """Values for the auxiliary columns [nuser, nv): solve defining equalities, otherwise take the tight
    bound offered by single-unknown inequality rows (upper bound first, else the largest lower bound)."""
    A = views.dense(F.linear)
    b = np.asarray(F.const, dtype=object).reshape(-1)
    sense = np.asarray(F.sense).reshape(-1)
    m, nv = A.shape
    X = [None] * nv
    for j in range(nuser):
        X[j] = xuser[j]
    progress = True
    while progress and any(v is None for v in X):
        progress = False
        # 1. equality rows with exactly one unknown whose coefficient is a concrete non-zero number
        for i in range(m):
            if sense[i] != 1:
                continue
            unk = [j for j in range(nv) if X[j] is None and _coef_nz(A[i, j])]
            if len(unk) == 1 and not isinstance(A[i, unk[0]], SymReal):
                j = unk[0]
                rest = sum((A[i, t] * X[t] for t in range(nv) if t != j and _coef_nz(A[i, t])), 0.0)
                X[j] = (b[i] - rest) / float(A[i, j])
                progress = True
        if progress:
            continue
        # 2. an unknown bounded by single-unknown inequality rows
        for j in range(nv):
            if X[j] is not None:
                continue
            ups, lows = [], []
            for i in range(m):
                if sense[i] != 0 or not _coef_nz(A[i, j]) or isinstance(A[i, j], SymReal):
                    continue
                unk = [t for t in range(nv) if X[t] is None and _coef_nz(A[i, t])]
                if unk != [j]:
                    continue
                rest = sum((A[i, t] * X[t] for t in range(nv) if t != j and _coef_nz(A[i, t])), 0.0)
                bound = (b[i] - rest) / float(A[i, j])
                (ups if float(A[i, j]) > 0 else lows).append(bound)
            if ups:
                v = ups[0]
                for u in ups[1:]:
                    v = -p_max(-v, -u)
                X[j] = v
                progress = True
                break
            if lows:
                v = lows[0]
                for u in lows[1:]:
                    v = p_max(v, u)
                lb = F.lb[j]
                if not (isinstance(lb, float) and math.isinf(lb)) and not isinstance(lb, SymReal):
                    v = p_max(v, float(lb))
                X[j] = v
                progress = True
                break
    return X


def _user_rows_hold(F, nuser, X):
    """Rows of F that only involve user columns (objective epigraph, other user constraints) and the user
    columns' bounds: the part of the program that is not the encoding under test."""
    A = views.dense(F.linear)
    b = np.asarray(F.const, dtype=object).reshape(-1)
    sense = np.asarray(F.sense).reshape(-1)
    terms = []
    for i in range(A.shape[0]):
        if any(_coef_nz(A[i, j]) for j in range(nuser, A.shape[1])):
            continue
        lhs = sum((A[i, j] * X[j] for j in range(nuser) if _coef_nz(A[i, j])), 0.0)
        terms.append(p_eq(lhs, b[i]) if sense[i] == 1 else p_le(lhs, b[i]))
    for j in range(nuser):
        u, l = F.ub[j], F.lb[j]
        if not (isinstance(u, float) and math.isinf(u)):
            terms.append(p_le(X[j], u))
        if not (isinstance(l, float) and math.isinf(l)):
            terms.append(p_le(l, X[j]))
    return p_and(*terms)


# --------------------------------------------------------------------------- harness

def _written_special(spec, xv, X, F, nuser):
    """Meaning of entropy / softplus / KL through their cone form, with the existential variables read from
    the compiled program's auxiliary block (SOUND direction only)."""
    kind = spec[0]
    cones = [[int(i) for i in e] for e in F.xmat]
    if kind == "entropy":
        _, ev, rv, k = spec
        v = ev(xv)
        # witness u_s := first component of the s-th compiled cone; need  z = v_s,  (u_s, 1, v_s) in K,  sum u >= t/k
        us, terms = [], []
        for s in range(len(v)):
            if s >= len(cones):
                return False
            u, y, z = (X[i] for i in cones[s])
            terms += [p_eq(z, v[s]), K(u, 1.0, v[s])]
            us.append(u)
        return ("need", p_and(*terms), p_le(rv(xv) / k, sum(us, 0.0)))
    if kind == "expsum":
        _, ev, rv = spec
        v = ev(xv)
        us, terms = [], []
        for s in range(len(v)):
            if s >= len(cones):
                return False
            a, u, z1 = (X[i] for i in cones[s])
            terms += [p_eq(z1, 1.0), K(v[s], u, 1.0)]
            us.append(u)
        return ("need", p_and(*terms), p_le(sum(us, 0.0), rv(xv)))
    if kind == "expsum2d":
        _, evs, rv, axis = spec
        v = [evs[0](xv), evs[1](xv)]
        u, terms = [[None, None], [None, None]], []
        for s in range(4):
            if s >= len(cones):
                return False
            i, j = divmod(s, 2)
            a, uu, z1 = (X[k] for k in cones[s])
            terms += [p_eq(z1, 1.0), K(v[i][j], uu, 1.0)]
            u[i][j] = uu
        t = rv(xv)
        if axis == 0:
            concl = p_and(*[p_le(u[0][j] + u[1][j], t[j]) for j in range(2)])
        else:
            concl = p_and(*[p_le(u[i][0] + u[i][1], t[i]) for i in range(2)])
        return ("need", p_and(*terms), concl)
    if kind == "logsum":
        _, ev, rv = spec
        v = ev(xv)
        us, terms = [], []
        for s in range(len(v)):
            if s >= len(cones):
                return False
            u, b, z1 = (X[i] for i in cones[s])
            terms += [p_eq(z1, 1.0), K(u, v[s], 1.0)]
            us.append(u)
        return ("need", p_and(*terms), p_le(rv(xv), sum(us, 0.0)))
    if kind == "softplus":
        _, ev, rv, k = spec
        v, t = ev(xv), rv(xv)
        terms, sums = [], []
        for s in range(len(v)):
            if 2 * s + 1 >= len(cones):
                return False
            x1, a, z1 = (X[i] for i in cones[2 * s])
            x2, b_, z2 = (X[i] for i in cones[2 * s + 1])
            terms += [p_eq(z1, 1.0), p_eq(z2, 1.0), p_eq(x1, v[s] - t[s] / k), p_eq(x2, -t[s] / k), K(x1, a, z1), K(x2, b_, z2)]
            sums.append(p_le(a + b_, 1.0))
        return ("need", p_and(*terms), p_and(*sums))
    if kind == "kldiv":
        _, ev, q, r = spec
        p = ev(xv)
        # sum p log(p/q) <= r  <=>  exists u: sum u <= r and (-u_s/q_s, 1, p_s/q_s) in K   (cone homogeneity, M3)
        # witness u_s := -q_s * (first component of the s-th compiled cone)
        terms, us = [], []
        for s in range(len(p)):
            if s >= len(cones):
                return False
            x1, y1, z1 = (X[i] for i in cones[s])
            u = -float(q[s]) * x1
            terms += [p_eq(z1, p[s] * (1.0 / float(q[s]))), K(-u * (1.0 / float(q[s])), 1.0, p[s] * (1.0 / float(q[s])))]
            us.append(u)
        return ("need", p_and(*terms), p_le(sum(us, 0.0), r))
    return False


def constraint_case(name, front, which=("sound", "exact")):
    cs = CASES[name]

    def setup(c):
        if front == "ro":
            m = ro.Model()
            layer = m.rc_model
        else:
            m = ro.Model()          # deterministic layer reached directly (gcp.Model as lp/socp/gcp stack)
            layer = m.rc_model
        x = m.dvar(2)
        obj = sym_array(c, (2,), "c")
        m.min(obj @ x)
        k, written = cs.build(c, m, x)
        nuser = layer.last
        if front == "ro":
            m.st(k)
            F = m.do_math()
        else:
            layer.obj = obj @ x
            layer.st(k)
            F = layer.do_math()
        nv = F.linear.shape[1]
        X = arr([c.fresh_real(f"X{j}_") for j in range(nv)])
        return {"F": F, "X": X, "written": written, "nuser": nuser, "nv": nv, "k": k, "xs": (x.first, x.first + x.size)}

    def sound(ns, F):
        X, w = ns["X"], ns["written"]
        if isinstance(w, tuple):
            r = _written_special(w, X[ns["xs"][0]:ns["xs"][1]], X, F, ns["nuser"])
            if r is False:
                return False
            if r[0] == "need":
                return p_implies(D.feas(F, X), p_and(r[1], r[2]))
        return p_implies(D.feas(F, X), w(X[ns["xs"][0]:ns["xs"][1]], X))

    def exact(ns, F):
        X, w = ns["X"], ns["written"]
        xu = X[:ns["nuser"]]
        W = witness(F, ns["nuser"], xu)
        if any(v is None for v in W):
            return False
        return p_implies(p_and(w(X[ns["xs"][0]:ns["xs"][1]], X), _user_rows_hold(F, ns["nuser"], X)), D.feas(F, W))

    def wf(ns, F):
        nv = F.linear.shape[1]
        return (len(F.vtype) == nv and len(F.ub) == nv and len(F.lb) == nv and len(F.obj) == nv
                and F.linear.shape[0] == len(F.const) == len(F.sense))

    clauses = []
    if "sound" in which:
        clauses += [post("SOUND: compiled-feasible implies constraint-as-written", sound), post("well-formed", wf)]
    if cs.exact and "exact" in which:
        clauses.append(post("EXACT: constraint-as-written implies compiled-feasible (ghost witness)", exact))
    if not clauses:
        return []
    obs, _ = check_function("rsome.gcp:Model.do_math(primal)", setup, lambda ns: ns["F"], clauses, mode="D",
                            label=f"{name},{front}", bounded=True, max_paths=300)
    return obs


def objective_case(name, which=("sound", "exact")):
    def setup(c):
        m = ro.Model()
        x = m.dvar(2)
        sense, expr, value, kind = OBJECTIVES[name](c, m, x)
        (m.min if sense == "min" else m.max)(expr)
        m.st(x <= 10, x >= -10)
        F = m.do_math()
        nv = F.linear.shape[1]
        X = arr([c.fresh_real(f"X{j}_") for j in range(nv)])
        return {"F": F, "X": X, "sign": 1 if sense == "min" else -1, "value": value, "kind": kind, "nuser": m.rc_model.vars[-1].last if False else 3}

    def objective_is_epigraph_variable(ns, F):
        o = np.asarray(F.obj, dtype=object).reshape(-1)
        return p_and(p_eq(o[0], 1.0), *[p_eq(v, 0.0) for v in o[1:]])

    def sound(ns, F):
        X = ns["X"]
        if ns["kind"] == "linked":
            # an objective whose atom this spec cannot express (p-norm through exponential cones): at least the
            # epigraph variable must be tied to the rest of the program, i.e. the objective was not dropped
            A = views.dense(F.linear)
            return any(_coef_nz(A[i, 0]) and any(_coef_nz(A[i, j]) for j in range(1, A.shape[1])) for i in range(A.shape[0]))
        val = ns["value"](X[1:3])
        if ns["kind"] == "norm2":
            _, v, o = val
            # t >= ||v|| + o   <=>   t - o >= 0 and sum v^2 <= (t - o)^2
            t = ns["sign"] * X[0] - o if False else X[0] - o
            return p_implies(D.feas(F, X), p_and(p_le(0, t), p_le(_sumsq(v), t * t)))
        return p_implies(D.feas(F, X), p_le(ns["sign"] * val, X[0]))

    def exact(ns, F):
        X = ns["X"]
        if ns["kind"] == "linked":
            return True
        xu = [X[0], X[1], X[2]]
        val = ns["value"](X[1:3])
        W = witness(F, 3, xu)
        if any(v is None for v in W):
            return False
        box = p_and(*[p_and(p_le(-10, X[j]), p_le(X[j], 10)) for j in (1, 2)])
        if ns["kind"] == "norm2":
            _, v, o = val
            t = X[0] - o
            return p_implies(p_and(box, p_le(0, t), p_le(_sumsq(v), t * t)), D.feas(F, W))
        return p_implies(p_and(box, p_le(ns["sign"] * val, X[0])), D.feas(F, W))

    cl = []
    if "sound" in which:
        cl += [post("objective-row-is-the-epigraph-variable", objective_is_epigraph_variable),
               post("SOUND: epigraph variable bounds sign*objective", sound)]
    if "exact" in which:
        cl += [post("EXACT: any t >= sign*objective is attainable", exact)]
    obs, _ = check_function("rsome.ro:Model.do_math(objective)", setup, lambda ns: ns["F"], cl,
                            mode="D", label=name, bounded=True, max_paths=300)
    return obs


def pnorm_exp_cone_sampled():
    """BOUNDED, numerical stand-in for the one atom whose cone form is outside the symbolic vocabulary: p-norms compiled
    through exponential cones (float degree, or method='exc').  Pinned arguments: min t s.t. pnorm(x, p) <= t must return
    ||x||_p; max c.x s.t. pnorm(x, p) <= 1 must return the dual norm ||c||_q (ECOS, tolerance 1e-5)."""
    import warnings
    from .. import install
    from .c18 import _quiet
    install.uninstall()
    import rsome as rso
    from rsome import ro as nro, eco_solver as eco
    out = []
    degrees = [(1.5, None), (2.5, None), (3.0, None), (4.25, None), (3, "exc"), ((5, 2), "exc")]
    points = [np.array([1.0, -2.0, 0.5]), np.array([-0.5, -0.5, -3.0]), np.array([2.0, 0.0, -1.0]), np.array([0.25, 4.0, 1.0])]

    def pval(d):
        return d[0] / d[1] if isinstance(d, tuple) else float(d)

    for deg, method in degrees:
        def run(deg=deg, method=method):
            p_ = pval(deg)
            q_ = p_ / (p_ - 1)
            kw = {} if method is None else {"method": method}
            for xv in points:
                m = nro.Model()
                x = m.dvar(3)
                t = m.dvar()
                m.min(t)
                m.st(rso.pnorm(x, deg, **kw) <= t, x == xv)
                with warnings.catch_warnings(), _quiet():
                    warnings.simplefilter("ignore")
                    m.solve(eco, display=False)
                want = float(np.sum(np.abs(xv) ** p_) ** (1 / p_))
                if abs(m.get() - want) > 1e-5 * (1 + want):
                    return f"min t s.t. pnorm(x,{deg}) <= t at x={xv.tolist()}: {m.get():.6f}, ||x||_p = {want:.6f}"
                m = nro.Model()
                x = m.dvar(3)
                m.max(xv @ x)
                m.st(2 * rso.pnorm(x, deg, **kw) <= 2)
                with warnings.catch_warnings(), _quiet():
                    warnings.simplefilter("ignore")
                    m.solve(eco, display=False)
                want = float(np.sum(np.abs(xv) ** q_) ** (1 / q_))
                if abs(m.get() - want) > 1e-5 * (1 + want):
                    return f"max c.x s.t. pnorm(x,{deg}) <= 1 with c={xv.tolist()}: {m.get():.6f}, dual norm = {want:.6f}"
            return True
        obs, _ = check_function("rsome.gcp:Model.do_math(primal) ['N' branch]", lambda c: {}, lambda ns, run=run: run(),
                                [post("p-norm-through-exponential-cones-equals-the-p-norm (sampled, ECOS)", lambda ns, res: res is True)],
                                mode="N", label=f"degree={deg}, method={method}: {len(points)} pinned points x 2 models", bounded=True, replay=None)
        for o in obs:
            if o["status"] == "violated":
                o["reason"] = (o.get("reason") or "") + " | " + str(run())
        out += obs
    return out


def perspective_sums():
    """BOUNDED, numerical: `.sum()` of a perspective atom.  Either the library refuses it (raises before a program is compiled) or the
    compiled constraint is the SUM as written: min t s.t. pexp(x, s).sum() <= t at a pinned x returns sum_i s exp(x_i / s); the same for
    plog with max.  A result that drops the scale (the plain exp / log sum) is a constraint replaced by a different one."""
    import warnings
    from .. import install
    from .c18 import _quiet
    install.uninstall()
    import rsome as rso
    from rsome import ro as nro, dro as ndro, eco_solver as eco
    out = []
    REJ = (ValueError, TypeError, NotImplementedError, AttributeError)
    for front in ("ro", "dro"):
        for atom in ("pexp", "plog"):
            for scale in (2.0, np.array([2.0, 0.5])):
                def run(front=front, atom=atom, scale=scale):
                    xv = np.array([1.0, 1.5])
                    if front == "ro":
                        m = nro.Model()
                        x, t = m.dvar(2), m.dvar()
                        setobj = (lambda e: m.min(e)) if atom == "pexp" else (lambda e: m.max(e))
                    else:
                        m = ndro.Model(1)
                        x, t = m.dvar(2), m.dvar()
                        z = m.rvar()
                        fs = m.ambiguity()
                        fs.suppset(z == 0)
                        setobj = (lambda e: m.minsup(e, fs)) if atom == "pexp" else (lambda e: m.maxinf(e, fs))
                    try:
                        k = (rso.pexp(x, scale).sum() <= t) if atom == "pexp" else (rso.plog(x, scale).sum() >= t)
                        setobj(t)
                        m.st(k, x == xv)
                        with warnings.catch_warnings(), _quiet():
                            warnings.simplefilter("ignore")
                            m.solve(eco, display=False)
                    except REJ:
                        return True
                    sc = scale + np.zeros(2)
                    want = float(np.sum(sc * np.exp(xv / sc)) if atom == "pexp" else np.sum(sc * np.log(xv / sc)))
                    got = float(m.get())
                    if abs(got - want) > 1e-5 * (1 + abs(want)):
                        return f"{front}: {atom}(x, {np.asarray(scale).tolist()}).sum() at x={xv.tolist()}: optimum {got:.6f}, the sum as written is {want:.6f}"
                    return True
                obs, _ = check_function("rsome.lp:PerspConvex.sum", lambda c: {}, lambda ns, run=run: run(),
                                        [post("sum-of-a-perspective-atom-is-refused-or-enforced-as-written (sampled, ECOS)", lambda ns, res: res is True)],
                                        mode="N", label=f"{front},{atom},scale={np.asarray(scale).tolist()}", bounded=True, replay=None)
                for o in obs:
                    if o["status"] == "violated":
                        o["reason"] = (o.get("reason") or "") + " | " + str(run())
                out += obs
    return out


def jobs(tier):
    js = [{"name": f"constr-{n}", "kind": "constr", "case": n} for n in CASES]
    js += [{"name": f"objective-{n}", "kind": "objective", "case": n} for n in OBJECTIVES]
    # p-norm / power / geometric mean: soundness = (call-site contract of the G/T/C branches) + (tower lemma, C07)
    js.append({"name": "tower-callsites", "kind": "tower_callsites"})
    js.append({"name": "pnorm-exp-cone-sampled", "kind": "pnorm_sampled"})
    js.append({"name": "perspective-sums", "kind": "persp_sums"})
    return js


def run_job(job):
    if job["kind"] == "constr":
        return constraint_case(job["case"], "ro", ("sound",))
    if job["kind"] == "objective":
        return objective_case(job["case"], ("sound",))
    if job["kind"] == "pnorm_sampled":
        return pnorm_exp_cone_sampled()
    if job["kind"] == "persp_sums":
        return perspective_sums()
    if job["kind"] == "tower_callsites":
        from . import c07
        return c07.tower_callsites()
    raise ValueError(job["kind"])
