"""Sidecar LV contracts for the CSR row-pointer loops of rsome.subroutines (C05): array_to_sparse and sv_to_csr build the
`indptr` of a CSR matrix with one Python loop,  indptr[1+i] = indptr[i] + (stored entries of item i).

Fragment contracts (engine LV, fragment mode): only the statements  `indptr = np.zeros(size+1)`  and the loop are verified; the rest
of the function (NumPy concatenations, the csr_matrix call) is dropped -- it is executed and checked by engine SE in the C05 jobs.
Abstractions: the number of stored entries of item i is an uninterpreted nnz(i) >= 0 (`all_items[i].count_nonzero()`, resp.
`len(all_items[i].value) - all_items[i].value.count(0)`).

ensures  len(indptr) == size + 1  and  indptr[k] == nnz(0) + ... + nnz(k-1)  for every 0 <= k <= size   (psum, defined by recursion)
so the rows of the CSR matrix are consecutive, non-overlapping slices and row i has exactly nnz(i) entries, for every size.
"""
from __future__ import annotations

import z3

from ..lv import Contract, forall, I

And, Implies, Select = z3.And, z3.Implies, z3.Select


def ghosts():
    return {"nnz": z3.Function("nnz", I, I), "psum": z3.Function("psum", I, I), "ln": z3.Function("ln", I, I), "zc": z3.Function("zc", I, I)}


def pre(kind):
    def f(env, g):
        cl = [("size>=0", env["size"].t >= 0), ("one-item-per-row", env["all_items"].n == env["size"].t),
              ("psum(0)=0", g["psum"](0) == 0),
              ("psum-recursion", forall(1, lambda i: Implies(i >= 0, g["psum"](i + 1) == g["psum"](i) + g["nnz"](i))))]
        if kind == "sv":
            cl.append(("nnz-is-length-minus-zeros", forall(1, lambda i: g["nnz"](i) == g["ln"](i) - g["zc"](i))))
        return cl
    return f


def inv(env, g):
    i, a = env["_i0"].t, env["indptr"]
    return [("length", a.n == env["size"].t + 1),
            ("prefix-sums-so-far", forall(1, lambda k: Implies(And(0 <= k, k <= i), Select(a.arr, k) == g["psum"](k))))]


def post(env, res, g):
    a = env["indptr"]
    return [("length-is-size-plus-one", a.n == env["size"].t + 1),
            ("row-pointer-is-the-prefix-sum-of-the-stored-entries", forall(1, lambda k: Implies(And(0 <= k, k <= env["size"].t), Select(a.arr, k) == g["psum"](k))))]


ARRAY_TO_SPARSE = Contract("array_to_sparse", {"size": "int", "all_items": "list[obj]"}, None, ghosts, pre("a2s"), post, invariants=[inv],
                           fragment=("indptr", 0), abstract_methods={"count_nonzero": lambda i, g: g["nnz"](i)})
SV_TO_CSR = Contract("sv_to_csr", {"size": "int", "all_items": "list[obj]"}, None, ghosts, pre("sv"), post, invariants=[inv],
                     locals={"zero_counts": "int"}, fragment=("indptr", 0),
                     abstract_methods={"value.count": lambda i, g, *a: g["zc"](i), "len:value": lambda i, g: g["ln"](i)})
