"""C13 -- decisions depend on uncertainty exactly as declared (non-anticipativity) (DESIGN.md 5/C13).

Partition code (event_dict, comb_set, DecVar.evtadapt): checked against the set-theoretic spec for EVERY
partition / pair of partitions / adapt sequence of up to N scenarios (bounded, exhaustive).
Dependency masks (DecVarSub.affadapt, DecRule.adapt): mask' = mask OR rows x cols, overlap raises.
dro.Model.rule_var: the per-scenario rules that every constraint expansion uses give each (variable,
event, entry) its own column -- the same column for scenarios of one event, different columns otherwise --
and affine coefficients exactly on the declared mask (again one column per (variable, event, entry, random
component)).  Operators on event-wise operands label their result with the common refinement.
"""
from __future__ import annotations

import itertools

import numpy as np

from ..engine import post, always_raises, check_function, check_enumeration, source_info
from ..harness import lp, ro, dro, rsome, subroutines
from ..spec import views

META = {
    "level": "other",
    "explanation": ("event_dict and comb_set are PROVED for partitions of every size: loop-invariant verification conditions generated from the "
                    "AST of the real functions (engine LV, sidecar contracts in props/c13_lv.py: result maps each scenario to its block; result is "
                    "the coarsest common refinement with non-empty blocks; no KeyError/IndexError/ValueError; arguments not written), z3.  "
                    "The rest is bounded: exhaustive enumeration of partitions, pairs of partitions and adapt() sequences up to the stated "
                    "number of scenarios against set-theoretic specifications; structural postconditions on the "
                    "per-scenario decision rules (column sharing within an event, injectivity across events, "
                    "coefficients exactly on the declared mask); rejection of illegal declarations."),
    "bounds": "partitions of <= 5 scenarios (quick: <= 4) for event_dict/comb_set, adapt sequences on <= 4 scenarios, rule_var on 3 scenarios x all 5 partitions x 2 variables x 3 dependency masks",
    "trusted_base": ["CPython (the partition code is pure Python over lists and dicts)", "engine LV's encoding of lists/dicts/strings (rverif/lv.py docstring: mathematical ints, no aliasing of inner lists, S-INJ string keys injective; A-CARD is Lean-checked: card_of_range)", "ShimCSR for reading rule matrices"],
    "assumptions": ["A-BOUND(C13): DecVar.evtadapt, the dependency masks, rule_var and the operator labels are checked exhaustively up to the stated bounds, not for all sizes (event_dict / comb_set are proved for all sizes by engine LV; if a rewrite takes them outside LV's Python subset the obligation is reported as not-translated and only the bounded enumeration stands)",
                    "A-LV: Python integers are mathematical, inner lists are not aliased, str(a)+sep+str(b) is injective in (a, b)"],
}


# lemmas over the contracts, checked by Lean 4 + Mathlib on every run (lean/Lemmas.lean, rverif/lemmas.py)
LEMMAS = ["card_of_range"]


def SOURCES():
    return {"rsome.subroutines:event_dict": source_info(subroutines.event_dict), "rsome.subroutines:comb_set": source_info(subroutines.comb_set),
            "rsome.lp:DecVar.evtadapt": source_info(lp.DecVar.evtadapt), "rsome.lp:DecVarSub.affadapt": source_info(lp.DecVarSub.affadapt),
            "rsome.lp:DecRule.adapt": source_info(lp.DecRule.adapt), "rsome.dro:Model.rule_var": source_info(dro.Model.rule_var),
            "rsome.lp:DecAffine.__add__": source_info(lp.DecAffine.__add__), "rsome.lp:DecConvex.__add__": source_info(lp.DecConvex.__add__)}


def set_partitions(n):
    """all partitions of range(n) as lists of blocks (each block sorted, blocks ordered by first element)"""
    if n == 0:
        yield []
        return
    for p in set_partitions(n - 1):
        for i in range(len(p)):
            yield p[:i] + [p[i] + [n - 1]] + p[i + 1:]
        yield p + [[n - 1]]


def orderings(p, limit=6):
    """a partition as rsome may hold it: blocks in any order, elements in any order (sampled)"""
    outs = [p, list(reversed(p)), [list(reversed(b)) for b in p]]
    for perm in itertools.islice(itertools.permutations(p), limit):
        outs.append(list(perm))
    uniq = []
    for o in outs:
        if o not in uniq:
            uniq.append(o)
    return uniq


def is_partition(p, n):
    flat = [e for b in p for e in b]
    return all(len(b) > 0 for b in p) and sorted(flat) == list(range(n))


def block_of(p):
    return {e: k for k, b in enumerate(p) for e in b}


def partition_functions(nmax):
    out = []

    def one(label, f):
        out.extend(check_enumeration(label[0], label[1], label[2], f))

    for n in range(1, nmax + 1):
        parts = list(set_partitions(n))

        def ed(n=n, parts=parts):
            for p in parts:
                for q in orderings(p):
                    d = subroutines.event_dict([list(b) for b in q])
                    if set(d) != set(range(n)) or any(not (isinstance(d[e], int) and 0 <= d[e] < len(q) and e in q[d[e]]) for e in d):
                        return f"event_dict({q}) = {d}"
            return True
        one(("rsome.subroutines:event_dict", "maps-each-scenario-to-its-block", f"all partitions of {n} scenarios"), ed)

        def cs(n=n, parts=parts):
            for p1 in parts:
                for p2 in parts:
                    for q1 in orderings(p1, 2):
                        for q2 in orderings(p2, 2):
                            a1, a2 = [list(b) for b in q1], [list(b) for b in q2]
                            r = subroutines.comb_set(a1, a2)
                            if a1 != [list(b) for b in q1] or a2 != [list(b) for b in q2]:
                                return f"comb_set mutated its arguments {q1} {q2}"
                            if not is_partition(r, n):
                                return f"comb_set({q1},{q2}) = {r} is not a partition"
                            b1, b2, br = block_of(q1), block_of(q2), block_of(r)
                            for i in range(n):
                                for j in range(n):
                                    if (br[i] == br[j]) != (b1[i] == b1[j] and b2[i] == b2[j]):
                                        return f"comb_set({q1},{q2}) = {r}: {i},{j}"
            return True
        one(("rsome.subroutines:comb_set", "coarsest-common-refinement", f"all pairs of partitions of {n} scenarios"), cs)
    return out


def partition_functions_lv():
    """event_dict and comb_set for partitions of EVERY size: loop-invariant VCs generated from the AST of the real functions
    (rverif/lv.py, contracts in props/c13_lv.py).  A VC that is not discharged is a violation only together with a concrete
    failing input found by the bounded enumeration above on the real code; otherwise it is undecided."""
    from .. import lv
    from . import c13_lv
    reg = {"event_dict": (subroutines.event_dict, c13_lv.EVENT_DICT), "comb_set": (subroutines.comb_set, c13_lv.COMB_SET)}

    def search(fname):
        def run():
            for o in partition_functions(5):
                if o["function"].endswith(fname) and o["status"] != "discharged":
                    return (o.get("replayed") or {}).get("inputs", {}).get("failing case") or o.get("reason") or "fails"
            return True
        return run
    out = []
    for name in ("event_dict", "comb_set"):
        out += lv.verify_function("rsome.subroutines:" + name, reg[name][0], reg[name][1], reg, native_search=search(name))
    return out


def adapt_sequences(n):
    """every sequence of up to three evtadapt calls (single scenarios and groups) on n scenarios.
    Spec: a call is legal iff all named scenarios are still un-adapted; it moves them into one new block."""
    out = []
    groups = [g for r in range(1, n + 1) for g in itertools.combinations(range(n), r)]
    groups += [(0, 0), (1, 0, 1)][:1 if n < 2 else 2]          # a scenario named twice in one declaration: illegal as a whole
    seqs = [()]
    for depth in range(1, 4):
        seqs += list(itertools.product(groups, repeat=depth))
    for labels in (None, [f"s{i}" for i in range(n)]):
        def run(labels=labels):
            for seq in seqs:
                m = dro.Model(labels if labels else n)
                x = m.dvar(2)
                rest, blocks = list(range(n)), []
                for g in seq:
                    arg = [labels[i] if labels else i for i in g]
                    arg = arg[0] if len(arg) == 1 else arg
                    legal = set(g) <= set(rest) and len(set(g)) == len(g)
                    before = [list(b) for b in x.event_adapt]
                    try:
                        x.adapt(arg)
                        raised = False
                    except KeyError:
                        raised = True
                    if raised != (not legal):
                        return f"sequence {seq}: adapt({arg}) raised={raised} but legal={legal}; partition was {before}"
                    if raised:
                        # an illegal call is rejected and declares nothing: every scenario still belongs to exactly one event
                        # (a half-applied declaration would leave scenarios in no event at all)
                        if not is_partition(x.event_adapt, n) or sorted(map(sorted, x.event_adapt)) != sorted(map(sorted, before)):
                            return f"sequence {seq}: rejected adapt({arg}) changed the partition {before} into {x.event_adapt}"
                        continue
                    rest = [i for i in rest if i not in g]
                    blocks.append(list(g))
                    want = ([rest] if rest else []) + blocks
                    if not is_partition(x.event_adapt, n) or sorted(map(sorted, x.event_adapt)) != sorted(map(sorted, want)):
                        return f"sequence {seq}: partition {x.event_adapt}, expected {want}"
            return True
        out += check_enumeration("rsome.lp:DecVar.evtadapt", "partition-preserved-new-block-formed-illegal-raises",
                                 f"all adapt sequences of depth<=3 on {n} scenarios, labels={'str' if labels else 'int'}", run)
    return out


def masks():
    out = []

    def one(fname, label, f, clause_name="mask-is-old-or-rows-x-cols"):
        obs = check_enumeration(fname, clause_name, label, f)
        out.extend(obs)

    def dro_masks():
        rows_opts = [slice(None), 0, 1, slice(0, 2), [0, 2]]
        cols_opts = [slice(None), 0, 2, slice(1, 3), [0, 2]]
        for ((r1, c1), (r2, c2)), held in itertools.product(itertools.product(itertools.product(rows_opts, cols_opts), repeat=2), (False, True)):
            m = dro.Model(2)
            x = m.dvar(3)
            z = m.rvar(3)
            # held: both slices are taken BEFORE the first declaration (a = x[r1]; b = x[r2]; a.adapt(..); b.adapt(..))
            subs = [x[r1], x[r2]] if held else None
            want = np.zeros((3, 3), dtype=int)
            for k, (r, cc) in enumerate(((r1, c1), (r2, c2))):
                blk = np.zeros((3, 3), dtype=int)
                blk[np.ix_(np.arange(3)[r].reshape(-1), np.arange(3)[cc].reshape(-1))] = 1
                overlap = bool((want & blk).any())
                try:
                    (subs[k] if held else x[r]).adapt(z[cc])
                    raised = False
                except RuntimeError:
                    raised = True
                if raised != overlap:
                    return f"x[{r}].adapt(z[{cc}]) raised={raised} overlap={overlap}" + (" (slices taken before the first declaration)" if held else "")
                if not raised:
                    want |= blk
                got = x.rand_adapt if x.rand_adapt is not None else np.zeros((3, 3), dtype=int)
                if not np.array_equal(np.asarray(got, dtype=int), want):
                    return f"mask {got.tolist()} expected {want.tolist()}" + (f" after a = x[{r1}]; b = x[{r2}]; a.adapt(z[{c1}]); b.adapt(z[{c2}])" if held else "")
        return True
    one("rsome.lp:DecVarSub.affadapt", "all pairs of (rows, cols) declarations on a 3x3 mask", dro_masks)

    def ro_masks():
        rows_opts = [None, 0, 1, slice(0, 2)]
        cols_opts = [slice(None), 0, 2, slice(1, 3)]
        for (r1, c1), (r2, c2) in itertools.product(itertools.product(rows_opts, cols_opts), repeat=2):
            m = ro.Model()
            z = m.rvar(3)
            y = m.ldr(3)
            want = np.zeros((3, 3), dtype=int)
            for (r, cc) in ((r1, c1), (r2, c2)):
                blk = np.zeros((3, 3), dtype=int)
                ridx = np.arange(3) if r is None else np.arange(3)[r].reshape(-1)
                blk[np.ix_(ridx, np.arange(3)[cc].reshape(-1))] = 1
                overlap = bool((want & blk).any())
                try:
                    (y if r is None else y[r]).adapt(z[cc])
                    raised = False
                except RuntimeError:
                    raised = True
                if raised != overlap:
                    return f"ldr[{r}].adapt(z[{cc}]) raised={raised} overlap={overlap}"
                if not raised:
                    want |= blk
                got = y.depend if y.depend is not None else np.zeros((3, 3), dtype=int)
                if not np.array_equal(np.asarray(got, dtype=int), want):
                    return f"mask {np.asarray(got).tolist()} expected {want.tolist()}"
        return True
    one("rsome.lp:DecRule.adapt", "all pairs of (rows, cols) declarations on a 3x3 mask", ro_masks)

    def ro_late_rvar():
        """a random variable declared AFTER (part of) the adaptation of a rule and before the rule's first use must not change
        what the rule depends on: the rule's coefficient columns sit exactly on the declared (entry, random component) pairs"""
        want = np.array([[0, 1, 0], [1, 0, 0]])
        for when in ("before", "between-the-two-adapts", "between-adapt-and-first-use", "after-first-use"):
            m = ro.Model()
            z1 = m.rvar(2)
            if when == "before":
                m.rvar()
            y = m.ldr(2)
            y[0].adapt(z1[1])
            if when == "between-the-two-adapts":
                m.rvar()
            y[1].adapt(z1[0])
            if when == "between-adapt-and-first-use":
                m.rvar()
            aff = y.to_affine()
            if when == "after-first-use":
                m.rvar()
            nr = aff.raffine.shape[1]
            R = views.dense(aff.raffine.linear)
            got = np.zeros((2, 3), dtype=int)
            for i in range(2):
                for j in range(nr):
                    if any(not (isinstance(v, float) and v == 0) for v in R[i * nr + j]):
                        got[i, j] = 1
            if not np.array_equal(got, want):
                return f"random variable declared {when}: the rule depends on {got.tolist()}, declared {want.tolist()}"
            cols = [k for i in range(2) for j in range(nr) for k in range(R.shape[1]) if not (isinstance(R[i * nr + j][k], float) and R[i * nr + j][k] == 0)]
            if len(cols) != 2 or len(set(cols)) != 2:
                return f"random variable declared {when}: coefficient columns {cols}"
        return True
    one("rsome.lp:DecRule.to_affine", "a random variable declared before / between / after the adaptations of a rule", ro_late_rvar, "rule-depends-exactly-on-the-declared-pairs")

    def illegal():
        m = dro.Model(2)
        z = m.rvar(2)
        for vt in ("B", "I"):
            v = m.dvar(2, vt)
            try:
                v.adapt(z)
                return f"affine adaptation of a {vt} variable accepted"
            except ValueError:
                pass
        # arrays of MIXED type (one type letter per entry): the integer entries cannot be affinely adapted -- whole, or through any
        # subscript that selects one of them -- the continuous ones can
        for vt, sel, bad in (("CB", 1, True), ("CB", 0, False), ("CB", slice(None), True), ("IC", [0], True), ("IC", [1], False),
                             ("CCBI", slice(0, 2), False), ("CCBI", slice(1, 3), True), ("CCBI", -1, True), ("CCBI", [1, 0], False)):
            v = m.dvar(len(vt), vt)
            try:
                v[sel].adapt(z)
                raised = False
            except ValueError:
                raised = True
            if raised != bad:
                return f"dvar({len(vt)}, vtype={vt!r})[{sel}].adapt(z): " + ("accepted although an integer entry is selected" if bad else "rejected although only continuous entries are selected")
        v = m.dvar(2, "CB")
        try:
            v.adapt(z)
            return "affine adaptation of a whole array with a binary entry (vtype 'CB') accepted"
        except ValueError:
            pass
        x = m.dvar(2)
        x.adapt(0)
        try:
            x.adapt(0)
            return "re-declaring a scenario accepted"
        except KeyError:
            pass
        try:
            x.adapt(5)
            return "unknown scenario accepted"
        except (KeyError, IndexError):
            pass
        try:
            x.adapt("nonsense")
            return "unknown label accepted"
        except (KeyError, TypeError):
            pass
        return True
    one("rsome.lp:DecVar.adapt", "integer variables, re-declared and unknown scenarios", illegal, "illegal-declarations-raise")

    def after_use():
        """declaring adaptation after the rule (or any part of it) was used in an expression raises -- otherwise the
        expression built earlier keeps only the intercept"""
        uses = {"whole rule": lambda y, x, z: y + x, "slice": lambda y, x, z: y[0] + x[0], "element in a constraint": lambda y, x, z: y[1] <= 1,
                "slice times a number": lambda y, x, z: 2 * y[:1], "sum": lambda y, x, z: y.sum(), "reshape": lambda y, x, z: y.reshape((1, 2)) if hasattr(y, "reshape") else y + 0,
                "negation of a slice": lambda y, x, z: -y[1], "slice in an objective": lambda y, x, z: y[0] - x[1]}
        adapts = {"y.adapt(z)": lambda y, z: y.adapt(z), "y[0].adapt(z[1])": lambda y, z: y[0].adapt(z[1]), "y[1].adapt(z)": lambda y, z: y[1].adapt(z)}
        for un, use in uses.items():
            for an, ad in adapts.items():
                m = ro.Model()
                x = m.dvar(2)
                y = m.ldr(2)
                z = m.rvar(2)
                try:
                    use(y, x, z)
                except (AttributeError, TypeError):
                    continue                       # this use is not offered by the class: nothing was built
                try:
                    ad(y, z)
                    return f"ro: {an} accepted after the static rule was used ({un})"
                except (SyntaxError, RuntimeError, ValueError):
                    pass
        # dro: adaptation after the model was formulated
        md = dro.Model(2)
        xd = md.dvar(2)
        zd = md.rvar(2)
        fs = md.ambiguity()
        fs.suppset(zd <= 1, zd >= -1)
        md.minsup(rsome.E(xd.sum()), fs)
        md.st(xd >= zd)
        md.do_math()
        for an, ad in (("x.adapt(z)", lambda: xd.adapt(zd)), ("x.adapt(1)", lambda: xd.adapt(1)), ("x[0].adapt(z[0])", lambda: xd[0].adapt(zd[0]))):
            try:
                ad()
                return f"dro: {an} accepted after the model was formulated"
            except (SyntaxError, RuntimeError, ValueError, KeyError):
                pass
        return True
    one("rsome.lp:DecRule.adapt", "every way of using a static rule, then every way of adapting it", after_use, "adaptation-after-use-raises")

    def scenario_selection():
        """fset[...] / fset.iloc[...] select scenarios by position, fset.loc[...] by label (slices end-inclusive), exactly
        like the pandas Series of scenario labels; an event declared through a selection consists of those scenarios"""
        import pandas as pd
        for labels in (None, [10, 20, 30, 40], [3, 1, 0, 2], ["a", "b", "c", "d"]):
            S = 4
            lab = list(range(S)) if labels is None else labels
            ref = pd.Series(range(S), index=lab)
            sels = {"loc": [lab[1], slice(lab[1], lab[2]), slice(lab[0], lab[3], 2), [lab[2], lab[0]], slice(None, lab[1]), slice(lab[2], None)],
                    "iloc": [1, slice(1, 3), slice(0, 4, 2), [2, 0], slice(None, 1), slice(2, None)],
                    "getitem": [slice(1, 3), slice(0, 4, 2), slice(None, 1), [lab[2], lab[0]]]}
            for how, items in sels.items():
                for it in items:
                    m = dro.Model(S if labels is None else labels)
                    x = m.dvar(2)
                    fs = m.ambiguity()
                    try:
                        want = ref.loc[it] if how == "loc" else ref.iloc[it] if how == "iloc" else ref[it]
                    except Exception:
                        continue
                    want = sorted(int(v) for v in np.atleast_1d(np.asarray(want)).tolist())
                    try:
                        sc = fs.loc[it] if how == "loc" else fs.iloc[it] if how == "iloc" else fs[it]
                    except Exception as e:
                        return f"labels={labels} {how}[{it}] raised {type(e).__name__}: {e}"
                    got = sc.series
                    got = sorted(int(v) for v in np.atleast_1d(np.asarray(got)).tolist())
                    if got != want:
                        return f"labels={labels} {how}[{it}] selects positions {got}, pandas selects {want}"
                    if 0 < len(want) < S:
                        x2 = m.dvar()
                        x2.adapt(sc)
                        if sorted(x2.event_adapt[-1]) != want:
                            return f"labels={labels}: adapt({how}[{it}]) made the event {x2.event_adapt[-1]}, expected {want}"
        return True
    one("rsome.lp:Scen.__getitem__/loc/iloc", "default, integer and string labels; labels, lists and slices", scenario_selection,
        "selection-by-position-or-label-as-pandas")
    return out


def rule_columns():
    out = []
    parts3 = list(set_partitions(3))
    mask_opts = {"static": None, "full": "full", "partial": "partial"}
    for p in parts3:
        for mname, mk in mask_opts.items():
            def setup(c, p=p, mk=mk):
                m = dro.Model(3)
                a = m.dvar(2)
                b = m.dvar()
                z = m.rvar(2)
                # realise partition p on variable a by adapt calls (block of scenario 0 last, if it is not alone)
                for blk in p:
                    if 0 in blk:
                        continue
                    a.adapt(blk if len(blk) > 1 else blk[0])
                b.adapt(2)
                if mk == "full":
                    a.adapt(z)
                elif mk == "partial":
                    a[1].adapt(z[0])
                    b.adapt(z[1])
                return {"m": m, "a": a, "b": b, "z": z, "p": p}

            def columns_ok(ns, rules):
                m, a, b = ns["m"], ns["a"], ns["b"]
                n = 3
                col = {}
                for s in range(n):
                    r = rules[s]
                    aff = r.affine if isinstance(r, lp.RoAffine) else r
                    A = views.dense(aff.linear)
                    if np.any(np.asarray(aff.const, dtype=float) != 0):
                        return False
                    for i in range(A.shape[0]):
                        cols = [k for k in range(A.shape[1]) if A[i, k] != 0]
                        if len(cols) != 1 or A[i, cols[0]] != 1.0:
                            return False
                        col[(s, i)] = cols[0]
                # objective variable (vt index 0) is here-and-now; variable a occupies vt indices a.first.., b likewise
                for var in m.dec_vars:
                    blk = block_of(var.event_adapt)
                    for t in range(var.size):
                        i = var.first + t
                        for s1 in range(n):
                            for s2 in range(n):
                                same = col[(s1, i)] == col[(s2, i)]
                                if same != (blk[s1] == blk[s2]):
                                    return False
                # injectivity: different (variable entry, event) never share a column
                seen = {}
                for (s, i), k in col.items():
                    var = next(v for v in m.dec_vars if v.first <= i < v.first + v.size)
                    key = (i, block_of(var.event_adapt)[s])
                    if seen.setdefault(k, key) != key:
                        return False
                return True

            def coefficients_ok(ns, rules):
                m = ns["m"]
                nr = m.sup_model.vars[-1].last
                total = m.vt_model.vars[-1].last
                want = np.zeros((total, nr), dtype=int)
                for var in m.dec_vars:
                    if var.rand_adapt is not None:
                        want[var.first:var.first + var.size, :] = np.asarray(var.rand_adapt, dtype=int)
                used = {}
                for s in range(3):
                    r = rules[s]
                    if not want.any():
                        if isinstance(r, lp.RoAffine):
                            return False
                        continue
                    if not isinstance(r, lp.RoAffine):
                        return False
                    R = views.dense(r.raffine.linear)
                    if np.any(np.asarray(r.raffine.const, dtype=float) != 0):
                        return False
                    for i in range(total):
                        for j in range(nr):
                            row = R[i * nr + j]
                            cols = [k for k in range(len(row)) if row[k] != 0]
                            if want[i, j]:
                                if len(cols) != 1 or row[cols[0]] != 1.0:
                                    return False
                                var = next(v for v in m.dec_vars if v.first <= i < v.first + v.size)
                                key = (i, j, block_of(var.event_adapt)[s])
                                if used.setdefault(cols[0], key) != key:
                                    return False
                            elif cols:
                                return False
                # the same (entry, component, event) must reuse its column in every scenario of the event
                inv = {}
                for k, key in used.items():
                    if inv.setdefault(key, k) != k:
                        return False
                return True

            obs, _ = check_function("rsome.dro:Model.rule_var", setup, lambda ns: ns["m"].rule_var(),
                                    [post("one-column-per-event-shared-within-an-event-distinct-otherwise", columns_ok),
                                     post("affine-coefficients-exactly-on-the-declared-mask-per-event", coefficients_ok)],
                                    mode="D", label=f"partition={p},mask={mname}", bounded=True, replay=None)
            out += obs
    return out


def operator_labels():
    out = []

    def one(label, f):
        out.extend(check_enumeration("rsome.lp:<event-wise operators>", "result-adaptive-to-the-common-refinement", label, f))

    parts = list(set_partitions(3))

    def realise(v, p):
        for blk in p:
            if 0 in blk:
                continue
            v.adapt(blk if len(blk) > 1 else blk[0])

    def refinement(p1, p2):
        b1, b2 = block_of(p1), block_of(p2)
        groups = {}
        for i in range(3):
            groups.setdefault((b1[i], b2[i]), []).append(i)
        return sorted(groups.values())

    def run():
        for p1 in parts:
            for p2 in parts:
                m = dro.Model(3)
                a = m.dvar(2)
                b = m.dvar(2)
                z = m.rvar(2)
                realise(a, p1)
                realise(b, p2)
                want = refinement(p1, p2)
                exprs = {"a+b": a + b, "a-2b": a - 2 * b, "a@z+b[0]": a @ z + b[0], "abs(a)+b": abs(a) + b,
                         "concat": lp.concat([a, b]), "b+a*z": b + a * z, "sum": (a + b).sum(),
                         "norm(a)+b[0]": rsome.norm(a, 2) + b[0], "a[0]+b[1]": a[0] + b[1]}
                for name, e in exprs.items():
                    if sorted(map(sorted, e.event_adapt)) != want:
                        return f"{name}: labelled {e.event_adapt}, expected {want} for {p1},{p2}"
                if sorted(map(sorted, (2 * a + 1).event_adapt)) != sorted(map(sorted, p1)):
                    return "scaling changed the partition"
        return True
    one("all pairs of partitions of 3 scenarios", run)
    return out


def jobs(tier):
    nmax = 4 if tier == "quick" else 5
    return [{"name": "partition-functions", "kind": "pf", "nmax": nmax}, {"name": "partition-functions-all-sizes", "kind": "lv"}, {"name": "adapt-sequences", "kind": "adapt", "n": 3 if tier == "quick" else 4},
            {"name": "masks", "kind": "masks"}, {"name": "rule-columns", "kind": "rules"}, {"name": "operator-labels", "kind": "ops"}]


def run_job(job):
    k = job["kind"]
    if k == "pf":
        return partition_functions(job["nmax"])
    if k == "lv":
        return partition_functions_lv()
    if k == "adapt":
        return adapt_sequences(job["n"])
    if k == "masks":
        return masks()
    if k == "rules":
        return rule_columns()
    if k == "ops":
        return operator_labels()
    raise ValueError(k)
