"""C12, dro front end: per-scenario results are labelled with the scenario they belong to.

Oracle: the value of a decision in scenario s is what the per-scenario rule `rule_var()[s]` -- the
object every constraint expansion uses -- evaluates to at the solution vector.
"""
from __future__ import annotations

import math

import numpy as np
import pandas as pd

from ..engine import post, check_function
from ..harness import lp, ro, dro, rsome, arr
from ..spec import views
from ..sym import p_and, p_eq

PATTERNS = {
    "none": [],
    "adapt(0)": [0],
    "adapt(1)": [1],
    "adapt(2)": [2],
    "adapt(0);adapt(1)": [0, 1],
    "adapt(1);adapt(0)": [1, 0],
    "adapt([0,1])": [[0, 1]],
    "adapt([1,2])": [[1, 2]],
    "adapt(2);adapt(0)": [2, 0],
}


def _build(c, pattern, labels, affine=False):
    m = dro.Model(labels if labels else 3)
    pad = m.dvar(2)
    x = m.dvar(2)
    z = m.rvar(2)
    lab = (lambda i: labels[i]) if labels else (lambda i: i)
    for step in PATTERNS[pattern]:
        if isinstance(step, list):
            x.adapt([lab(i) for i in step])
        else:
            x.adapt(lab(step))
    if affine:
        x[0].adapt(z[1])
        pad.adapt(z)
    fset = m.ambiguity()
    fset.suppset(z <= 1, z >= -1)
    m.minsup(rsome.E(x.sum() + pad.sum()), fset)
    m.st(x >= z - 2)
    m.st(pad >= 0)
    formula = m.do_math()
    n = formula.linear.shape[1]
    xbar = arr([c.fresh_real(f"sol{i}_") for i in range(n)])
    sol = lp.Solution("oracle", 0.0, xbar, 0, 0.0)
    m.ro_model.solution = sol
    m.ro_model.rc_model.solution = sol
    m.solution = sol
    return {"m": m, "x": x, "pad": pad, "z": z, "xbar": xbar, "labels": list(m.series_scen.index)}


def _rule_value(ns, s, var):
    """Static part of `var` in scenario s according to the rule every constraint uses."""
    rule = ns["m"].rule_var()[s]
    aff = rule.affine if isinstance(rule, lp.RoAffine) else rule
    full = views.val(aff, ns["xbar"])
    ind = var.get_ind()
    return np.array([full[i] for i in ind], dtype=object).reshape(var.shape)


def _rule_coeff(ns, s, var, rv):
    rule = ns["m"].rule_var()[s]
    nrand = ns["m"].sup_model.vars[-1].last
    out = np.empty((var.size, rv.size), dtype=object)
    R = views.dense(rule.raffine.linear) if isinstance(rule, lp.RoAffine) else None
    for a, i in enumerate(var.get_ind()):
        for b, j in enumerate(rv.get_ind()):
            if R is None:
                out[a, b] = float("nan")
                continue
            row = R[i * nrand + j]
            cols = [k for k in range(len(row)) if not (isinstance(row[k], float) and row[k] == 0)]
            out[a, b] = ns["xbar"][cols[0]] if cols else float("nan")
    return out.reshape(tuple(var.shape) + tuple(rv.to_affine().shape))


def _eq_or_nan(a, b):
    if isinstance(b, float) and math.isnan(b):
        return isinstance(a, float) and math.isnan(a)
    if isinstance(a, float) and math.isnan(a):
        return False
    return p_eq(a, b)


def _series_matches(ns, res, value_of, nevents):
    labels = ns["labels"]
    if nevents > 1:
        if not isinstance(res, pd.Series) or list(res.index) != labels:
            return False
        terms = []
        for s, lab in enumerate(labels):
            got, want = np.asarray(res.loc[lab], dtype=object), np.asarray(value_of(s), dtype=object)
            if got.shape != want.shape:
                return False
            terms += [_eq_or_nan(g, w) for g, w in zip(got.flat, want.flat)]
        return p_and(*terms)
    if isinstance(res, pd.Series):
        return False
    got, want = np.asarray(res, dtype=object), np.asarray(value_of(0), dtype=object)
    if got.shape != want.shape:
        return False
    return p_and(*[_eq_or_nan(g, w) for g, w in zip(got.flat, want.flat)])


def dro_get():
    out = []
    for labels in (None, ["c", "a", "b"]):
        for pattern in PATTERNS:
            lab = f"pattern={pattern},labels={'int' if labels is None else 'str'}"

            def setup(c, pattern=pattern, labels=labels):
                return _build(c, pattern, labels, affine=False)
            obs, _ = check_function(
                "rsome.lp:DecVar.get", setup, lambda ns: ns["x"].get(),
                [post("labelled-with-own-scenario", lambda ns, res: _series_matches(
                    ns, res, lambda s: _rule_value(ns, s, ns["x"]), len(ns["x"].event_adapt)))],
                mode="D", label=lab, bounded=True)
            out += obs

            def setup_aff(c, pattern=pattern, labels=labels):
                return _build(c, pattern, labels, affine=True)
            obs, _ = check_function(
                "rsome.lp:DecVar.get", setup_aff, lambda ns: ns["x"].get(ns["z"]),
                [post("coefficients-labelled-with-own-scenario", lambda ns, res: _series_matches(
                    ns, res, lambda s: _rule_coeff(ns, s, ns["x"], ns["z"]), len(ns["x"].event_adapt)))],
                mode="D", label=lab + ",rvar", bounded=True)
            out += obs
            obs, _ = check_function(
                "rsome.lp:DecVar.get", setup_aff, lambda ns: ns["x"].get(),
                [post("labelled-with-own-scenario", lambda ns, res: _series_matches(
                    ns, res, lambda s: _rule_value(ns, s, ns["x"]), len(ns["x"].event_adapt)))],
                mode="D", label=lab + ",affine-const", bounded=True)
            out += obs
    return out


def dro_call():
    out = []
    for labels in (None, ["c", "a", "b"]):
        for pattern in ("none", "adapt(0)", "adapt(1);adapt(0)", "adapt([1,2])"):
            lab = f"pattern={pattern},labels={'int' if labels is None else 'str'}"

            def setup(c, pattern=pattern, labels=labels):
                ns = _build(c, pattern, labels, affine=False)
                ns["expr"] = 2 * ns["x"] + 1
                return ns

            def want(ns, s):
                return 2 * _rule_value(ns, s, ns["x"]) + 1
            obs, _ = check_function(
                "rsome.lp:DecAffine.__call__", setup, lambda ns: ns["expr"](),
                [post("value-per-scenario", lambda ns, res: _series_matches(
                    ns, res, lambda s: want(ns, s), len(ns["x"].event_adapt)))],
                mode="D", label=lab, bounded=True)
            out += obs
            obs, _ = check_function(
                "rsome.lp:DecVar.__call__", setup, lambda ns: ns["x"](),
                [post("agrees-with-get", lambda ns, res: _series_matches(
                    ns, res, lambda s: _rule_value(ns, s, ns["x"]), len(ns["x"].event_adapt)))],
                mode="D", label=lab, bounded=True)
            out += obs

            def setup_cvx(c, pattern=pattern, labels=labels):
                ns = _build(c, pattern, labels, affine=False)
                ns["expr"] = 3 * abs(ns["x"]) + 1
                return ns
            obs, _ = check_function(
                "rsome.lp:DecConvex.__call__", setup_cvx, lambda ns: ns["expr"](),
                [post("value-per-scenario", lambda ns, res: _series_matches(
                    ns, res, lambda s: 3 * abs(_rule_value(ns, s, ns["x"])) + 1, len(ns["x"].event_adapt)))],
                mode="D", label=lab, bounded=True)
            out += obs
    # every convex atom that supports evaluation, with a multiplier, a sign and an offset, on event-wise decisions
    from ..spec import atoms
    ATOMS = {"A": lambda v: abs(v), "M": lambda v: rsome.norm(v, 1), "I": lambda v: rsome.norm(v, "inf"), "E": lambda v: rsome.norm(v, 2),
             "S": lambda v: rsome.square(v), "Q": lambda v: rsome.sumsqr(v), "X": lambda v: rsome.exp(v), "L": lambda v: rsome.log(v),
             "F": lambda v: rsome.softplus(v), "T": lambda v: rsome.power(v, 3)}     # entropy: v*log(v) with an uninterpreted log is outside z3's reach here (ro: convex_call)
    for labels in (None, ["c", "a", "b"]):
        for xt, mk in ATOMS.items():
            def setup_a(c, xt=xt, mk=mk, labels=labels):
                ns = _build(c, "adapt(1);adapt(0)", labels, affine=False)
                k = c.fresh_real("k")
                ns["k"] = k
                ns["expr"] = k * mk(2 * ns["x"] + 1) + 0.5 * ns["pad"].sum()
                ns["xt"] = xt
                return ns

            def want_a(ns, s):
                vin = 2 * _rule_value(ns, s, ns["x"]) + 1
                params = (np.array(3), np.array(1)) if ns["xt"] == "T" else None
                sign = -1 if ns["xt"] in "LP" else 1
                return ns["k"] * sign * atoms.base(ns["xt"], vin, params) + 0.5 * sum(views.flat(_rule_value(ns, s, ns["pad"])), 0.0)
            obs, _ = check_function(
                "rsome.lp:DecConvex.__call__", setup_a, lambda ns: ns["expr"](),
                [post("value-per-scenario", lambda ns, res: _series_matches(ns, res, lambda s: want_a(ns, s), len(ns["x"].event_adapt)))],
                mode="D", label=f"atom={xt},labels={'int' if labels is None else 'str'}", bounded=True, allow_exc=(NotImplementedError, ValueError))
            out += obs

        # a STATIC atom plus an EVENT-WISE affine offset: the expression is event-wise, one value per scenario
        for xt, mk in ATOMS.items():
            def setup_o(c, xt=xt, mk=mk, labels=labels):
                ns = _build(c, "adapt(1);adapt(0)", labels, affine=False)
                k = c.fresh_real("k")
                ns["k"] = k
                ns["expr"] = k * mk(2 * ns["pad"] + 1) + 0.5 * ns["x"].sum()
                ns["xt"] = xt
                return ns

            def want_o(ns, s):
                vin = 2 * _rule_value(ns, s, ns["pad"]) + 1
                params = (np.array(3), np.array(1)) if ns["xt"] == "T" else None
                sign = -1 if ns["xt"] in "LP" else 1
                return ns["k"] * sign * atoms.base(ns["xt"], vin, params) + 0.5 * sum(views.flat(_rule_value(ns, s, ns["x"])), 0.0)
            obs, _ = check_function(
                "rsome.lp:DecConvex.__call__", setup_o, lambda ns: ns["expr"](),
                [post("value-per-scenario", lambda ns, res: _series_matches(ns, res, lambda s: want_o(ns, s), len(ns["x"].event_adapt)))],
                mode="D", label=f"static atom={xt} + event-wise offset,labels={'int' if labels is None else 'str'}", bounded=True,
                allow_exc=(NotImplementedError, ValueError))
            out += obs

        # bi-affine expressions evaluated at an assigned realisation (and at zero when none is given)
        for given in (True, False, "entry", "reversed"):
            def setup_r(c, labels=labels, given=given):
                ns = _build(c, "adapt(1);adapt(0)", labels, affine=False)
                ns["zv"] = arr([c.fresh_real("zv0"), c.fresh_real("zv1")])
                ns["expr"] = (ns["x"] * ns["z"]).sum() + ns["pad"][0] + 2 * ns["z"][1]
                return ns

            def want_r(ns, s, given=given):
                xs = views.flat(_rule_value(ns, s, ns["x"]))
                zv = {True: ns["zv"], False: [0.0, 0.0], "entry": [0.0, ns["zv"][1]], "reversed": [ns["zv"][1], ns["zv"][0]]}[given]
                return xs[0] * zv[0] + xs[1] * zv[1] + views.flat(_rule_value(ns, s, ns["pad"]))[0] + 2 * zv[1]
            obs, _ = check_function(
                "rsome.lp:DecRoAffine.__call__", setup_r,
                {True: lambda ns: ns["expr"](ns["z"].assign(ns["zv"])), False: lambda ns: ns["expr"](),
                 "entry": lambda ns: ns["expr"](ns["z"][1].assign(ns["zv"][1])),           # the other entry stays at zero
                 "reversed": lambda ns: ns["expr"](ns["z"][::-1].assign(ns["zv"]))}[given],
                [post("value-per-scenario-at-the-assigned-realisation", lambda ns, res, given=given: _series_matches(
                    ns, res, lambda s: want_r(ns, s, given), len(ns["x"].event_adapt)))],
                mode="D", label=f"assigned={given},labels={'int' if labels is None else 'str'}", bounded=True)
            out += obs
        # affinely adaptive, event-wise decisions evaluated at realisations: one common realisation, and one per scenario
        for sw in (False, True):
            def setup_s(c, labels=labels, sw=sw):
                ns = _build(c, "adapt([1,2])", labels, affine=True)
                ns["ZV"] = arr([c.fresh_real(f"zv{i}_") for i in range(6)]).reshape((3, 2))
                return ns

            def want_s(ns, s, var, sw=sw):
                zv = ns["ZV"][s] if sw else ns["ZV"][0]
                base = np.asarray(_rule_value(ns, s, var), dtype=object).reshape(-1)
                C = np.asarray(_rule_coeff(ns, s, var, ns["z"]), dtype=object).reshape((var.size, 2))
                out = []
                for a in range(var.size):
                    acc = base[a]
                    for b in range(2):
                        cc = C[a, b]
                        if not (isinstance(cc, float) and math.isnan(cc)):
                            acc = acc + cc * zv[b]
                    out.append(acc)
                return np.array(out, dtype=object).reshape(var.shape)
            for vname in ("pad", "x"):
                obs, _ = check_function(
                    "rsome.lp:DecVar.__call__", setup_s,
                    lambda ns, vname=vname, sw=sw: ns[vname](ns["z"].assign(ns["ZV"] if sw else ns["ZV"][0], sw=sw)),
                    [post("rule-evaluated-at-each-scenario's-own-realisation" if sw else "rule-evaluated-at-the-common-realisation",
                          lambda ns, res, vname=vname: _series_matches(ns, res, lambda s: want_s(ns, s, ns[vname]), len(ns[vname].event_adapt) if not sw else 3))],
                    mode="D", label=f"{vname},scenario-wise={sw},labels={'int' if labels is None else 'str'}", bounded=True)
                out += obs
    return out
