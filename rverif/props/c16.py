"""C16 -- exports (.lp file, show tables) describe exactly the solved program (DESIGN.md 5/C16).

Contract: read_lp(F.lp_export()) == Prog(F) for the LP / MILP / SOC part, with read_lp an independent reader
written from the LP-format definition (spec/lpformat.py); to_lp() writes exactly lp_export(); the cells of
show()/showlc()/showqc()/showec() equal the corresponding fields of the formula.  Executed natively on
(a) formulas constructed field by field from value pools that contain the awkward cases (negative, zero,
negative zero, explicitly stored zeros, 1e-300 .. 1e300, infinite bounds, fixed and empty-interval bounds,
empty rows, zero objective, every variable type) and (b) formulas compiled from models through the API.
"""
from __future__ import annotations

import itertools
import math
import os
import random
import tempfile

import numpy as np

from ..engine import post, check_function, source_info
from .. import install
from ..spec import lpformat

META = {
    "level": "other",
    "explanation": ("lp_export/to_lp/show are executed natively on enumerated and seeded-random formulas; the text is parsed "
                    "back by an independent LP-format reader and compared field by field (objective, every row's "
                    "coefficients, sense and right-hand side, cone rows, bounds, integrality) with the formula; table "
                    "cells are compared with the fields.  Number formatting relies on float(repr(v)) == v."),
    "bounds": "<= 4 variables, <= 3 rows, <= 2 cones; 300 seeded random formulas (quick) / 3000 (thorough) plus a fixed list of edge cases and 4 compiled models",
    "trusted_base": ["the LP-format definition as implemented in spec/lpformat.py", "A-FMT: float(repr(v)) == v; LP readers accept Python's repr incl. 1e-07, inf",
                     "an external LP reader + solver give the optimum of the program the file describes"],
    "assumptions": ["a cone row x2^2 + ... - x1^2 <= 0 denotes the second-order cone only together with x1 >= 0, which is checked as part of the contract"],
}


def SOURCES():
    from ..harness import lp, socp, gcp
    return {"rsome.lp:LinProg.lp_export": source_info(lp.LinProg.lp_export), "rsome.lp:LinProg.to_lp": source_info(lp.LinProg.to_lp),
            "rsome.socp:SOCProg.lp_export": source_info(socp.SOCProg.lp_export), "rsome.lp:LinProg.showlc": source_info(lp.LinProg.showlc),
            "rsome.socp:SOCProg.showqc": source_info(socp.SOCProg.showqc), "rsome.socp:SOCProg.show": source_info(socp.SOCProg.show),
            "rsome.gcp:GCProg.show": source_info(gcp.GCProg.show), "rsome.gcp:GCProg.showec": source_info(gcp.GCProg.showec)}


COEF = [0.0, -0.0, 1.0, -1.0, 2.5, -0.3, 1e-7, -1e-300, 1e300, 3.0, 0.1 + 0.2, -7.0, 123456789.125]
BND = [(-math.inf, math.inf), (0.0, math.inf), (-math.inf, 0.0), (-1.0, 1.0), (2.0, 2.0), (1e-9, 1e9), (0.0, 1.0), (-0.0, 0.5), (3.0, -3.0)]


def make_formula(rng, nv, m, ncone, kind):
    import scipy.sparse as sp
    from rsome import lp, socp
    rows, cols, data = [], [], []
    for i in range(m):
        for j in range(nv):
            r = rng.random()
            if r < 0.35:
                continue                      # not stored
            v = rng.choice(COEF) if r > 0.45 else 0.0       # possibly an explicitly stored zero
            rows.append(i), cols.append(j), data.append(v)
    if m and rng.random() < 0.2:
        i = rng.randrange(m)                  # force an empty row
        keep = [k for k in range(len(rows)) if rows[k] != i]
        rows, cols, data = [rows[k] for k in keep], [cols[k] for k in keep], [data[k] for k in keep]
    A = sp.csr_matrix((np.array(data, dtype=float), (rows, cols)), shape=(m, nv))
    const = np.array([rng.choice(COEF) for _ in range(m)])
    sense = np.array([float(rng.random() < 0.4) for _ in range(m)])
    vtype = np.array([rng.choice("CCBI") for _ in range(nv)])
    b = [rng.choice(BND) for _ in range(nv)]
    lb = np.array([x[0] for x in b])
    ub = np.array([x[1] for x in b])
    obj = np.array([rng.choice(COEF) if rng.random() < 0.7 else 0.0 for _ in range(nv)])
    if rng.random() < 0.15:
        obj[:] = 0.0
    if kind == "lp" or nv < 2:
        return lp.LinProg(A, const, sense, vtype, ub, lb, obj)
    qmat = []
    for _ in range(ncone):
        q = rng.sample(range(nv), rng.randint(2, nv))
        lb[q[0]] = 0.0
        ub[q[0]] = math.inf
        qmat.append(q)
    return socp.SOCProg(A, const, sense, vtype, ub, lb, qmat, obj)


def _feq(a, b):
    a, b = float(a), float(b)
    return a == b or (math.isnan(a) and math.isnan(b))


def file_describes_formula(F, text):
    """the contract; returns True or a string naming the first difference"""
    nv = F.linear.shape[1]
    try:
        P = lpformat.program_of(lpformat.read_lp(text), nv)
    except lpformat.LPError as e:
        return f"not a readable LP file: {e}"
    if P["sense"] != "min":
        return "objective sense"
    for j in range(nv):
        if not _feq(P["obj"][j], F.obj[j]):
            return f"objective coefficient of x{j + 1}: file {P['obj'][j]!r}, formula {F.obj[j]!r}"
    A = np.asarray(F.linear.todense(), dtype=float)
    if len(P["rows"]) != A.shape[0]:
        return f"{len(P['rows'])} linear rows in the file, {A.shape[0]} in the formula"
    for i, (coefs, rel, rhs) in enumerate(P["rows"]):
        if rel != ("=" if F.sense[i] == 1 else "<="):
            return f"row {i + 1}: relation {rel}"
        if not _feq(rhs, F.const[i]):
            return f"row {i + 1}: right-hand side {rhs!r} vs {F.const[i]!r}"
        for j in range(nv):
            if not _feq(coefs[j], A[i, j]):
                return f"row {i + 1}, x{j + 1}: {coefs[j]!r} vs {A[i, j]!r}"
    for j in range(nv):
        lo, hi = float(F.lb[j]), float(F.ub[j])
        if F.vtype[j] == "B":
            lo, hi = max(lo, 0.0), min(hi, 1.0)
        if not (_feq(P["lb"][j], lo) and _feq(P["ub"][j], hi)):
            return f"bounds of x{j + 1}: file [{P['lb'][j]}, {P['ub'][j]}], formula [{lo}, {hi}]"
        if P["vtype"][j] != str(F.vtype[j]):
            return f"type of x{j + 1}: file {P['vtype'][j]}, formula {F.vtype[j]}"
    qmat = list(getattr(F, "qmat", []) or [])
    if len(P["cones"]) != len(qmat):
        return f"{len(P['cones'])} cone rows in the file, {len(qmat)} cones in the formula"
    for r, q in zip(P["cones"], qmat):
        want = {}
        for j in q[1:]:
            want[f"x{int(j) + 1}"] = want.get(f"x{int(j) + 1}", 0.0) + 1.0
        want[f"x{int(q[0]) + 1}"] = want.get(f"x{int(q[0]) + 1}", 0.0) - 1.0
        if r["lin"] or r["rel"] != "<=" or r["rhs"] != 0 or r["quad"] != want:
            return f"cone row {r} does not describe cone {list(q)}"
        if not float(F.lb[int(q[0])]) >= 0:
            return f"cone head x{int(q[0]) + 1} is not bounded below by 0, the quadratic row is not the cone"
    return True


def tables_describe_formula(F):
    import pandas as pd
    nv = F.linear.shape[1]
    A = np.asarray(F.linear.todense(), dtype=float)
    t = F.showlc()
    if list(t.columns) != [f"x{j + 1}" for j in range(nv)] + ["sense", "constant"] or list(t.index) != [f"LC{i + 1}" for i in range(A.shape[0])]:
        return "showlc labels"
    for i in range(A.shape[0]):
        for j in range(nv):
            if not _feq(t.iloc[i, j], A[i, j]):
                return f"showlc cell ({i},{j})"
        if t["sense"].iloc[i] != ("==" if F.sense[i] == 1 else "<=") or not _feq(t["constant"].iloc[i], F.const[i]):
            return f"showlc sense/constant of row {i}"
    if not hasattr(F, "qmat"):
        return True
    s = F.show()
    cols = [f"x{j + 1}" for j in range(nv)]
    for j in range(nv):
        if not _feq(s.loc["Obj", cols[j]], F.obj[j]) or not _feq(s.loc["UB", cols[j]], F.ub[j]) or not _feq(s.loc["LB", cols[j]], F.lb[j]) \
                or s.loc["Type", cols[j]] != str(F.vtype[j]):
            return f"show(): Obj/UB/LB/Type of x{j + 1}"
    for i in range(A.shape[0]):
        for j in range(nv):
            if not _feq(s.loc[f"LC{i + 1}", cols[j]], A[i, j]):
                return f"show() cell LC{i + 1}, x{j + 1}"
    for k, q in enumerate(F.qmat):
        row = s.loc[f"QC{k + 1}"]
        want = np.zeros(nv)
        for j in q[1:]:
            want[int(j)] += 1.0
        want[int(q[0])] += -1.0
        if any(not _feq(row[cols[j]], want[j]) for j in range(nv)):
            return f"show() row QC{k + 1}"
    for k, e in enumerate(getattr(F, "xmat", []) or []):
        row = s.loc[f"EC{k + 1}"]
        want = np.zeros(nv)
        for pos, j in enumerate(e):
            want[int(j)] = pos + 1
        if any(not _feq(row[cols[j]], want[j]) for j in range(nv)):
            return f"show() row EC{k + 1}"
    return True


def compiled_models():
    from rsome import ro
    import rsome as rso
    out = []
    m = ro.Model()
    x = m.dvar(2)
    y = m.dvar(2, "B")
    w = m.dvar(1, "I")
    m.max(1.5 * x.sum() - y[0] + 2 * w)
    m.st(rso.norm(x, 2) <= 3 + y[1], x + y <= 2.5, w <= 4, w >= -2, x[0] - x[1] == 0.25, x >= -1e-7)
    out.append(("milp-soc", m.do_math()))
    m = ro.Model()
    x = m.dvar(3)
    z = m.rvar(2)
    m.minmax(x.sum() + (x[:2] * z).sum(), rso.norm(z, 2) <= 1.5, z <= 1)
    m.st((x[0] * z[0] - x[2] <= 1).forall(abs(z) <= 0.5), rso.sumsqr(x) <= 10, x <= 0)
    out.append(("robust-soc", m.do_math()))
    out.append(("robust-soc-dual", m.do_math(primal=False)))
    m = ro.Model()
    x = m.dvar(2)
    m.min(rso.exp(x[0]) + x[1])
    m.st(rso.log(x[1]) >= 0.5, rso.norm(x, 1) <= 4)
    out.append(("exp-cone", m.do_math()))
    return out


def run_cases(seed, n):
    install.uninstall()
    out = []
    rng = random.Random(seed)
    cases = []
    for k in range(n):
        nv = rng.randint(1, 4)
        m = rng.randint(0, 3)
        kind = rng.choice(["lp", "soc"])
        cases.append((f"random#{k} nv={nv} m={m} {kind}", lambda nv=nv, m=m, kind=kind, s=rng.random(): make_formula(random.Random(s), nv, m, rng.randint(1, 2), kind)))
    for name, F in compiled_models():
        cases.append((f"compiled:{name}", lambda F=F: F))
    for label, mk in cases:
        def setup(c, mk=mk):
            return {"F": mk()}

        def call(ns):
            F = ns["F"]
            text = F.lp_export()
            d = tempfile.mkdtemp(prefix="rverif_lp_")
            try:
                F.to_lp(os.path.join(d, "out"))
                with open(os.path.join(d, "out.lp")) as f:
                    written = f.read()
            finally:
                import shutil
                shutil.rmtree(d, ignore_errors=True)
            return text, written

        def describes(ns, res):
            r = file_describes_formula(ns["F"], res[0])
            ns["_why"] = r
            return r is True

        def same_file(ns, res):
            return res[0] == res[1]

        def tables(ns, res):
            if ns["F"].linear.shape[0] == 0:
                return True
            r = tables_describe_formula(ns["F"])
            ns["_why_t"] = r
            return r is True
        obs, _ = check_function("rsome.lp:LinProg.lp_export", setup, call,
                                [post("file-read-back-equals-the-formula", describes), post("to_lp-writes-lp_export", same_file),
                                 post("show-tables-equal-the-formula-fields", tables)], mode="N", label=label, bounded=True, replay=None)
        for o in obs:
            if o["status"] != "discharged":
                F = mk()
                try:
                    o["reason"] = (o.get("reason") or "") + " | " + str(file_describes_formula(F, F.lp_export())) + " | " + \
                        (str(tables_describe_formula(F)) if F.linear.shape[0] else "")
                except Exception as e:          # noqa: the annotation is best effort; the obligation already records the failure
                    o["reason"] = (o.get("reason") or "") + f" | {type(e).__name__}: {e}"
        out += obs
    return out


def jobs(tier):
    seed = int(os.environ.get("VERIF_SEED", "0") or 0)
    n = 300 if tier == "quick" else 3000
    k = 8
    return [{"name": f"exports-{i}", "kind": "cases", "seed": seed * 1000 + i, "n": n // k} for i in range(k)]


def run_job(job):
    return run_cases(job["seed"], job["n"])
