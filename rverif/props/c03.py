"""C03 -- DRO solutions are safe for every distribution in the ambiguity set (DESIGN.md 3.1, 5/C03).

Safety is reduced, by the three-line argument of DESIGN.md 3.1 (trusted mathematics, written out there), to two
families of ROBUST statements about the compiled program, each of which z3 proves directly and semantically for an
arbitrary vector X feasible for the compiled program:

 (R)  every constraint written without E holds, for every scenario s and every realisation z of that scenario's
      support, at the decisions given by scenario s's rule evaluated at (X, z);
 (E1) for every constraint / objective written with E and every scenario s and piece:  piece_s(X, z) <=
      alpha_s + sum_{k: s in E_k} beta_k . z   for every z in the support of s;
 (E2) alpha . p + sum_k beta_k . mu_k <= 0  for every (p, mu) in the lifted set  { p in the probability set,
      mu_k in (sum_{s in E_k} p_s) * (expectation set k) }.

alpha, beta are the multiplier variables the code creates (located by recording the variable declarations made
during formulation -- ghost witnesses).  For any distribution in the ambiguity set put mu_k = sum_{s in E_k} p_s
E[z|s]; then E[max of pieces] <= alpha.p + sum_k beta_k.mu_k <= 0.  The reported objective bounds the
epigraph decision, which is constrained by the same (E1)/(E2) pair.
"""
from __future__ import annotations

import numpy as np

from ..engine import post, check_function, source_info, ContractShape
from ..harness import lp, ro, dro, rsome, arr, sym_array
from ..spec import dual as D, rc, views
from ..sym import SymReal, p_and, p_eq, p_implies, p_le, ctx
from .c05 import value as expr_value

META = {
    "level": "other",
    "explanation": ("Real dro models (event-wise static and affinely adaptive decisions, per-scenario supports, expectation "
                    "sets on events, probability sets, E(...) constraints and objectives incl. maxof pieces, plain robust "
                    "constraints) with symbolic parameters are compiled by the real pipeline; z3 proves the robust "
                    "statements (R), (E1), (E2) for an arbitrary compiled-feasible vector, realisation, probability vector "
                    "and scaled conditional means.  The step from (E1)+(E2) to 'safe for every distribution' is the "
                    "three-line lemma of DESIGN.md 3.1 (Lean-checked for finitely supported distributions)."),
    "bounds": "2-3 scenarios (default and integer labels), 1-2 random variables, decisions of size <= 2, <= 2 events (disjoint, overlapping, selected by label), supports: intervals per scenario; expectation sets: intervals on E(z) per event; probability sets: simplex, simplex with upper bounds; an E-constraint with its own ambiguity set; thorough tier: two random variables and a type-1 Wasserstein ball (auxiliary random variable, abs in the supports)",
    "trusted_base": ["z3/cvc5 (NRA)", "the safety lemma of DESIGN.md 3.1: its finite-support version is machine-checked (lean/Lemmas.lean dro_safety, job lemmas-lean); trusted: the passage to general distributions (law of total expectation) and convexity of the expectation sets, which puts the conditional means in the lifted set",
                     "the external solver returns a point feasible for the compiled program"],
    "assumptions": ["KL / norm probability sets and conic expectation sets are covered only through C08 (their dual standard forms) and not end-to-end here; Wasserstein-type sets only in the thorough tier"],
}


# lemmas over the contracts, checked by Lean 4 + Mathlib on every run (lean/Lemmas.lean, rverif/lemmas.py)
LEMMAS = ["dro_safety", "weak_duality", "weak_duality_eq"]


def SOURCES():
    return {"rsome.dro:Model.do_math": source_info(dro.Model.do_math), "rsome.dro:Model.ro_to_roc": source_info(dro.Model.ro_to_roc),
            "rsome.dro:Model.dro_to_roc": source_info(dro.Model.dro_to_roc), "rsome.dro:Model.rule_var": source_info(dro.Model.rule_var),
            "rsome.dro:Ambiguity.mix_support": source_info(dro.Ambiguity.mix_support), "rsome.lp:Scen.suppset": source_info(lp.Scen.suppset),
            "rsome.lp:Scen.exptset": source_info(lp.Scen.exptset), "rsome.dro:Ambiguity.probset": source_info(dro.Ambiguity.probset)}


def _pos(c, n):
    v = c.fresh_real(n)
    c.assume(v > 0)
    return v


def _nz(c, n):
    v = c.fresh_real(n)
    c.assume(v != 0)
    return v


def rule_values(m, s, X, Z):
    """values of all vt-model decision entries in scenario s at (X, z)"""
    r = m.rule_var()[s]
    v = expr_value(r, X, Z)
    return np.asarray(v, dtype=object).reshape(-1)


def dec_value(e, m, s, X, Z):
    """value of a Dec(Ro)Affine expression / plain number at scenario s, realisation Z, compiled vector X"""
    xs = rule_values(m, s, X, Z)
    if isinstance(e, (int, float, SymReal)):
        return [e]
    if isinstance(e, lp.Convex):
        # a convex expression of (event-wise) static decisions: its documented value at scenario s's decisions
        from ..spec import atoms
        return list(views.flat(atoms.den_convex(e, xs)))
    if isinstance(e, (lp.DecVar, lp.DecVarSub)):
        e = e.to_affine()
    if isinstance(e, lp.RoAffine):
        R = views.val(e.raffine, xs)
        a = views.flat(views.val(e.affine, xs))
        R = np.asarray(R, dtype=object)
        out = []
        for i in range(len(a)):
            acc = a[i]
            for j in range(R.shape[1]):
                if isinstance(R[i, j], SymReal) or R[i, j] != 0:
                    acc = acc + R[i, j] * Z[j]
            out.append(acc)
        return out
    if isinstance(e, lp.Affine):
        if e.model.mtype == "S":
            return views.flat(views.val(e, Z))
        return views.flat(views.val(e, xs))
    raise TypeError(type(e).__name__)


class World:
    pass


def build(c, variant):
    labels = variant.get("labels")
    S = len(labels) if labels else 2
    w = World()
    m = dro.Model(labels if labels else S)
    x = m.dvar(2)
    y = m.dvar()
    w.support_fn = None
    w.lifted_fn = None
    if variant.get("wasserstein"):
        # type-1 Wasserstein ball around the empirical points zhat_s: auxiliary random variable u with |z - zhat_s| <= u on
        # the support of scenario s and E(u) <= theta over all scenarios
        z = m.rvar()
        u = m.rvar()
        nz = 2
        fs = m.ambiguity()
        umax = _pos(c, "umax")
        sup = {}
        for s in range(S):
            lo, hi, zh = c.fresh_real(f"lo{s}_"), c.fresh_real(f"hi{s}_"), c.fresh_real(f"zh{s}_")
            c.assume(lo < zh)
            c.assume(zh < hi)
            for v in (lo, hi, zh):
                c.assume(v != 0)
            fs[s].suppset(z >= lo, z <= hi, abs(z - zh) <= u, u <= umax)
            sup[s] = (lo, hi, zh)
        theta = _pos(c, "theta")
        fs.exptset(rsome.E(u) <= theta)
        w.support = sup
        w.events = [([0, 1], None, None)]
        w.support_fn = lambda s, Z: p_and(p_le(sup[s][0], Z[0]), p_le(Z[0], sup[s][1]), p_le(Z[0] - sup[s][2], Z[1]),
                                          p_le(sup[s][2] - Z[0], Z[1]), p_le(Z[1], umax))
        w.lifted_fn = lambda k, pk, MUk: [p_le(MUk[1], pk * theta)]
        S_range = []
    else:
        z = m.rvar(1 if variant.get("nz", 1) == 1 else 2)
        nz = z.size if hasattr(z, "size") else 1
        fs = m.ambiguity()
        w.support = {}
        S_range = range(S)
    for s in S_range:
        lo, hi = c.fresh_real(f"lo{s}_"), c.fresh_real(f"hi{s}_")
        c.assume(lo < hi)
        if s == 1:
            c.assume(lo != 0)      # zero-ness of the bounds is explored on scenario 0 only (keeps the path count down)
            c.assume(hi != 0)
        (fs.loc[labels[s]] if labels else fs[s]).suppset(z >= lo, z <= hi)
        w.support[s] = (lo, hi)
    if not variant.get("wasserstein"):
        w.events = []
    if variant.get("expt") == "all":
        el, eh = c.fresh_real("el"), c.fresh_real("eh")
        c.assume(el < eh)
        c.assume(el != 0)
        fs.exptset(rsome.E(z) >= el, rsome.E(z) <= eh)
        w.events.append(([0, 1], el, eh))
    elif variant.get("expt") == "per-scenario":
        for s in range(S):
            el, eh = c.fresh_real(f"el{s}_"), c.fresh_real(f"eh{s}_")
            c.assume(el < eh)
            c.assume(el != 0)
            c.assume(eh != 0)
            fs[s].exptset(rsome.E(z) >= el, rsome.E(z) <= eh)
            w.events.append(([s], el, eh))
    elif variant.get("expt") == "first-two-by-label":
        # an event of two scenarios selected by their LABELS (integer labels that are not the positions)
        el, eh = c.fresh_real("el"), c.fresh_real("eh")
        c.assume(el < eh)
        c.assume(el != 0)
        c.assume(eh != 0)
        fs.loc[labels[:2]].exptset(rsome.E(z) >= el, rsome.E(z) <= eh)
        w.events.append(([0, 1], el, eh))
    elif variant.get("expt") in ("non-contiguous", "non-contiguous-by-label"):
        # an event of the first and the LAST of three scenarios (positions / labels): its mass is p0 + p2, not p0 + p1 + p2
        el, eh = c.fresh_real("el"), c.fresh_real("eh")
        c.assume(el < eh)
        c.assume(el != 0)
        c.assume(eh != 0)
        ev = fs.loc[[labels[0], labels[2]]] if variant.get("expt") == "non-contiguous-by-label" else fs[[0, 2]]
        ev.exptset(rsome.E(z) >= el, rsome.E(z) <= eh)
        w.events.append(([0, 2], el, eh))
    elif variant.get("expt") in ("overlap", "overlap-reversed"):
        # scenario 1 belongs to two events: every event containing s contributes its beta to scenario s
        decl = [([0, 1], "A"), ([1], "B")]
        if variant.get("expt") == "overlap-reversed":
            decl.reverse()
        for members, tag in decl:
            el, eh = c.fresh_real(f"el{tag}_"), c.fresh_real(f"eh{tag}_")
            c.assume(el < eh)
            c.assume(el != 0)
            c.assume(eh != 0)
            (fs if len(members) == 2 else fs[1]).exptset(rsome.E(z) >= el, rsome.E(z) <= eh)
            w.events.append((members, el, eh))
    w.pub = None
    if variant.get("prob") == "ub":
        q = _pos(c, "q")
        fs.probset(m.p <= q)
        w.pub = q
    w.own = None
    if variant.get("econstr") == "own-set":
        # the E-constraint carries its OWN ambiguity set G (wider supports, its own expectation event), different from
        # the objective's set F: it must be dualised against G
        gs = m.ambiguity()
        gsup = {}
        for s in range(S):
            lo, hi = c.fresh_real(f"glo{s}_"), c.fresh_real(f"ghi{s}_")
            c.assume(lo < hi)
            c.assume(lo != 0)
            c.assume(hi != 0)
            gs[s].suppset(z >= lo, z <= hi)
            gsup[s] = (lo, hi)
        el, eh = c.fresh_real("gel"), c.fresh_real("geh")
        c.assume(el < eh)
        c.assume(el != 0)
        c.assume(eh != 0)
        gs.exptset(rsome.E(z) >= el, rsome.E(z) <= eh)
        w.own = {"support": gsup, "events": [([0, 1], el, eh)], "pub": None}
        w.gs = gs
    if variant.get("adapt") == "event-y":
        y.adapt(1)                     # only the bound of the convex constraints is event-wise; the atoms' arguments are static
    if variant.get("adapt") == "event-by-label":
        x.adapt(labels[1])
    if variant.get("adapt") in ("event", "both"):
        x.adapt(1)
    if variant.get("adapt") in ("affine", "both"):
        y.adapt(z)
    a = arr([_nz(c, f"a{i}") for i in range(2)])
    w.E = []
    w.R = []
    zz = z if nz == 1 else z.sum()
    obj_kind = variant.get("obj", "E-affine")
    if obj_kind == "E-affine":
        o = a @ x + y + zz * x[0] if variant.get("adapt") not in ("affine", "both") else a @ x + y + zz
        m.minsup(rsome.E(o), fs)
        w.obj = ("E", [o])
    elif obj_kind == "maxinf-E-affine":
        # max inf E(o): compiled as  min sup E(-o)  with the reported value negated by get()
        o = a @ x + y + zz * x[0] if variant.get("adapt") not in ("affine", "both") else a @ x + y + zz
        m.maxinf(rsome.E(o), fs)
        w.obj = ("E", [-o])
    elif obj_kind == "max-R":
        o = a @ x + y
        m.maxinf(o, fs)
        w.obj = ("R", [-o])
    elif obj_kind == "R-maxof":
        # worst case (no expectation) of a piecewise objective: the epigraph decision dominates every piece on every support
        p1 = a @ x + zz * x[1]
        p2 = y - zz
        m.minsup(rsome.maxof(p1, p2), fs)
        w.obj = ("R", [p1, p2])
    elif obj_kind == "R-convex":
        cvo = rsome.norm(x, 1) + y
        m.minsup(cvo, fs)
        w.obj = ("R", [cvo])
    elif obj_kind == "E-maxof-det":
        # one piece WITHOUT any random variable and with a non-zero constant (stored as a linear constraint piece)
        p1 = a @ x + zz * x[1]
        p2 = 0.5 * y + x[0] + 1.5
        m.minsup(rsome.E(rsome.maxof(p1, p2)), fs)
        w.obj = ("E", [p1, p2])
    elif obj_kind == "E-maxof":
        p1 = a @ x + zz * x[1]
        p2 = y - zz
        m.minsup(rsome.E(rsome.maxof(p1, p2)), fs)
        w.obj = ("E", [p1, p2])
    else:
        o = a @ x + y
        m.minsup(o + 0 * zz if False else o, fs)
        w.obj = ("R", [o])
    k1 = y + x[0] - zz
    m.st(k1 >= -1)
    w.R.append(-k1 - 1)
    w.R_own = []
    if variant.get("econstr") == "own-set":
        gs = w.gs
        e1 = x[1] * zz + y
        g = c.fresh_real("g")
        if variant.get("own_kind") == "maxof":
            q2 = x[0] - 2 * zz
            m.st((rsome.E(rsome.maxof(e1, q2)) <= g).forall(gs))
            w.E.append([e1 - g, q2 - g])
        else:
            m.st((rsome.E(e1) <= g).forall(gs))
            w.E.append([e1 - g])
        if variant.get("own_robust"):
            # a constraint without E carrying its own set: it holds on G's supports
            k2 = x[0] * zz - y
            m.st((k2 <= 5).forall(gs))
            w.R_own.append(k2 - 5)
    elif variant.get("econstr") == "maxof-det":
        q1 = x[1] * zz + y
        q2 = x[0] - 2.5
        g = c.fresh_real("g")
        m.st(rsome.E(rsome.maxof(q1, q2)) <= g)
        w.E.append([q1 - g, q2 - g])
    elif variant.get("econstr") == "maxof":
        # an expectation of a piecewise term as a CONSTRAINT: E(max(q1, q2)) <= g, not max(E q1, E q2) <= g
        q1 = x[1] * zz + y
        q2 = x[0] - 2 * zz
        g = c.fresh_real("g")
        m.st(rsome.E(rsome.maxof(q1, q2)) <= g)
        w.E.append([q1 - g, q2 - g])
    elif variant.get("econstr"):
        e1 = x[1] * zz + y
        g = c.fresh_real("g")
        m.st(rsome.E(e1) <= g)
        w.E.append([e1 - g])
    if variant.get("convex"):
        # convex constraints over event-wise static decisions: they hold for the decisions of EVERY scenario
        cv1 = abs(x[0] - 2 * x[1]) + x[1]
        g1 = c.fresh_real("g1")
        m.st(cv1 <= g1)
        w.R.append(cv1 - g1)
        cv2 = rsome.norm(x, 1) - x[0]
        m.st(cv2 <= 6)
        w.R.append(cv2 - 6)
        # the atom on the left, an expression with ANOTHER event partition on the right, both spellings
        cv3 = rsome.norm(x, 1)
        m.st(cv3 <= y + 7)
        w.R.append(cv3 - y - 7)
        cv4 = abs(x[1])
        m.st(y + 8 >= cv4)
        w.R.append(cv4 - y - 8)
    w.K = []
    if variant.get("expcones"):
        # exponential-cone constraints over event-wise static decisions: (a, b, c) in K_exp for the decisions of every scenario
        m.st(rsome.exp(x[0]) <= y + 12)
        w.K.append((x[0], y + 12, 1.0))
        m.st(rsome.expcone(y + 13, x[1] - 2, 1.0))
        w.K.append((x[1] - 2, y + 13, 1.0))
        m.st(rsome.expcone(2 * y + 15, 0.5 * x[0] + 1, x[1] + 11))
        w.K.append((0.5 * x[0] + 1, 2 * y + 15, x[1] + 11))
        m.st(rsome.pexp(x[0], x[1] + 11) <= y + 14)
        w.K.append((x[0], y + 14, x[1] + 11))
        m.st(rsome.log(x[1] + 11) >= x[0] - 3)
        w.K.append((x[0] - 3, x[1] + 11, 1.0))
    if variant.get("equalities"):
        # equalities: among static decisions, and a robust one that pins the rule  y(z) - z == x0 - 1  for every z
        eq1 = x[0] + 2 * x[1] - 3
        m.st(eq1 == 0)
        w.R += [eq1, -eq1]
        if variant.get("equalities") == "decisions-only":
            # an equality written among decisions only (no random variable in the text, non-zero right-hand side) whose
            # affinely adaptive member makes it a robust equality: it pins the rule for every z
            eq4 = y + x[1] - 2
            m.st(eq4 == 0)
            w.R += [eq4, -eq4]
            eq5 = 2 - 3 * y - x[0]
            m.st(eq5 == -4)
            w.R += [eq5 + 4, -eq5 - 4]
        elif variant.get("adapt") in ("affine", "both"):
            eq2 = y - zz - x[0] + 1
            m.st(eq2 == 0)
            w.R += [eq2, -eq2]
        else:
            eq3 = x[0] * zz - x[1] * zz
            m.st(eq3 == 0)
            w.R += [eq3, -eq3]
    m.st(x <= 10, x >= -10, y <= 10, y >= -10)
    w.m, w.x, w.y, w.z, w.fs, w.nz, w.S = m, x, y, z, fs, nz, S
    return w


def in_support(w, s, Z, own=False):
    if w.support_fn is not None and not own:
        return w.support_fn(s, Z)
    lo, hi = (w.own["support"] if own else w.support)[s]
    return p_and(*[p_and(p_le(lo, zz), p_le(zz, hi)) for zz in Z])


def set_of(w, kind):
    """(events, pub, own?) of the ambiguity set an E-item is dualised against"""
    if kind == "con" and w.own is not None:
        return w.own["events"], w.own["pub"], True
    return w.events, w.pub, False


VARIANTS = {
    "static,E-affine": dict(obj="E-affine"),
    "static,E-affine,expt-all": dict(obj="E-affine", expt="all"),
    "static,E-maxof,expt-all": dict(obj="E-maxof", expt="all"),
    "event,E-affine,expt-per-scenario": dict(obj="E-affine", expt="per-scenario", adapt="event"),
    "event,E-maxof,prob-ub": dict(obj="E-maxof", prob="ub", adapt="event"),
    "affine,E-affine,expt-all": dict(obj="E-affine", expt="all", adapt="affine"),
    "both,E-maxof,expt-all,prob-ub": dict(obj="E-maxof", expt="all", prob="ub", adapt="both"),
    "static,R-objective,econstr,expt-all": dict(obj="R", expt="all", econstr=True),
    "event,E-affine,econstr,expt-per-scenario": dict(obj="E-affine", expt="per-scenario", adapt="event", econstr=True),
    "static,E-affine,expt-overlap": dict(obj="E-affine", expt="overlap"),
    "static,E-maxof,expt-overlap-reversed": dict(obj="E-maxof", expt="overlap-reversed"),
    "event,E-affine,econstr,expt-overlap": dict(obj="E-affine", expt="overlap", adapt="event", econstr=True),
    "static,E-affine,expt-all,econstr-with-its-own-set": dict(obj="E-affine", expt="all", econstr="own-set"),
    "static,R-objective,expt-per-scenario,econstr-with-its-own-set": dict(obj="R", expt="per-scenario", econstr="own-set"),
    "event,E-affine,expt-all,exp-cone-constraints": dict(obj="E-affine", expt="all", adapt="event", expcones=True),
    "event-wise-bound,E-affine,expt-all,exp-cone-constraints": dict(obj="E-affine", expt="all", adapt="event-y", expcones=True),
    "event,E-affine,expt-all,equalities": dict(obj="E-affine", expt="all", adapt="event", equalities=True),
    "affine,E-affine,expt-all,equalities": dict(obj="E-affine", expt="all", adapt="affine", equalities=True),
    "affine,E-affine,expt-all,equalities-among-decisions": dict(obj="E-affine", expt="all", adapt="affine", equalities="decisions-only"),
    "both,E-affine,expt-per-scenario,equalities-among-decisions": dict(obj="E-affine", expt="per-scenario", adapt="both", equalities="decisions-only"),
    "event,R-maxof-objective,expt-all": dict(obj="R-maxof", expt="all", adapt="event"),
    "static,R-convex-objective,expt-all": dict(obj="R-convex", expt="all"),
    "static,maxinf-E-affine,expt-all": dict(obj="maxinf-E-affine", expt="all"),
    "event,maxinf-E-affine,expt-per-scenario,prob-ub": dict(obj="maxinf-E-affine", expt="per-scenario", prob="ub", adapt="event"),
    "static,max-R-objective,expt-all,econstr": dict(obj="max-R", expt="all", econstr=True),
    "static,E-affine,expt-all,E-maxof-and-robust-constraints-with-their-own-set": dict(obj="E-affine", expt="all", econstr="own-set", own_kind="maxof", own_robust=True),
    "static,E-affine,expt-all,E-maxof-constraint": dict(obj="E-affine", expt="all", econstr="maxof"),
    "static,E-maxof-with-a-deterministic-piece,expt-all": dict(obj="E-maxof-det", expt="all"),
    "event,E-affine,expt-all,E-maxof-constraint-with-a-deterministic-piece": dict(obj="E-affine", expt="all", adapt="event", econstr="maxof-det"),
    "event,R-objective,expt-per-scenario,E-maxof-constraint": dict(obj="R", expt="per-scenario", adapt="event", econstr="maxof"),
    "event,E-affine,expt-all,convex-constraints": dict(obj="E-affine", expt="all", adapt="event", convex=True),
    "event-wise-bound,E-affine,expt-all,convex-constraints": dict(obj="E-affine", expt="all", adapt="event-y", convex=True),
    "static,E-affine,three-scenarios,non-contiguous-event": dict(obj="E-affine", expt="non-contiguous", labels=[0, 1, 2]),
    "event,E-affine,econstr,labels=(2,0,1),non-contiguous-event-by-label": dict(obj="E-affine", expt="non-contiguous-by-label", labels=[2, 0, 1], adapt="event-by-label", econstr=True),
    "static,E-affine,labels=(1,2,3),event-of-two-by-label": dict(obj="E-affine", expt="first-two-by-label", labels=[1, 2, 3]),
    "event,E-affine,labels=(2,0,1),event-of-two-by-label": dict(obj="E-affine", expt="first-two-by-label", labels=[2, 0, 1], adapt="event-by-label"),
}


def run_variant(vname):
    variant = VARIANTS.get(vname) or THOROUGH_VARIANTS[vname]

    def setup(c):
        w = build(c, variant)
        m = w.m
        created = []
        real = m.ro_model.rc_model.dvar

        def rec(shape=(), vtype="C", name=None, aux=False):
            v = real(shape, vtype, name, aux)
            created.append(v)
            return v
        m.ro_model.rc_model.dvar = rec
        try:
            F = m.do_math()
        finally:
            del m.ro_model.rc_model.dvar
        nv = F.linear.shape[1]
        X = arr([c.fresh_real(f"X{j}_") for j in range(nv)])
        Z = arr([c.fresh_real(f"z{j}_") for j in range(w.nz)])
        P = arr([c.fresh_real(f"p{j}_") for j in range(w.S)])
        MU = [arr([c.fresh_real(f"mu{k}_{j}_") for j in range(w.nz)]) for k in range(len(w.events))]
        # locate alpha / beta blocks: in dro_to_roc each E-row declares alpha (S,), then beta (nrand, nevents) if any
        blocks = []
        it = iter(created[2:] if False else created)
        seq = [v for v in created]
        i = 0
        kinds = (["obj"] if w.obj[0] == "E" else []) + ["con"] * len(w.E)
        while i < len(seq):
            v = seq[i]
            ne = len(set_of(w, kinds[len(blocks)])[0]) if len(blocks) < len(kinds) else len(w.events)
            if tuple(v.shape) == (w.S,) and not any(v is b[0] for b in blocks):
                alpha = v
                beta = None
                if ne and i + 1 < len(seq) and tuple(seq[i + 1].shape) == (w.nz, ne):
                    beta = seq[i + 1]
                    i += 1
                # the rule variables declared by rule_var() are 1-d too: alpha is recognised by being followed
                # (after beta) by the multiplier block of le_to_rc, a 2-d variable with one row
                j = i + 1
                if j < len(seq) and len(seq[j].shape) == 2 and seq[j].shape[0] == 1:
                    blocks.append((alpha, beta))
            i += 1
        return {"w": w, "F": F, "X": X, "Z": Z, "P": P, "MU": MU, "blocks": blocks}

    def robust_rows(ns, F):
        w, X, Z = ns["w"], ns["X"], ns["Z"]
        feas = D.feas(F, X)
        t = []
        for e in w.R:
            for s in range(w.S):
                vals = dec_value(e, w.m, s, X, Z)
                t.append(p_implies(p_and(feas, in_support(w, s, Z)), p_and(*[p_le(v, 0) for v in vals])))
        for (ea, eb, ec) in w.K:
            for s in range(w.S):
                va, vb, vc = (dec_value(e, w.m, s, X, Z)[0] for e in (ea, eb, ec))
                t.append(p_implies(feas, D.exp_holds(va, vb, vc)))
        for e in w.R_own:
            for s in range(w.S):
                vals = dec_value(e, w.m, s, X, Z)
                t.append(p_implies(p_and(feas, in_support(w, s, Z, True)), p_and(*[p_le(v, 0) for v in vals])))
        if w.obj[0] == "R":
            for s in range(w.S):
                for piece in w.obj[1]:
                    ov = dec_value(piece, w.m, s, X, Z)[0]
                    t.append(p_implies(p_and(feas, in_support(w, s, Z)), p_le(ov, X[0])))
        return p_and(*t)

    def e_items(ns):
        w = ns["w"]
        items = []
        if w.obj[0] == "E":
            items.append(("obj", w.obj[1]))
        for pieces in w.E:
            items.append(("con", pieces))
        return items

    def e1(ns, F):
        w, X, Z = ns["w"], ns["X"], ns["Z"]
        items = e_items(ns)
        if len(items) != len(ns["blocks"]):
            raise ContractShape(f"{len(items)} expectation items but {len(ns['blocks'])} alpha/beta blocks recognised among the declared variables")
        feas = D.feas(F, X)
        t = []
        for (kind, pieces), (alpha, beta) in zip(items, ns["blocks"]):
            events, _pub, own = set_of(w, kind)
            for s in range(w.S):
                rhs = X[alpha.first + s]
                for k, (members, _, _) in enumerate(events):
                    if s in members:
                        for j in range(w.nz):
                            rhs = rhs + X[beta.first + j * len(events) + k] * Z[j]
                for pc in pieces:
                    pv = dec_value(pc, w.m, s, X, Z)[0]
                    if kind == "obj":
                        # the epigraph constraint is  d0 >= E(obj)  i.e. piece - d0 <= alpha_s + beta.z
                        d0 = rule_values(w.m, s, X, Z)[0]
                        pv = pv - d0
                    t.append(p_implies(p_and(feas, in_support(w, s, Z, own)), p_le(pv, rhs)))
        return p_and(*t)

    def e2(ns, F):
        w, X, P, MU = ns["w"], ns["X"], ns["P"], ns["MU"]
        feas = D.feas(F, X)
        t = []
        for (kind, _pieces), (alpha, beta) in zip(e_items(ns), ns["blocks"]):
            events, pub, _own = set_of(w, kind)
            MUk = [arr([ctx().fresh_real(f"mu{kind}{k}_{j}_") for j in range(w.nz)]) for k in range(len(events))]
            lifted = [p_le(0, P[s]) for s in range(w.S)] + [p_eq(sum((P[s] for s in range(w.S)), 0.0), 1)]
            if pub is not None:
                lifted += [p_le(P[s], pub) for s in range(w.S)]
            for k, (members, el, eh) in enumerate(events):
                pk = sum((P[s] for s in members), 0.0)
                if w.lifted_fn is not None and not _own:
                    lifted += w.lifted_fn(k, pk, MUk[k])
                    continue
                for j in range(w.nz):
                    lifted += [p_le(pk * el, MUk[k][j]), p_le(MUk[k][j], pk * eh)]
            val = sum((X[alpha.first + s] * P[s] for s in range(w.S)), 0.0)
            for k in range(len(events)):
                for j in range(w.nz):
                    val = val + X[beta.first + j * len(events) + k] * MUk[k][j]
            t.append(p_implies(p_and(feas, *lifted), p_le(val, 0)))
        return p_and(*t) if t else True

    def epigraph(ns, F):
        # the reported objective (column 0 of the compiled program) bounds the epigraph decision d0
        w, X, Z = ns["w"], ns["X"], ns["Z"]
        d0 = rule_values(w.m, 0, X, Z)[0]
        o = np.asarray(F.obj, dtype=object)
        return p_and(p_implies(D.feas(F, X), p_le(d0, X[0])), p_eq(o[0], 1.0), *[p_eq(v, 0.0) for v in o[1:]])

    obs, _ = check_function("rsome.dro:<model pipeline>", setup, lambda ns: ns["F"],
                            [post("(R) constraints without E hold for every scenario and every realisation of its support", robust_rows),
                             post("(E1) every piece is dominated by alpha_s + beta.z on the support of s", e1),
                             post("(E2) alpha.p + beta.mu <= 0 on the lifted probability/expectation set", e2),
                             post("reported objective bounds the epigraph decision", epigraph)],
                            mode="D", label=vname, bounded=True, max_paths=300, z3_ms=90000)
    return obs


THOROUGH_VARIANTS = {
    # type-1 Wasserstein ambiguity (auxiliary random variable, abs in the supports, E(u) <= theta): about 50 s each
    "static,E-affine,wasserstein": dict(obj="E-affine", wasserstein=True),
    "event,E-maxof,wasserstein": dict(obj="E-maxof", wasserstein=True, adapt="event"),
    "static,E-affine,expt-all,nz=2": dict(obj="E-affine", expt="all", nz=2),
    "event,E-maxof,expt-per-scenario,nz=2": dict(obj="E-maxof", expt="per-scenario", adapt="event", nz=2),
    # (overlapping events with nz=2 leave one (E2) obligation at 240 s without and beyond every solver's budget with a
    #  probability bound: too close to the budget to be stable under load; overlap is covered with nz=1 in the quick tier)
    "static,E-affine,expt-all,prob-ub,nz=2": dict(obj="E-affine", expt="all", prob="ub", nz=2),
    "affine,E-affine,econstr,expt-all,nz=2": dict(obj="E-affine", expt="all", adapt="affine", econstr=True, nz=2),
}


def jobs(tier):
    if tier != "quick":
        VARIANTS.update(THOROUGH_VARIANTS)
    return [{"name": v, "kind": "variant", "variant": v} for v in VARIANTS]


def run_job(job):
    return run_variant(job["variant"])
