"""C05 -- array algebra on variables is NumPy's: same shapes, same values (DESIGN.md 5/C05).

Oracle: real NumPy applied to the VALUE arrays (object arrays of fresh reals standing for an
arbitrary assignment of the decision and random variables and for arbitrary numeric constants).
Contract per operation:  if NumPy rejects the operation, rsome raises;  if rsome returns, the
result has NumPy's shape and denotes the (bi-)affine function whose value at the assignment is
NumPy's result;  the operands' own views are unchanged (frame).
"""
from __future__ import annotations

import itertools
import os
import random

import numpy as np

from ..engine import post, always_raises, check_function, source_info
from ..harness import lp, ro, rsome, arr, sym_array, subroutines
from ..spec import views
from ..sym import SymReal, p_and, p_eq

META = {
    "level": "other",
    "explanation": ("Every affine / bi-affine operator, indexing form, reshape/transpose/sum, concatenation and "
                    "triangular/diagonal helper is executed on real variables with symbolic constants; the value of "
                    "the result at an arbitrary symbolic assignment is compared by z3 with real NumPy applied to the "
                    "value arrays.  Complete over values (polynomial identities); shapes, index expressions and "
                    "compositions are enumerated up to the stated bounds.  The CSR row-pointer loops of array_to_sparse / sv_to_csr are "
                    "proved for every number of rows by loop-invariant VCs generated from the real source (engine LV, fragment mode)."),
    "bounds": "rank <= 3, every dimension in {1,2,3}; index grammar enumerated per shape; compositions to depth 2 (quick) / 3 (thorough), sampled with VERIF_SEED",
    "trusted_base": ["z3/cvc5", "NumPy as the reference semantics (the property's own oracle)", "ShimCSR for scipy.sparse (conformance-tested)"],
    "assumptions": ["A-LV-FRAGMENT(C05): of array_to_sparse / sv_to_csr only `indptr = np.zeros(size+1)` and the loop are under the LV contract; "
                    "the dropped prelude is assumed to give len(all_items) == size; per-row counts are uninterpreted functions; integers are mathematical",
                    "A-NZ(C05): symbolic constants are assumed non-zero (zero patterns are covered by separate concrete-zero configurations), "
                    "because SciPy's value-dependent pruning of stored zeros would otherwise fork every entry"],
}

ERR = (ValueError, TypeError, IndexError, NotImplementedError, KeyError)
SHAPES_Q = [(), (1,), (3,), (2, 3), (1, 3), (2, 1), (2, 2, 3)]
SHAPES_T = SHAPES_Q + [(3, 1, 2), (1, 1), (3, 3)]


def SOURCES():
    fs = {}
    for n in ("__neg__", "__add__", "__radd__", "__sub__", "__rsub__", "__mul__", "__rmul__", "__matmul__", "__rmatmul__",
              "__getitem__", "reshape", "flatten", "sum", "diag", "tril", "triu", "trace", "concat"):
        fs[f"rsome.lp:Affine.{n}"] = source_info(getattr(lp.Affine, n))
    fs["rsome.lp:Affine.T"] = source_info(lp.Affine.T.fget)
    for n in ("__getitem__", "__add__", "__mul__", "__rmul__", "__matmul__", "__rmatmul__", "sum", "reshape"):
        fs[f"rsome.lp:RoAffine.{n}"] = source_info(getattr(lp.RoAffine, n))
    for n in ("sparse_mul", "sp_matmul", "sp_lmatmul", "sp_trans", "sv_to_csr", "array_to_sparse", "index_array", "add_linear"):
        fs[f"rsome.subroutines:{n}"] = source_info(getattr(subroutines, n))
    for n in ("concat", "rstack", "cstack", "vec"):
        fs[f"rsome.lp:{n}"] = source_info(getattr(lp, n))
    return fs


# ---------------------------------------------------------------------------------- values

def value(e, xbar, zbar):
    """Value array of an rsome expression at the assignment (xbar for decisions, zbar for random variables)."""
    if isinstance(e, (lp.DecRule, lp.DecRuleSub, lp.Vars)) and not isinstance(e, lp.Affine):
        e = e.to_affine()
    if isinstance(e, lp.RoAffine):
        R = views.val(e.raffine, xbar)                 # (size, nrand')
        a = views.val(e.affine, xbar)
        R = np.asarray(R, dtype=object)
        nr = R.shape[1] if R.ndim == 2 else 0
        rows = np.empty(R.shape[0], dtype=object)
        for i in range(R.shape[0]):
            acc = 0.0
            for j in range(nr):
                r = R[i, j]
                if not isinstance(r, SymReal) and r == 0:
                    continue
                acc = acc + r * zbar[j]
            rows[i] = acc
        ashape = np.shape(a)
        return rows.reshape(ashape) + a if ashape != () else rows[0] + a
    if isinstance(e, lp.Affine):
        return views.val(e, zbar if e.model.mtype == "S" else xbar)
    return e


def same(res_val, oracle):
    if tuple(np.shape(res_val)) != tuple(np.shape(oracle)):
        return False
    return views.all_eq(res_val, oracle)


FRONT = "ro"


class Env:
    """One model with decision variables x (shape sx), y (shape sy), random z (shape sz) and their value arrays."""

    def __init__(self, c, sx, sy=None, sz=None, nz_assume=True):
        self.c = c
        if FRONT == "dro":
            # the dro wrappers (DecVar / DecAffine / DecRoAffine / RandVar) over the same algebra
            from ..harness import dro
            self.m = dro.Model(2)
            pad = self.m.dvar(2)
            self.x = self.m.dvar(sx)
            self.y = self.m.dvar(sy) if sy is not None else None
            self.z = self.m.rvar(sz) if sz is not None else None
            self.w = self.m.rvar(2) if sz is not None else None
            nd, nr = self.m.vt_model.last, self.m.sup_model.last
        else:
            self.m = ro.Model()
            pad = self.m.dvar(2)
            self.x = self.m.dvar(sx)
            self.y = self.m.dvar(sy) if sy is not None else None
            self.z = self.m.rvar(sz) if sz is not None else None
            self.w = self.m.rvar(2) if sz is not None else None
            nd, nr = self.m.rc_model.last, self.m.sup_model.last
        self.xbar = arr([c.fresh_real(f"x{i}_") for i in range(nd)])
        self.zbar = arr([c.fresh_real(f"z{i}_") for i in range(nr)]) if nr else arr([])
        self.nz = nz_assume

    def vals(self, v):
        bar = self.zbar if v.model.mtype == "S" else self.xbar
        return np.asarray(bar[v.first:v.first + v.size], dtype=object).reshape(v.shape) if v.shape != () else bar[v.first]

    def const(self, shape, name, zeros=False):
        if zeros:
            rng = random.Random(hash((shape, name)) & 0xffff)
            a = np.array([rng.choice([0.0, 0.0, 1.5, -2.0, 3.0]) for _ in range(int(np.prod(shape)))], dtype=float).reshape(shape)
            return a
        a = sym_array(self.c, shape, name)
        if self.nz:
            for v in np.asarray(a, dtype=object).reshape(-1):
                self.c.assume(v != 0)
        return a

    def value(self, e):
        return value(e, self.xbar, self.zbar)


def _run(fname, label, setup_env, rs_op, np_op, bounded=True, frame_of=None):
    """setup_env(c) -> (env, operands dict);  rs_op(ops) -> rsome result;  np_op(vals) -> NumPy oracle."""
    def setup(c):
        env, ops, vals = setup_env(c)
        try:
            oracle = np_op(vals)
            bad = None
        except Exception as e:               # NumPy itself rejects the operation
            oracle, bad = None, e
        snaps = {k: _view(v) for k, v in ops.items() if isinstance(v, (lp.Affine, lp.RoAffine))}
        return {"env": env, "ops": ops, "oracle": oracle, "numpy_rejects": bad, "snaps": snaps}

    def call(ns):
        if ns["numpy_rejects"] is not None:
            try:
                r = rs_op(ns["ops"])
            except ERR:
                return "raised"
            return ("returned-though-numpy-rejects", r)
        return rs_op(ns["ops"])

    def cl_value(ns, res):
        if ns["numpy_rejects"] is not None:
            return res == "raised"
        return same(ns["env"].value(res), ns["oracle"])

    def cl_frame(ns, res):
        return p_and(*[_view_eq(s, _view(ns["ops"][k])) for k, s in ns["snaps"].items()])

    obs, _ = check_function(fname, setup, call, [post("numpy-shape-and-value", cl_value), post("operands-unchanged", cl_frame)],
                            mode="D", label=label, bounded=bounded, allow_exc=ERR, max_paths=300)
    return obs


def _view(e):
    if isinstance(e, lp.RoAffine):
        return ("ro", _view(e.raffine), _view(e.affine))
    A = np.asarray(views.dense(e.linear), dtype=object)
    n = A.shape[1]
    while n > 0 and all((not isinstance(v, SymReal)) and v == 0 for v in A[:, n - 1]):
        n -= 1
    return ("aff", tuple(e.shape), A[:, :n].copy(), np.array(e.const, dtype=object).copy())


def _view_eq(a, b):
    if a[0] != b[0]:
        return False
    if a[0] == "ro":
        return p_and(_view_eq(a[1], b[1]), _view_eq(a[2], b[2]))
    if a[1] != b[1] or a[2].shape != b[2].shape or a[3].shape != b[3].shape:
        return False
    return p_and(views.all_eq(a[2], b[2]), views.all_eq(a[3], b[3]))


# ---------------------------------------------------------------------------------- job families

def elementwise(shapes, zeros):
    out = []
    for sv, sc in itertools.product(shapes, shapes):
        for opn, f in (("add", lambda a, b: a + b), ("radd", lambda a, b: b + a), ("sub", lambda a, b: a - b),
                       ("rsub", lambda a, b: b - a), ("mul", lambda a, b: a * b), ("rmul", lambda a, b: b * a)):
            def se(c, sv=sv, sc=sc):
                env = Env(c, sv)
                k = env.const(sc, "k", zeros)
                return env, {"x": env.x, "k": k}, {"x": env.vals(env.x), "k": k}
            out += _run(f"rsome.lp:Affine.__{opn}__", f"x{sv} {opn} const{sc}{' zeros' if zeros else ''}", se,
                        lambda o, f=f: f(o["x"], o["k"]), lambda v, f=f: f(v["x"], v["k"]))
    return out


def var_var(shapes):
    out = []
    for sx, sy in itertools.product(shapes, shapes):
        for opn, f in (("add", lambda a, b: a + b), ("sub", lambda a, b: a - b)):
            def se(c, sx=sx, sy=sy):
                env = Env(c, sx, sy)
                a = 2.0 * env.x + 1.0
                return env, {"a": a, "y": env.y}, {"a": 2.0 * env.vals(env.x) + 1.0, "y": env.vals(env.y)}
            out += _run(f"rsome.lp:Affine.__{opn}__", f"affine{sx} {opn} var{sy}", se,
                        lambda o, f=f: f(o["a"], o["y"]), lambda v, f=f: f(v["a"], v["y"]))
    # two STORED expressions over the same variable (same sparsity structure): the sum is right and neither operand changes
    for sx in [s_ for s_ in shapes if int(np.prod(s_)) <= 3]:          # every entry forks on "the two coefficients cancel"
        for opn, f in (("add", lambda a, b: a + b), ("sub", lambda a, b: a - b)):
            def se2(c, sx=sx):
                env = Env(c, sx)
                ka, kb = env.const(sx, "ka"), env.const(sx, "kb")
                a = ka * env.x + 1.0
                b = kb * env.x - 0.5
                return env, {"a": a, "b": b}, {"a": ka * env.vals(env.x) + 1.0, "b": kb * env.vals(env.x) - 0.5}
            out += _run(f"rsome.lp:Affine.__{opn}__", f"stored affine{sx} {opn} stored affine over the same variable", se2,
                        lambda o, f=f: f(o["a"], o["b"]), lambda v, f=f: f(v["a"], v["b"]))
    return out


def matmul(shapes, zeros):
    out = []
    for sv, sc in itertools.product(shapes, shapes):
        if sv == () or sc == ():
            continue
        for side in ("x@C", "C@x"):
            def se(c, sv=sv, sc=sc):
                env = Env(c, sv)
                k = env.const(sc, "k", zeros)
                return env, {"x": env.x, "k": k}, {"x": env.vals(env.x), "k": k}
            f = (lambda a, b: a @ b) if side == "x@C" else (lambda a, b: b @ a)
            out += _run("rsome.lp:Affine.__matmul__" if side == "x@C" else "rsome.lp:Affine.__rmatmul__",
                        f"{side} x{sv} C{sc}{' zeros' if zeros else ''}", se,
                        lambda o, f=f: f(o["x"], o["k"]), lambda v, f=f: f(v["x"], v["k"]))
    return out


def _index_grammar(shape):
    idx = []
    n0 = shape[0]
    idx += [0, -1, slice(None), slice(None, None, 2), slice(1, None), slice(None, None, -1), [0, n0 - 1], [n0 - 1, 0, 0],
            np.array([True] + [False] * (n0 - 1)), Ellipsis, None, slice(5, 9), n0, -n0 - 1]
    if len(shape) >= 2:
        n1 = shape[1]
        idx += [(0, 0), (slice(None), 0), (0, slice(None)), (slice(None), -1), (Ellipsis, 0), (None, 0), (0, None),
                (slice(None, None, -1), slice(None, None, 2)), ([0, n0 - 1], [0, n1 - 1]), ([0], slice(None)), (slice(None), [n1 - 1, 0]),
                (np.array([True] + [False] * (n0 - 1)), slice(None)), (0, n1), (slice(None), slice(1, 1))]
    if len(shape) >= 3:
        idx += [(0, 0, 0), (Ellipsis, -1), (0, Ellipsis), (slice(None), 0, slice(None)), (1, slice(None), [0, 2]), (None, Ellipsis, None),
                (slice(None), slice(None), slice(None, None, 2))]
    return idx


def indexing(shapes):
    out = []
    for sv in shapes:
        if sv == ():
            continue
        for k, ix in enumerate(_index_grammar(sv)):
            for kind in ("var", "affine"):
                def se(c, sv=sv, kind=kind):
                    env = Env(c, sv)
                    if kind == "var":
                        return env, {"e": env.x}, {"e": env.vals(env.x)}
                    kc = env.const(sv, "k")
                    return env, {"e": env.x * kc + 1.5}, {"e": env.vals(env.x) * kc + 1.5}
                out += _run("rsome.lp:Affine.__getitem__" if kind == "affine" else "rsome.lp:Vars.__getitem__",
                            f"{kind}{sv}[{_ixs(ix)}]", se,
                            lambda o, ix=ix: (o["e"][ix]).to_affine() if not isinstance(o["e"][ix], lp.Affine) else o["e"][ix],
                            lambda v, ix=ix: v["e"][ix])
    return out


def _ixs(ix):
    if isinstance(ix, tuple):
        return ",".join(_ixs(i) for i in ix)
    if isinstance(ix, slice):
        return f"{'' if ix.start is None else ix.start}:{'' if ix.stop is None else ix.stop}" + (f":{ix.step}" if ix.step is not None else "")
    if ix is Ellipsis:
        return "..."
    if isinstance(ix, np.ndarray):
        return "mask" + "".join("1" if b else "0" for b in ix)
    return str(ix)


def reshaping(shapes):
    out = []
    for sv in shapes:
        size = int(np.prod(sv))
        targets = {(size,), (1, size), (size, 1), (-1,), (size + 1,)}
        if size % 2 == 0:
            targets |= {(2, size // 2), (size // 2, 2), (2, -1)}
        if size % 3 == 0:
            targets |= {(3, size // 3)}

        def se(c, sv=sv):
            env = Env(c, sv)
            kc = env.const(sv, "k")
            return env, {"e": env.x * kc + 0.5}, {"e": env.vals(env.x) * kc + 0.5}
        for t in sorted(targets):
            out += _run("rsome.lp:Affine.reshape", f"affine{sv}.reshape({t})", se, lambda o, t=t: o["e"].reshape(t),
                        lambda v, t=t: np.asarray(v["e"], dtype=object).reshape(t))
        out += _run("rsome.lp:Affine.flatten", f"affine{sv}.flatten()", se, lambda o: o["e"].flatten(),
                    lambda v: np.asarray(v["e"], dtype=object).flatten())
        out += _run("rsome.lp:Affine.T", f"affine{sv}.T", se, lambda o: o["e"].T, lambda v: np.asarray(v["e"], dtype=object).T)
        out += _run("rsome.lp:Affine.__neg__", f"-affine{sv}", se, lambda o: -o["e"], lambda v: -v["e"])
        for ax in [None] + list(range(-len(sv), len(sv) + 1)):
            out += _run("rsome.lp:Affine.sum", f"affine{sv}.sum({ax})", se, lambda o, ax=ax: o["e"].sum(axis=ax),
                        lambda v, ax=ax: np.asarray(v["e"], dtype=object).sum(axis=ax))
        if len(sv) >= 1:
            out += _run("rsome.lp:Vars.sum", f"var{sv}.sum()", lambda c, sv=sv: (lambda env: (env, {"e": env.x}, {"e": env.vals(env.x)}))(Env(c, sv)),
                        lambda o: o["e"].sum(), lambda v: np.asarray(v["e"], dtype=object).sum())
    return out


def stateful_reuse():
    """The SAME stored expression object used several times: a first use (which may fill internal caches) must not
    change what a later reshape / transpose / index / sum of that object denotes."""
    out = []
    warmups = {"e[0]": lambda e: e[0], "e[:, 1]": lambda e: e[:, 1], "e.sum(0)": lambda e: e.sum(axis=0), "e.sum()": lambda e: e.sum(),
               "e.T": lambda e: e.T, "e.reshape": lambda e: e.reshape((3, 2)), "e[1, ::2]": lambda e: e[1, ::2], "e+1": lambda e: e + 1}
    later = {"reshape((3,2))[1,0]": lambda e: e.reshape((3, 2))[1, 0], "reshape((3,2)).sum(0)": lambda e: e.reshape((3, 2)).sum(axis=0),
             "reshape(6)[3]": lambda e: e.reshape((6,))[3], "flatten()[::2]": lambda e: e.flatten()[::2],
             "reshape((3,2))[[0,2]]": lambda e: e.reshape((3, 2))[[0, 2]], "T[2]": lambda e: e.T[2], "reshape((1,6))[0,4]": lambda e: e.reshape((1, 6))[0, 4],
             "e[1]": lambda e: e[1], "e.sum(1)": lambda e: e.sum(axis=1), "T.reshape((2,3))[1]": lambda e: e.T.reshape((2, 3))[1],
             "reshape((3,2)).T[1]": lambda e: e.reshape((3, 2)).T[1]}
    for kind in ("affine", "biaffine"):
        def se(c, kind=kind):
            env = Env(c, (2, 3), sz=(2, 3))
            kc = env.const((2, 3), "k")
            if kind == "affine":
                return env, {"e": env.x * kc + 0.5}, {"e": env.vals(env.x) * kc + 0.5}
            return env, {"e": env.x * env.z + env.x * kc}, {"e": env.vals(env.x) * env.vals(env.z) + env.vals(env.x) * kc}
        for wn, wf in warmups.items():
            for ln, lf in later.items():
                if kind == "biaffine" and "flatten" in ln:
                    continue                              # RoAffine has no flatten(): the attribute lookup itself raises (allowed: unsupported = loud)
                out += _run("rsome.lp:Affine.<reuse of one object>", f"{kind}: {wn} then {ln}", se,
                            lambda o, wf=wf, lf=lf: (wf(o["e"]), lf(o["e"]))[1], lambda v, lf=lf: lf(np.asarray(v["e"], dtype=object)))
    return out


def methods_on_variables_and_rules():
    """The same operations spelled as METHODS / reflected operators of variables, variable slices, decision rules and
    rule slices (the front ends in math.py convert to Affine first, so these classes' own methods are separate code)."""
    out = []

    def env_x(c):
        env = Env(c, (2, 3), sy=(2, 2), sz=(2, 3))
        return env
    k23 = lambda env: env.const((2, 3), "k")                                  # noqa: E731
    cases = [
        ("Vars.T", lambda e: e.x.T, lambda e: e.vals(e.x).T),
        ("Vars.tril", lambda e: e.y.tril(), lambda e: np.tril(np.asarray(e.vals(e.y), dtype=object))),
        ("Vars.triu(1)", lambda e: e.y.triu(1), lambda e: np.triu(np.asarray(e.vals(e.y), dtype=object), 1)),
        ("Vars.diag", lambda e: e.y.diag(), lambda e: np.diag(np.asarray(e.vals(e.y), dtype=object))),
        ("Vars.trace", lambda e: e.y.trace(), lambda e: np.trace(np.asarray(e.vals(e.y), dtype=object))),
        ("VarSub.T", lambda e: e.x[:, 1:].T, lambda e: e.vals(e.x)[:, 1:].T),
        ("VarSub.reshape", lambda e: e.x[0].reshape((3, 1)), lambda e: e.vals(e.x)[0].reshape((3, 1))),
        ("VarSub.__getitem__", lambda e: e.x[0:2][1][::2], lambda e: e.vals(e.x)[0:2][1][::2]),
        ("VarSub.sum(axis)", lambda e: e.x[:, :2].sum(axis=0), lambda e: e.vals(e.x)[:, :2].sum(axis=0)),
        ("array + VarSub", lambda e: k23(e)[0] + e.x[1], lambda e: k23(e)[0] + e.vals(e.x)[1]),
        ("array - VarSub", lambda e: k23(e)[0] - e.x[1], lambda e: k23(e)[0] - e.vals(e.x)[1]),
        ("array @ VarSub", lambda e: k23(e) @ e.x[1], lambda e: k23(e) @ e.vals(e.x)[1]),
        ("VarSub @ array", lambda e: e.x[1] @ k23(e).T, lambda e: e.vals(e.x)[1] @ k23(e).T),
    ]
    for name, rs, npf in cases:
        def se(c, rs=rs, npf=npf):
            env = env_x(c)
            env._k = None
            return env, {"e": env}, {"e": env}
        # constants must be the same object in both evaluations: cache on the env
        def rs_op(o, rs=rs):
            return rs(_cached(o["e"]))
        def np_op(v, npf=npf):
            return npf(_cached(v["e"]))
        out += _run("rsome.lp:Vars/VarSub.<method>", name, se, rs_op, np_op)
    if FRONT == "ro":
        # decision rules y(z) = y0 + Y z of an ro model
        def env_r(c):
            env = Env(c, (2, 3), sz=(2,))
            env.r = env.m.ldr((2, 3))
            env.r.adapt(env.z)
            env.r.to_affine()                      # the coefficient columns are declared when the rule is first used
            nd = env.m.rc_model.last
            env.xbar = arr([c.fresh_real(f"x{i}_") for i in range(nd)])
            return env
        rule_cases = [
            ("DecRule.T", lambda e: e.r.T, None), ("array + DecRule", lambda e: k23(e) + e.r, lambda e, v: k23(e) + v),
            ("array - DecRule", lambda e: k23(e) - e.r, lambda e, v: k23(e) - v), ("DecRule - array", lambda e: e.r - k23(e), lambda e, v: v - k23(e)),
            ("array @ DecRule.T", lambda e: k23(e) @ e.r.T, lambda e, v: k23(e) @ v.T), ("DecRule.sum(0)", lambda e: e.r.sum(axis=0), lambda e, v: v.sum(axis=0)),
            ("-DecRule", lambda e: -e.r, lambda e, v: -v), ("DecRule * array", lambda e: e.r * k23(e), lambda e, v: v * k23(e)),
            ("DecRuleSub.T", lambda e: e.r[:, 1:].T, lambda e, v: v[:, 1:].T), ("array + DecRuleSub", lambda e: k23(e)[0] + e.r[1], lambda e, v: k23(e)[0] + v[1]),
            ("array - DecRuleSub", lambda e: k23(e)[0] - e.r[1], lambda e, v: k23(e)[0] - v[1]), ("DecRuleSub - array", lambda e: e.r[1] - k23(e)[0], lambda e, v: v[1] - k23(e)[0]),
            ("DecRuleSub @ array", lambda e: e.r[1] @ k23(e).T, lambda e, v: v[1] @ k23(e).T), ("array @ DecRuleSub", lambda e: k23(e) @ e.r[1], lambda e, v: k23(e) @ v[1]),
            ("DecRuleSub.sum()", lambda e: e.r[0].sum(), lambda e, v: v[0].sum()), ("2 * DecRuleSub", lambda e: 2 * e.r[:, 0], lambda e, v: 2 * v[:, 0]),
        ]
        for name, rs, npf in rule_cases:
            if npf is None:
                npf = lambda e, v: v.T                                          # noqa: E731
            def se(c, rs=rs):
                env = env_r(c)
                return env, {"e": env}, {"e": env}
            def rs_op(o, rs=rs):
                return rs(_cached(o["e"]))
            def np_op(v, npf=npf):
                e = _cached(v["e"])
                return npf(e, np.asarray(e.value(e.r), dtype=object))
            out += _run("rsome.lp:DecRule/DecRuleSub.<method>", name, se, rs_op, np_op)
    return out


def _cached(env):
    """`env.const` draws fresh symbols: make the rsome operation and the NumPy oracle see the SAME constant array"""
    if not getattr(env, "_const_cached", False):
        real = env.const
        memo = {}

        def const(shape, name, zeros=False):
            key = (tuple(shape), name, zeros)
            if key not in memo:
                memo[key] = real(shape, name, zeros)
            return memo[key]
        env.const = const
        env._const_cached = True
    return env


def fancy_index_permutations():
    """integer index arrays that are not monotone (incl. the ones that start at their minimum and end at their maximum),
    repeated entries, and a transposition written with two index arrays"""
    out = []
    perms = [[0, 2, 1, 3], [0, 2, 2, 3], [0, 1, 3, 2], [1, 0, 3, 2], [3, 2, 1, 0], [0, 3], [0, 1, 2, 3], [2, 2, 2], [0, 2, 1, 3, 0]]
    for ix in perms:
        def se(c):
            env = Env(c, (4,))
            k = env.const((4,), "k")
            return env, {"x": env.x, "e": k * env.x + 1.0}, {"x": env.vals(env.x), "e": k * env.vals(env.x) + 1.0}
        out += _run("rsome.lp:VarSub.to_affine", f"x(4,)[{ix}] + 0", se, lambda o, ix=ix: o["x"][ix] + 0, lambda v, ix=ix: v["x"][ix] + 0)
        out += _run("rsome.lp:VarSub.to_affine", f"2 * x(4,)[{ix}]", se, lambda o, ix=ix: 2.0 * o["x"][ix], lambda v, ix=ix: 2.0 * v["x"][ix])
        out += _run("rsome.lp:Affine.__getitem__", f"affine(4,)[{ix}]", se, lambda o, ix=ix: o["e"][ix], lambda v, ix=ix: v["e"][ix])
        out += _run("rsome.lp:VarSub.sum", f"x(4,)[{ix}].sum()", se, lambda o, ix=ix: o["x"][ix].sum(), lambda v, ix=ix: v["x"][ix].sum())
    rows, cols = np.arange(3)[None, :], np.arange(3)[:, None]
    for name, ix in (("transpose by index arrays", (rows, cols)), ("anti-diagonal", ([0, 1, 2], [2, 1, 0])), ("row permutation", ([2, 0, 1],)),
                     ("block out of order", (np.array([[0, 2], [1, 0]]), np.array([[1, 1], [0, 2]])))):
        def se2(c):
            env = Env(c, (3, 3))
            return env, {"x": env.x}, {"x": env.vals(env.x)}
        out += _run("rsome.lp:VarSub.to_affine", f"X(3,3)[{name}] * 1", se2, lambda o, ix=ix: o["x"][ix] * 1.0, lambda v, ix=ix: v["x"][ix] * 1.0)
        out += _run("rsome.lp:VarSub.to_affine", f"(X(3,3)[{name}] + 1).sum(0)", se2, lambda o, ix=ix: (o["x"][ix] + 1.0).sum(axis=0),
                    lambda v, ix=ix: (np.asarray(v["x"][ix], dtype=object) + 1.0).sum(axis=0))
    return out


def triangular(shapes):
    out = []
    for sv in shapes:
        def se(c, sv=sv):
            env = Env(c, sv)
            kc = env.const(sv, "k")
            return env, {"e": env.x * kc + 0.5}, {"e": env.vals(env.x) * kc + 0.5}
        for k in (-1, 0, 1, 2):
            out += _run("rsome.lp:Affine.tril", f"tril(affine{sv},{k})", se, lambda o, k=k: rsome.tril(o["e"], k),
                        lambda v, k=k: _np2d(np.tril, v["e"], k))
            out += _run("rsome.lp:Affine.triu", f"triu(affine{sv},{k})", se, lambda o, k=k: rsome.triu(o["e"], k),
                        lambda v, k=k: _np2d(np.triu, v["e"], k))
            out += _run("rsome.lp:Affine.diag", f"diag(affine{sv},{k})", se, lambda o, k=k: rsome.diag(o["e"], k),
                        lambda v, k=k: _np2d(np.diag, v["e"], k))
            out += _run("rsome.lp:Affine.diag", f"diag(affine{sv},{k},fill)", se, lambda o, k=k: rsome.diag(o["e"], k, fill=True),
                        lambda v, k=k: _np2d(_fill_diag, v["e"], k))
        out += _run("rsome.lp:Affine.trace", f"trace(affine{sv})", se, lambda o: rsome.trace(o["e"]),
                    lambda v: _np2d(lambda a, k: np.trace(a), v["e"], 0))
    return out


def _np2d(f, a, k):
    a = np.asarray(a, dtype=object)
    if a.ndim != 2:
        raise ValueError("2-D only")
    return f(a, k)


def _fill_diag(a, k):
    out = np.zeros(a.shape, dtype=object)
    out[:] = 0.0
    for i in range(a.shape[0]):
        j = i + k
        if 0 <= j < a.shape[1]:
            out[i, j] = a[i, j]
    return out


def stacking():
    out = []
    cases = [((3,), (2,), 0), ((2, 3), (1, 3), 0), ((2, 3), (2, 1), 1), ((2, 3), (2, 2), 0), ((3,), (3,), 1), ((), (), 0),
             ((2, 2, 3), (2, 1, 3), 1), ((2, 2, 3), (2, 2, 1), 2), ((2, 3), (3,), 0),
             # leading dimension 1 (a batch of one), joined along a trailing / negative axis; 4-D
             ((1, 2, 3), (1, 2, 1), 2), ((1, 2, 3), (1, 2, 2), -1), ((1, 2, 2), (1, 1, 2), 1), ((1, 2, 2), (1, 1, 2), -2),
             ((1, 1, 2, 2), (1, 1, 2, 1), 3), ((2, 1, 2), (2, 1, 1), -1), ((1, 2, 1, 2), (1, 2, 2, 2), 2)]
    for sx, sy, ax in cases:
        def se(c, sx=sx, sy=sy):
            env = Env(c, sx, sy)
            k = env.const(sy, "k")
            return env, {"x": env.x, "y": env.y * 2.0 + k, "k": k}, {"x": env.vals(env.x), "y": env.vals(env.y) * 2.0 + k, "k": k}
        out += _run("rsome.lp:concat", f"concat(var{sx}, affine{sy}, axis={ax})", se, lambda o, ax=ax: lp.concat([o["x"], o["y"]], axis=ax),
                    lambda v, ax=ax: np.concatenate([np.asarray(v["x"], dtype=object), np.asarray(v["y"], dtype=object)], axis=ax))
        out += _run("rsome.lp:concat", f"concat(var{sx}, const{sy}, axis={ax})", se, lambda o, ax=ax: lp.concat([o["x"], o["k"]], axis=ax),
                    lambda v, ax=ax: np.concatenate([np.asarray(v["x"], dtype=object), np.asarray(v["k"], dtype=object)], axis=ax))
        out += _run("rsome.lp:Affine.concat", f"affine{sx}.concat(affine{sy}, axis={ax})", se,
                    lambda o, ax=ax: o["x"].to_affine().concat(o["y"], axis=ax),
                    lambda v, ax=ax: np.concatenate([np.asarray(v["x"], dtype=object), np.asarray(v["y"], dtype=object)], axis=ax))

    def se2(c):
        env = Env(c, (2,), (2,))
        return env, {"x": env.x, "y": env.y}, {"x": env.vals(env.x), "y": env.vals(env.y)}
    # rstack/cstack are documented as concat along axis 0/1 of the arguments (lists are first joined along
    # the other axis); they are NOT numpy.vstack/hstack for 1-D arguments, so the oracle is np.concatenate
    out += _run("rsome.lp:rstack", "rstack(x, y)", se2, lambda o: lp.rstack(o["x"], o["y"]),
                lambda v: np.concatenate([v["x"], v["y"]], axis=0))
    out += _run("rsome.lp:rstack", "rstack(x[None], y[None])", se2, lambda o: lp.rstack(o["x"].reshape((1, 2)), o["y"].reshape((1, 2))),
                lambda v: np.vstack([v["x"], v["y"]]))
    out += _run("rsome.lp:rstack", "rstack([x[0], y[1]], [y[0], x[1]])", se2,
                lambda o: lp.rstack([o["x"][0:1], o["y"][1:2]], [o["y"][0:1], o["x"][1:2]]),
                lambda v: np.array([[v["x"][0], v["y"][1]], [v["y"][0], v["x"][1]]], dtype=object))
    out += _run("rsome.lp:cstack", "cstack(x[:,None], y[:,None])", se2,
                lambda o: lp.cstack(o["x"].reshape((2, 1)), o["y"].reshape((2, 1))),
                lambda v: np.hstack([v["x"].reshape((2, 1)), v["y"].reshape((2, 1))]))
    out += _run("rsome.lp:vec", "vec(x[0], 2.5, y[1])", se2, lambda o: lp.vec(o["x"][0], 2.5, o["y"][1]),
                lambda v: np.array([v["x"][0], 2.5, v["y"][1]], dtype=object))
    out += _run("rsome.lp:vec", "vec(x) rejects non-scalars", se2, lambda o: lp.vec(o["x"], o["y"][1]),
                lambda v: (_ for _ in ()).throw(ValueError("non-scalar")))
    return out


def biaffine(shapes):
    out = []
    pairs = [((), ()), ((3,), (3,)), ((2, 3), (2, 3)), ((2, 3), (3,)), ((3,), (2, 3)), ((2, 1), (1, 3)), ((3,), ()), ((), (3,)), ((2, 3), (2,))]
    for sx, sz in pairs:
        def se(c, sx=sx, sz=sz):
            env = Env(c, sx, None, sz)
            return env, {"x": env.x, "z": env.z}, {"x": env.vals(env.x), "z": env.vals(env.z)}
        out += _run("rsome.lp:Affine.__mul__", f"x{sx} * z{sz}", se, lambda o: o["x"] * o["z"], lambda v: v["x"] * v["z"])
        out += _run("rsome.lp:Affine.__mul__", f"z{sz} * x{sx}", se, lambda o: o["z"] * o["x"], lambda v: v["z"] * v["x"])
        out += _run("rsome.lp:Affine.__mul__", f"(2x+1){sx} * (3z-1){sz}", se, lambda o: (2.0 * o["x"] + 1.0) * (3.0 * o["z"] - 1.0),
                    lambda v: (2.0 * v["x"] + 1.0) * (3.0 * v["z"] - 1.0))
        out += _run("rsome.lp:Affine.__add__", f"x{sx} + z{sz}", se, lambda o: o["x"] + o["z"], lambda v: v["x"] + v["z"])
        out += _run("rsome.lp:Affine.__add__", f"z{sz} - x{sx}", se, lambda o: o["z"] - o["x"], lambda v: v["z"] - v["x"])
        out += _run("rsome.lp:Affine.__add__", f"z{sz} + x{sx}", se, lambda o: o["z"] + o["x"], lambda v: v["z"] + v["x"])
        out += _run("rsome.lp:Affine.__add__", f"x{sx} - z{sz}", se, lambda o: o["x"] - o["z"], lambda v: v["x"] - v["z"])
        if sx and sz:
            A = "rsome.lp:Affine.__add__"
            out += _run(A, f"z{sz}[0] + x{sx}[0]", se, lambda o: o["z"][0] + o["x"][0], lambda v: v["z"][0] + v["x"][0])
            out += _run(A, f"x{sx}[0] + z{sz}[0]", se, lambda o: o["x"][0] + o["z"][0], lambda v: v["x"][0] + v["z"][0])
            out += _run(A, f"z{sz}[0] - x{sx}[0]", se, lambda o: o["z"][0] - o["x"][0], lambda v: v["z"][0] - v["x"][0])
            out += _run(A, f"z{sz} + x{sx}[0:1]", se, lambda o: o["z"] + o["x"][0:1], lambda v: v["z"] + v["x"][0:1])
            out += _run(A, f"z{sz}[0:1] + x{sx}", se, lambda o: o["z"][0:1] + o["x"], lambda v: v["z"][0:1] + v["x"])
    mm = [((3,), (3,)), ((2, 3), (3,)), ((2, 3), (3, 2)), ((3,), (3, 2)), ((2, 2, 3), (3,)), ((2, 3), (2,)), ((1, 3), (3, 1))]
    for sx, sz in mm:
        def se(c, sx=sx, sz=sz):
            env = Env(c, sx, None, sz)
            return env, {"x": env.x, "z": env.z}, {"x": env.vals(env.x), "z": env.vals(env.z)}
        out += _run("rsome.lp:Affine.__matmul__", f"x{sx} @ z{sz}", se, lambda o: o["x"] @ o["z"], lambda v: v["x"] @ v["z"])
        out += _run("rsome.lp:Affine.__matmul__", f"z{sz}.T-like @ x: z{sz} @ x{sx}", se, lambda o: o["z"] @ o["x"], lambda v: v["z"] @ v["x"])
    # operators on an existing bi-affine expression
    for sx in [(3,), (2, 3)]:
        def se(c, sx=sx):
            env = Env(c, sx, None, sx)
            k = env.const(sx, "k")
            e = env.x * env.z + env.x
            ev = env.vals(env.x) * env.vals(env.z) + env.vals(env.x)
            return env, {"e": e, "k": k, "x": env.x, "z": env.z}, {"e": ev, "k": k, "x": env.vals(env.x), "z": env.vals(env.z)}
        R = "rsome.lp:RoAffine."
        out += _run(R + "__neg__", f"-(x*z+x){sx}", se, lambda o: -o["e"], lambda v: -v["e"])
        out += _run(R + "__add__", f"(x*z+x){sx} + const", se, lambda o: o["e"] + o["k"], lambda v: v["e"] + v["k"])
        out += _run(R + "__add__", f"(x*z+x){sx} + scalar", se, lambda o: 1.5 + o["e"], lambda v: 1.5 + v["e"])
        out += _run(R + "__add__", f"(x*z+x){sx} + x", se, lambda o: o["e"] + o["x"], lambda v: v["e"] + v["x"])
        out += _run(R + "__add__", f"(x*z+x){sx} - z", se, lambda o: o["e"] - o["z"], lambda v: v["e"] - v["z"])
        out += _run(R + "__add__", f"(x*z+x){sx} + (x*z+x)", se, lambda o: o["e"] + o["e"], lambda v: v["e"] + v["e"])
        out += _run(R + "__mul__", f"(x*z+x){sx} * const", se, lambda o: o["e"] * o["k"], lambda v: v["e"] * v["k"])
        out += _run(R + "__rmul__", f"const * (x*z+x){sx}", se, lambda o: o["k"] * o["e"], lambda v: v["k"] * v["e"])
        out += _run(R + "__rmul__", f"2.5 * (x*z+x){sx}", se, lambda o: 2.5 * o["e"], lambda v: 2.5 * v["e"])
        out += _run(R + "sum", f"(x*z+x){sx}.sum()", se, lambda o: o["e"].sum(), lambda v: v["e"].sum())
        out += _run(R + "sum", f"(x*z+x){sx}.sum(0)", se, lambda o: o["e"].sum(axis=0), lambda v: v["e"].sum(axis=0))
        out += _run(R + "T", f"(x*z+x){sx}.T", se, lambda o: o["e"].T, lambda v: v["e"].T)
        out += _run(R + "reshape", f"(x*z+x){sx}.reshape(-1,1)", se, lambda o: o["e"].reshape((-1, 1)), lambda v: v["e"].reshape((-1, 1)))
        out += _run(R + "__getitem__", f"(x*z+x){sx}[0]", se, lambda o: o["e"][0], lambda v: v["e"][0])
        out += _run(R + "__getitem__", f"(x*z+x){sx}[::-1]", se, lambda o: o["e"][::-1], lambda v: v["e"][::-1])
        out += _run(R + "__getitem__", f"(x*z+x){sx}[...,1:]", se, lambda o: o["e"][..., 1:], lambda v: v["e"][..., 1:])
        out += _run(R + "__matmul__", f"(x*z+x){sx} @ const.T", se, lambda o: o["e"] @ o["k"].T, lambda v: v["e"] @ v["k"].T)
        out += _run(R + "__rmatmul__", f"const @ (x*z+x){sx}.T", se, lambda o: o["k"] @ o["e"].T, lambda v: v["k"] @ v["e"].T)
    # a bi-affine expression built BEFORE further random variables are declared, combined with one built afterwards (ro front end)
    if FRONT != "dro":
        for first in (1, 2):
            def se_late(c, first=first):
                env = Env.__new__(Env)
                env.c, env.nz = c, True
                m = ro.Model()
                m.dvar(2)
                x = m.dvar(3)
                z1 = m.rvar(first)
                e1 = x * z1.sum() if first > 1 else x * z1
                z2 = m.rvar(4)
                e2 = x * z2[:3]
                env.m, env.x, env.z = m, x, z2
                env.xbar = arr([c.fresh_real(f"x{i}_") for i in range(m.rc_model.last)])
                env.zbar = arr([c.fresh_real(f"z{i}_") for i in range(m.sup_model.last)])
                xv, z1v, z2v = env.vals(x), env.vals(z1), env.vals(z2)
                return env, {"e1": e1, "e2": e2, "z2": z2}, {"e1": xv * (sum(z1v) if first > 1 else z1v), "e2": xv * z2v[:3], "z2": z2v}
            out += _run("rsome.lp:RoAffine.__add__", f"(x*z1 built with {first} random component(s)) + (x*z2 built after rvar(4))", se_late,
                        lambda o: o["e1"] + o["e2"], lambda v: v["e1"] + v["e2"])
            out += _run("rsome.lp:RoAffine.__add__", f"late (x*z2) + early (x*z1), {first} component(s)", se_late,
                        lambda o: o["e2"] - o["e1"], lambda v: v["e2"] - v["e1"])
            out += _run("rsome.lp:RoAffine.__add__", f"early (x*z1) + random z2[:3], {first} component(s)", se_late,
                        lambda o: o["e1"] + o["z2"][:3], lambda v: v["e1"] + v["z2"][:3])
    # element-wise products with RANDOM AFFINE EXPRESSIONS whose entries depend on several (or no) random variables
    def se_r(c):
        env = Env(c, (3,), None, (4,))
        B = env.const((3, 4), "B")
        mu = env.const((3,), "mu")
        return env, {"x": env.x, "z": env.z, "B": B, "mu": mu}, {"x": env.vals(env.x), "z": env.vals(env.z), "B": B, "mu": mu}
    M = "rsome.lp:Affine.__mul__"
    out += _run(M, "x(3,) * (B @ z(4,) + mu)", se_r, lambda o: o["x"] * (o["B"] @ o["z"] + o["mu"]), lambda v: v["x"] * (v["B"] @ v["z"] + v["mu"]))
    out += _run(M, "(B @ z + mu) * x", se_r, lambda o: (o["B"] @ o["z"] + o["mu"]) * o["x"], lambda v: (v["B"] @ v["z"] + v["mu"]) * v["x"])
    out += _run(M, "x * (z[:3] + z[1:])", se_r, lambda o: o["x"] * (o["z"][:3] + o["z"][1:]), lambda v: v["x"] * (v["z"][:3] + v["z"][1:]))
    out += _run(M, "x * z.sum()", se_r, lambda o: o["x"] * o["z"].sum(), lambda v: v["x"] * v["z"].sum())
    out += _run(M, "x * (mu + 0*z[:3]) [entries without a random part]", se_r, lambda o: o["x"] * (o["mu"] + 0.0 * o["z"][:3]), lambda v: v["x"] * (v["mu"] + 0.0 * v["z"][:3]))
    out += _run(M, "(2x+1) * (z[:3] - 2*z[3])", se_r, lambda o: (2.0 * o["x"] + 1.0) * (o["z"][:3] - 2.0 * o["z"][3]), lambda v: (2.0 * v["x"] + 1.0) * (v["z"][:3] - 2.0 * v["z"][3]))
    out += _run(M, "x[:2].reshape((2,1)) * (B[:2] @ z).reshape((1,2))", se_r, lambda o: o["x"][:2].reshape((2, 1)) * (o["B"][:2] @ o["z"]).reshape((1, 2)),
                lambda v: v["x"][:2].reshape((2, 1)) * (v["B"][:2] @ v["z"]).reshape((1, 2)))
    # a bi-affine expression broadcast against constants / expressions along trailing and inner axes
    for se_shape, other_shape in (((2, 1), (2, 3)), ((2, 1), (1, 3)), ((3,), (2, 3)), ((1, 3), (2, 1)), ((2, 1, 1), (2, 3))):
        def se(c, se_shape=se_shape, other_shape=other_shape):
            env = Env(c, se_shape, other_shape, se_shape)
            k = env.const(other_shape, "k")
            a = env.const(se_shape, "a")
            e = env.x + a * env.z
            ev = env.vals(env.x) + a * env.vals(env.z)
            return env, {"e": e, "k": k, "y": env.y}, {"e": ev, "k": k, "y": env.vals(env.y)}
        R = "rsome.lp:RoAffine."
        lab = f"(x+a*z){se_shape} with {other_shape}"
        out += _run(R + "__add__", lab + ": e + const", se, lambda o: o["e"] + o["k"], lambda v: v["e"] + v["k"])
        out += _run(R + "__add__", lab + ": const - e", se, lambda o: o["k"] - o["e"], lambda v: v["k"] - v["e"])
        out += _run(R + "__add__", lab + ": e - var", se, lambda o: o["e"] - o["y"], lambda v: v["e"] - v["y"])
        out += _run(R + "__add__", lab + ": e + (var*const)", se, lambda o: o["e"] + o["y"] * o["k"], lambda v: v["e"] + v["y"] * v["k"])
        out += _run(R + "__mul__", lab + ": e * const", se, lambda o: o["e"] * o["k"], lambda v: v["e"] * v["k"])
    return out


def row_pointer_loops_lv():
    """The CSR row-pointer loops of array_to_sparse / sv_to_csr for EVERY number of rows (engine LV, fragment mode, contracts in
    props/c05_lv.py).  A VC that is not discharged is a violation only with a failing input found natively (random rows against
    a dense reference)."""
    from .. import lv
    from . import c05_lv
    from ..install import native

    def search_a2s():
        import scipy.sparse as rsp
        rng = np.random.default_rng(7)
        with native():
            for n in range(1, 7):
                for _ in range(20):
                    rows = [rsp.csr_matrix(rng.integers(-1, 2, (1, 4)).astype(float)) for _ in range(n)]
                    a = np.empty(n, dtype=object)
                    for i, r in enumerate(rows):
                        a[i] = r
                    try:
                        got = subroutines.array_to_sparse(a).toarray()
                    except Exception as e:       # noqa
                        return f"array_to_sparse raised {type(e).__name__} on {n} rows"
                    want = np.vstack([r.toarray() for r in rows])
                    if got.shape != want.shape or not np.allclose(got, want):
                        return f"array_to_sparse of rows {[r.toarray().tolist() for r in rows]} gives {got.tolist()}"
        return True

    def search_sv():
        rng = np.random.default_rng(11)
        with native():
            for n in range(1, 7):
                for _ in range(20):
                    items, want = [], np.zeros((n, 5))
                    for i in range(n):
                        k = int(rng.integers(0, 4))
                        idx = [int(v) for v in rng.integers(0, 5, k)]
                        val = [float(v) for v in rng.integers(-1, 2, k)]
                        items.append(lp.SparseVec(idx, val, 5))
                        for j, v in zip(idx, val):
                            want[i, j] += v
                    a = np.empty(n, dtype=object)
                    for i, it in enumerate(items):
                        a[i] = it
                    try:
                        got = subroutines.sv_to_csr(a).toarray()
                    except Exception as e:       # noqa
                        return f"sv_to_csr raised {type(e).__name__} on {n} rows"
                    if got.shape != want.shape or not np.allclose(got, want):
                        return f"sv_to_csr of {[(it.index, it.value) for it in items]} gives {got.tolist()}"
        return True
    out = []
    out += lv.verify_function("rsome.subroutines:array_to_sparse", subroutines.array_to_sparse, c05_lv.ARRAY_TO_SPARSE, {}, native_search=search_a2s)
    out += lv.verify_function("rsome.subroutines:sv_to_csr", subroutines.sv_to_csr, c05_lv.SV_TO_CSR, {}, native_search=search_sv)
    return out


def sparse_const():
    import scipy.sparse as rsp
    out = []
    M = np.array([[1.0, 0.0, 2.0], [0.0, -3.0, 0.0]])

    def se(c):
        env = Env(c, (3,))
        return env, {"x": env.x}, {"x": env.vals(env.x)}
    out += _run("rsome.lp:Affine.__rmatmul__", "scipy.sparse @ x(3,)", se, lambda o: rsp.csr_matrix(M) @ o["x"].to_affine(), lambda v: M @ v["x"])

    def se2(c):
        env = Env(c, (2, 3))
        return env, {"x": env.x}, {"x": env.vals(env.x)}
    out += _run("rsome.lp:Affine.__mul__", "x(2,3) * scipy.sparse", se2, lambda o: o["x"] * rsp.csr_matrix(M), lambda v: v["x"] * M)
    # bi-affine expressions times a SciPy sparse matrix (element-wise, as NumPy / SciPy define `*` for a dense operand): square and
    # non-square shapes, both operand orders
    for sx, Ms in (((2, 2), np.array([[1.0, 2.0], [0.0, 3.0]])), ((2, 3), M)):
        def se3(c, sx=sx):
            env = Env(c, sx, None, sx)
            e = env.x * env.z + env.x
            ev = env.vals(env.x) * env.vals(env.z) + env.vals(env.x)
            return env, {"e": e}, {"e": ev}
        out += _run("rsome.lp:RoAffine.__mul__", f"(x*z+x){sx} * scipy.sparse", se3, lambda o, Ms=Ms: o["e"] * rsp.csr_matrix(Ms), lambda v, Ms=Ms: v["e"] * Ms)
        out += _run("rsome.lp:RoAffine.__rmul__", f"scipy.sparse * (x*z+x){sx}", se3, lambda o, Ms=Ms: o["e"].__rmul__(rsp.csr_matrix(Ms)), lambda v, Ms=Ms: Ms * v["e"])
    out += _run("rsome.lp:Affine.__add__", "x(2,3) + ndarray int dtype", se2, lambda o: o["x"] + np.array([[1, 2, 3], [4, 5, 6]]),
                lambda v: v["x"] + np.array([[1, 2, 3], [4, 5, 6]]))
    return out


OPS1 = [
    ("neg", lambda e: -e, lambda v: -v),
    ("T", lambda e: e.T, lambda v: np.asarray(v, dtype=object).T),
    ("sum0", lambda e: e.sum(axis=0), lambda v: np.asarray(v, dtype=object).sum(axis=0)),
    ("sum-1", lambda e: e.sum(axis=-1), lambda v: np.asarray(v, dtype=object).sum(axis=-1)),
    ("flat", lambda e: e.flatten() if hasattr(e, "flatten") else e.reshape((e.size,)), lambda v: np.asarray(v, dtype=object).flatten()),
    ("[0]", lambda e: e[0], lambda v: v[0]),
    ("[::-1]", lambda e: e[::-1], lambda v: v[::-1]),
    ("[...,0]", lambda e: e[..., 0], lambda v: v[..., 0]),
    ("[None]", lambda e: e[None], lambda v: np.asarray(v, dtype=object)[None]),
    ("*2.5", lambda e: e * 2.5, lambda v: v * 2.5),
    ("+col", lambda e: e + np.array([[1.0], [2.0]]), lambda v: v + np.array([[1.0], [2.0]])),
    ("3-", lambda e: 3.0 - e, lambda v: 3.0 - v),
    ("@ones", lambda e: e @ np.ones((e.shape[-1], 2)) if len(e.shape) else e @ np.ones((1, 2)),
     lambda v: v @ np.ones((np.shape(v)[-1], 2)) if np.ndim(v) else v @ np.ones((1, 2))),
    ("ones@", lambda e: np.ones((2, e.shape[0])) @ e if len(e.shape) else np.ones((2, 1)) @ e,
     lambda v: np.ones((2, np.shape(v)[0])) @ v if np.ndim(v) else np.ones((2, 1)) @ v),
    ("reshape-1", lambda e: e.reshape((-1,)), lambda v: np.asarray(v, dtype=object).reshape((-1,))),
]


def compositions(depth, n, seed):
    rng = random.Random(seed)
    out = []
    shapes = [(3,), (2, 3), (2, 2, 3), (2, 1)]
    for i in range(n):
        sv = rng.choice(shapes)
        chain = [rng.choice(OPS1) for _ in range(depth)]
        bi = rng.random() < 0.35

        def se(c, sv=sv, bi=bi):
            env = Env(c, sv, None, sv if bi else None)
            if bi:
                return env, {"e": env.x * env.z + 1.0}, {"e": env.vals(env.x) * env.vals(env.z) + 1.0}
            k = env.const(sv, "k")
            return env, {"e": env.x * k}, {"e": env.vals(env.x) * k}

        def rs(o, chain=chain):
            e = o["e"]
            for _, f, _g in chain:
                e = f(e)
            return e

        def npf(v, chain=chain):
            e = v["e"]
            for _, _f, g in chain:
                e = g(e)
            return e
        out += _run("rsome.lp:<composition>", f"{'bi' if bi else ''}affine{sv}." + ".".join(c[0] for c in chain), se, rs, npf)
    return out


def jobs(tier):
    sh = SHAPES_Q if tier == "quick" else SHAPES_T
    js = []
    for i in range(0, len(sh)):
        js.append({"name": f"elementwise-{i}", "kind": "elementwise", "shapes": [list(sh[i])], "others": [list(s) for s in sh], "zeros": False})
    js.append({"name": "elementwise-zeros", "kind": "elementwise", "shapes": [list(s) for s in sh[:5]], "others": [list(s) for s in sh[:5]], "zeros": True})
    js.append({"name": "var-var", "kind": "var_var", "shapes": [list(s) for s in sh]})
    for i in range(1, len(sh)):
        js.append({"name": f"matmul-{i}", "kind": "matmul", "shapes": [list(sh[i])], "others": [list(s) for s in sh], "zeros": False})
    # batch products whose batch axes broadcast in BOTH directions (rank 4 against rank 3 / 4)
    js.append({"name": "matmul-batch-broadcast", "kind": "matmul_pairs",
               "pairs": [[[3, 2, 1], [2, 1, 1, 2]], [[3, 1, 2], [2, 1, 2, 1]], [[2, 1, 2, 1], [3, 1, 2]], [[3, 1, 2, 1], [1, 2, 1, 2]],
                         [[1, 2, 2, 2], [2, 1, 2, 1]], [[3, 2, 1], [2, 1, 2, 2]], [[2, 2], [2, 1, 2, 2]], [[2, 1, 2, 2], [2]]]})
    js.append({"name": "matmul-zeros", "kind": "matmul", "shapes": [list(s) for s in sh[1:5]], "others": [list(s) for s in sh[1:5]], "zeros": True})
    for i in range(1, len(sh)):
        js.append({"name": f"indexing-{i}", "kind": "indexing", "shapes": [list(sh[i])]})
    js.append({"name": "reshaping", "kind": "reshaping", "shapes": [list(s) for s in sh]})
    js.append({"name": "triangular", "kind": "triangular", "shapes": [[2, 2], [2, 3], [3, 2], [4, 2], [5, 1], [3], [1, 1]]})
    js.append({"name": "stacking", "kind": "stacking"})
    js.append({"name": "fancy-index-permutations", "kind": "fancy"})
    js.append({"name": "dro-fancy-index-permutations", "kind": "fancy", "front": "dro"})
    js.append({"name": "methods", "kind": "methods"})
    js.append({"name": "dro-methods", "kind": "methods", "front": "dro"})
    js.append({"name": "stateful-reuse", "kind": "reuse"})
    js.append({"name": "dro-stateful-reuse", "kind": "reuse", "front": "dro"})
    js.append({"name": "biaffine", "kind": "biaffine"})
    js.append({"name": "sparse-const", "kind": "sparse_const"})
    js.append({"name": "row-pointer-loops-all-sizes", "kind": "lv"})
    js.append({"name": "shim-conformance", "kind": "conformance"})
    # the dro front end: its wrapper classes must be the same algebra
    dsh = [list(s) for s in (sh[:4] if tier == "quick" else sh)]
    js.append({"name": "dro-elementwise", "kind": "elementwise", "shapes": dsh[:3], "others": dsh, "zeros": False, "front": "dro"})
    js.append({"name": "dro-var-var", "kind": "var_var", "shapes": dsh, "front": "dro"})
    js.append({"name": "dro-matmul", "kind": "matmul", "shapes": dsh[1:3], "others": dsh, "zeros": False, "front": "dro"})
    js.append({"name": "dro-indexing", "kind": "indexing", "shapes": dsh[1:], "front": "dro"})
    js.append({"name": "dro-reshaping", "kind": "reshaping", "shapes": dsh, "front": "dro"})
    js.append({"name": "dro-triangular", "kind": "triangular", "shapes": [[2, 2], [2, 3], [3]], "front": "dro"})
    js.append({"name": "dro-stacking", "kind": "stacking", "front": "dro"})
    js.append({"name": "dro-biaffine", "kind": "biaffine", "front": "dro"})
    seed = int(os.environ.get("VERIF_SEED", "0") or 0)
    ncomp = 60 if tier == "quick" else 400
    for k in range(4):
        js.append({"name": f"compositions-{k}", "kind": "compositions", "depth": 2 if tier == "quick" else 3, "n": ncomp // 4, "seed": seed * 100 + k})
    return js


def _t(x):
    return [tuple(s) for s in x]


def run_job(job):
    global FRONT
    FRONT = job.get("front", "ro")
    out = _run_job(job)
    if FRONT != "ro":
        for o in out:
            o["label"] = f"front={FRONT}," + (o.get("label") or "")
            o["id"] = o["id"].replace("[", f"[front={FRONT},", 1) if "[" in o["id"] else o["id"] + f"[front={FRONT}]"
    return out


def _run_job(job):
    k = job["kind"]
    if k == "elementwise":
        out = []
        for sv in _t(job["shapes"]):
            out += [o for o in elementwise_pair(sv, _t(job["others"]), job["zeros"])]
        return out
    if k == "var_var":
        return var_var(_t(job["shapes"]))
    if k == "matmul":
        out = []
        for sv in _t(job["shapes"]):
            out += matmul_pair(sv, _t(job["others"]), job["zeros"])
        return out
    if k == "lv":
        return row_pointer_loops_lv()
    if k == "matmul_pairs":
        out = []
        for sv, sc in job["pairs"]:
            out += matmul_pair(tuple(sv), [tuple(sc)], False)
        return out
    if k == "indexing":
        return indexing(_t(job["shapes"]))
    if k == "reshaping":
        return reshaping(_t(job["shapes"]))
    if k == "triangular":
        return triangular(_t(job["shapes"]))
    if k == "stacking":
        return stacking()
    if k == "reuse":
        return stateful_reuse()
    if k == "methods":
        return methods_on_variables_and_rules()
    if k == "fancy":
        return fancy_index_permutations()
    if k == "biaffine":
        return biaffine(None)
    if k == "sparse_const":
        return sparse_const()
    if k == "compositions":
        return compositions(job["depth"], job["n"], job["seed"])
    if k == "conformance":
        # the assumed contracts of the NumPy/SciPy shims, tested against the real libraries on every formula that
        # rsome's own test-suite hands to a solver; a mismatch is a defect of the CHECKER (exit 3), never a violation
        from .. import conformance
        from ..engine import ob
        r = conformance.compare()
        if r["mismatches"] or r["formulas"] == 0:
            raise RuntimeError(f"shim conformance failed: {r['mismatches'][:5]}")
        return [ob("rverif.shims:<numpy/scipy shims>", "conformance-with-real-numpy-scipy",
                   f"{r['tests']} tests, {r['formulas']} formula comparisons (float and object mode)", "discharged",
                   mode="conformance", bounded=True, backend="concrete", seconds=0.0, path="")]
    raise ValueError(k)


def elementwise_pair(sv, others, zeros):
    out = []
    for sc in others:
        for opn, f in (("add", lambda a, b: a + b), ("radd", lambda a, b: b + a), ("sub", lambda a, b: a - b),
                       ("rsub", lambda a, b: b - a), ("mul", lambda a, b: a * b), ("rmul", lambda a, b: b * a)):
            def se(c, sv=sv, sc=sc):
                env = Env(c, sv)
                k = env.const(sc, "k", zeros)
                return env, {"x": env.x, "k": k}, {"x": env.vals(env.x), "k": k}
            out += _run(f"rsome.lp:Affine.__{opn}__", f"x{sv} {opn} const{sc}{' zeros' if zeros else ''}", se,
                        lambda o, f=f: f(o["x"], o["k"]), lambda v, f=f: f(v["x"], v["k"]))
    return out


def matmul_pair(sv, others, zeros):
    out = []
    for sc in others:
        if sv == () or sc == ():
            continue
        for side in ("x@C", "C@x"):
            def se(c, sv=sv, sc=sc):
                env = Env(c, sv)
                k = env.const(sc, "k", zeros)
                return env, {"x": env.x, "k": k}, {"x": env.vals(env.x), "k": k}
            f = (lambda a, b: a @ b) if side == "x@C" else (lambda a, b: b @ a)
            out += _run("rsome.lp:Affine.__matmul__" if side == "x@C" else "rsome.lp:Affine.__rmatmul__",
                        f"{side} x{sv} C{sc}{' zeros' if zeros else ''}", se,
                        lambda o, f=f: f(o["x"], o["k"]), lambda v, f=f: f(v["x"], v["k"]))
    return out
