"""C07 -- deterministic optimum is the true optimum: conic encodings are exact (DESIGN.md 5/C07).

(1) EXACT direction of every atom encoding and of the objective epigraph (shared harness with C06).
(2) Integrality vector aligned with the variable columns, also after re-formulation.
(3) Power-cone towers (p-norm, power, geometric mean through IPCone.to_soc): in the log domain every
    rotated cone  left^2 <= u*v  is  2*l <= u + v,  so the tower is SOUND iff the emitted inequalities
    imply  deg*l0 <= sum beta_i r_i  and EXACT iff every (l0, r) on that half-space extends to the
    intermediate variables -- two linear-arithmetic VCs over symbolic log-values per weight list.
"""
from __future__ import annotations

import itertools

import numpy as np

from ..engine import ContractShape, post, check_function, source_info
from ..harness import lp, socp, gcp, ro, rsome, arr, sym_array
from ..spec import views
from ..sym import SymReal, p_and, p_eq, p_implies, p_le
from . import c06

META = {
    "level": "other",
    "explanation": ("EXACT obligations (constraint as written => compiled feasible through a ghost witness) for every "
                    "LP/SOC/exp-cone atom and the objective epigraph; alignment of the integrality vector with the "
                    "columns (also after re-formulation); power-cone towers verified in the log domain for every "
                    "weight list up to the stated bound; ONE STEP of IPCone.split under a modular contract (recursive calls cut at the "
                    "callee's contract) for ALL positive integer weights at list lengths 2-4 (2-6 thorough), with the Lean lemmas "
                    "tower_step_* / pow_two_even carrying the step to the tower by induction over the degree 2^k (the induction "
                    "over the tree of rotated cones is Lean's tower_sound / tower_exact).  Complete over values; shapes and weight-list lengths bounded."),
    "bounds": "atoms: argument length 2; split step: list length <= 4 (quick) / 6 (thorough), weights unbounded; whole towers (to_pot + split, end to end): all weight lists of length <= 3 with entries <= 4 (quick), length <= 4 entries <= 6 (thorough)",
    "trusted_base": ["z3/cvc5", "log-domain reading of rotated cones on the positive orthant: Lean-checked (lean/Lemmas.lean rotated_cone_log, job lemmas-lean)", "ShimCSR"],
    "assumptions": ["the external solver finds the optimum of the compiled program (not decided here)",
                    "A-LOG: tower variables are positive (the closure at 0 is not examined)"],
}


# lemmas over the contracts, checked by Lean 4 + Mathlib on every run (lean/Lemmas.lean, rverif/lemmas.py)
LEMMAS = ["rotated_cone_log", "tower_step_sound", "tower_step_exact", "tower_step_exact_direct", "pow_two_even", "tower_sound", "tower_exact"]


def SOURCES():
    d = c06.SOURCES()
    d["rsome.lp:IPCone.to_pot"] = source_info(lp.IPCone.to_pot)
    d["rsome.lp:IPCone.split"] = source_info(lp.IPCone.split)
    d["rsome.lp:IPCone.to_soc"] = source_info(lp.IPCone.to_soc)
    return d


def jobs(tier):
    heavy = set()
    js = [{"name": f"exact-{n}", "kind": "constr", "case": n} for n, cs in c06.CASES.items() if cs.exact and n not in heavy]
    js += [{"name": f"exact-objective-{n}", "kind": "objective", "case": n} for n in c06.OBJECTIVES]
    js += [{"name": "vtype", "kind": "vtype"}]
    maxlen, maxw = (3, 4) if tier == "quick" else (4, 6)
    betas = [list(b) for n in range(1, maxlen + 1) for b in itertools.product(range(1, maxw + 1), repeat=n)]
    chunk = max(1, len(betas) // 12)
    for i in range(0, len(betas), chunk):
        js.append({"name": f"towers-{i // chunk}", "kind": "towers", "betas": betas[i:i + chunk]})
    for n in range(2, (5 if tier == "quick" else 7)):
        js.append({"name": f"split-step-{n}", "kind": "split_step", "n": n})
    js.append({"name": "atoms-through-towers", "kind": "tower_atoms"})
    js.append({"name": "tower-callsites", "kind": "tower_callsites"})
    js.append({"name": "pnorm-exp-cone-sampled", "kind": "pnorm_sampled"})     # exactness of the 'N' branch: numerical stand-in
    return js


# ---------------------------------------------------------------------------------- integrality alignment

def vtype_alignment():
    out = []

    def build(reformulate):
        def setup(c):
            m = ro.Model()
            b = m.dvar(2, "B")
            i = m.dvar(3, "I")
            w = m.dvar(2)
            mix = m.dvar(3, "CBI")
            z = m.rvar(2)
            m.minmax((w * z).sum() + b.sum() + i.sum(), z <= 1, z >= -1)
            m.st(rsome.norm(w, 2) <= 3, abs(w) <= 2 + b, i <= 5, i >= 0, mix <= 1)
            m.st(((w * z).sum() <= 4).forall(rsome.norm(z, 1) <= 1))
            F = m.do_math()
            decl = [(b, "BB"), (i, "III"), (w, "CC"), (mix, "CBI")]
            if reformulate:
                m.st(w.sum() <= 1)
                F = m.do_math()
                late = m.dvar(2, "B")
                m.st(late.sum() >= 1)
                F = m.do_math()
                decl.append((late, "BB"))
            return {"m": m, "F": F, "decl": decl}
        return setup

    def aligned(ns, F):
        nv = F.linear.shape[1]
        if len(F.vtype) != nv or len(F.ub) != nv or len(F.lb) != nv:
            return False
        for v, t in ns["decl"]:
            for k in range(v.size):
                if str(F.vtype[v.first + k]) != t[k]:
                    return False
        declared = set()
        for v, _t in ns["decl"]:
            declared.update(range(v.first, v.first + v.size))
        return all(str(F.vtype[j]) == "C" for j in range(nv) if j not in declared)

    # dro: every event-wise copy of a decision entry carries the entry's declared type
    def setup_dro(c):
        from ..harness import dro
        m = dro.Model(3)
        mix = m.dvar(3, "CIB")
        ci = m.dvar(2, "CI")
        w = m.dvar(2)
        i1 = m.dvar(2, "I")
        z = m.rvar(2)
        fs = m.ambiguity()
        fs.suppset(z <= 1, z >= -1)
        mix.adapt(1)
        mix.adapt(2)
        ci.adapt([0, 2])
        w.adapt(0)
        m.minsup(rsome.E(mix.sum() + ci.sum() + w.sum() + i1.sum() + (w * z).sum()), fs)
        m.st(mix <= 4, mix >= 0, ci <= 4, ci >= 0, i1 >= 1, i1 <= 3, w >= z, w <= 5)
        F = m.do_math()
        rules = m.rule_var()
        return {"m": m, "F": F, "rules": rules, "decl": [(mix, "CIB"), (ci, "CI"), (w, "CC"), (i1, "II")]}

    def aligned_dro(ns, F):
        from ..spec import views as V
        seen = {}
        for s, rule in enumerate(ns["rules"]):
            aff = rule.affine if isinstance(rule, lp.RoAffine) else rule
            R = V.dense(aff.linear)
            for v, t in ns["decl"]:
                for k in range(v.size):
                    cols = [j for j in range(R.shape[1]) if R[v.first + k, j] != 0]
                    if len(cols) != 1:
                        return False
                    if str(F.vtype[cols[0]]) != t[k]:
                        return False
                    seen[cols[0]] = t[k]
        return all(str(F.vtype[j]) == "C" for j in range(F.linear.shape[1]) if j not in seen)
    obs, _ = check_function("rsome.dro:Model.rule_var / do_math", setup_dro, lambda ns: ns["F"],
                            [post("every-event-wise-copy-of-an-entry-has-the-entry's-type", aligned_dro)], mode="D",
                            label="dro: mixed type strings with different event partitions", bounded=True)
    out += obs

    for reform in (False, True):
        obs, _ = check_function("rsome.lp:Model.do_math(primal)", build(reform), lambda ns: ns["F"],
                                [post("integrality-vector-aligned-with-columns", aligned)], mode="D",
                                label="after re-formulation and a late variable" if reform else "first formulation", bounded=True)
        out += obs
    return out


# ---------------------------------------------------------------------------------- towers in the log domain

def _single_col(a, what):
    """column index of an affine expression that is exactly one variable (coefficient 1, constant 0)."""
    A = views.dense(a.linear)
    if A.shape[0] != 1:
        raise ValueError(f"{what}: not a scalar")
    cols = [j for j in range(A.shape[1]) if A[0, j] != 0]
    if len(cols) != 1 or A[0, cols[0]] != 1 or np.any(np.asarray(a.const, dtype=float) != 0):
        raise ValueError(f"{what}: not a plain variable")
    return cols[0]


def _log_system(constrs):
    """Read the constraints emitted by IPCone.to_soc:  ('le', a, b): l_a <= l_b ;  ('rot', l, u, v): 2 l_l <= l_u + l_v."""
    sys_ = []
    for k in constrs:
        if not isinstance(k, lp.CvxConstr):
            raise ValueError(f"unexpected constraint {type(k).__name__}")
        if k.xtype == "A":
            # |left| <= right    (affine_in = left, affine_out = -right)
            sys_.append(("le", _single_col(k.affine_in, "abs.in"), _single_col(-k.affine_out, "abs.out")))
        elif k.xtype == "E":
            # rotated cone: affine_in = [ (y - z)/2 , left ],  affine_out = -(y + z)/2
            Aout = views.dense(k.affine_out.linear)
            cols = [j for j in range(Aout.shape[1]) if Aout[0, j] != 0]
            left = k.affine_in[1:]
            lcol = _single_col(left, "rot.left")
            if len(cols) == 1 and Aout[0, cols[0]] == -1.0:
                sys_.append(("rot", lcol, cols[0], cols[0]))
            elif len(cols) == 2 and all(Aout[0, j] == -0.5 for j in cols):
                sys_.append(("rot", lcol, cols[0], cols[1]))
            else:
                raise ValueError("rotated cone operands are not plain variables")
        else:
            raise ValueError(f"unexpected xtype {k.xtype}")
    return sys_


def tower(beta):
    def setup(c):
        m = ro.Model()
        model = m.rc_model
        left = m.dvar()
        right = m.dvar(len(beta))
        cone = lp.IPCone(left, right.to_affine(), list(beta))
        n0 = model.last
        return {"m": m, "model": model, "cone": cone, "left": left, "right": right, "beta": list(beta), "n0": n0, "c": c}

    def call(ns):
        constrs = ns["cone"].to_soc()
        return _log_system(constrs), ns["model"].last

    def _vals(ns, n, name):
        return [ctx_fresh(f"{name}{j}_") for j in range(n)]

    def holds(sys_, L):
        t = []
        for s in sys_:
            if s[0] == "le":
                t.append(p_le(L[s[1]], L[s[2]]))
            else:
                t.append(p_le(2 * L[s[1]], L[s[2]] + L[s[3]]))
        return p_and(*t)

    def sound(ns, res):
        sys_, n = res
        L = _vals(ns, n, "l")
        deg = sum(ns["beta"])
        rhs = sum((b * L[ns["right"].first + i] for i, b in enumerate(ns["beta"])), 0.0)
        return p_implies(holds(sys_, L), p_le(deg * L[ns["left"].first], rhs))

    def exact(ns, res):
        from fractions import Fraction
        sys_, n = res
        L = _vals(ns, n, "l")
        deg = sum(ns["beta"])
        n0 = ns["n0"]
        rhs = sum((b * L[ns["right"].first + i] for i, b in enumerate(ns["beta"])), 0.0)
        # ghost witness: every auxiliary variable is the left side of exactly one rotated cone; make all of
        # them tight (2 w_l = w_u + w_v) and solve the linear system exactly over the user log-values
        aux = list(range(n0, n))
        pos = {j: k for k, j in enumerate(aux)}
        rows = []
        for srec in sys_:
            if srec[0] == "rot" and srec[1] >= n0:
                _, l, u, v = srec
                coef = [Fraction(0)] * len(aux)
                rhs_user = [Fraction(0)] * n0
                coef[pos[l]] += 2
                for t in (u, v):
                    if t >= n0:
                        coef[pos[t]] -= 1
                    else:
                        rhs_user[t] += 1
                rows.append((coef, rhs_user))
        if len(rows) != len(aux):
            return False
        # Gaussian elimination (exact)
        M = [r[0] + r[1] for r in rows]
        k = len(aux)
        for col in range(k):
            piv = next((r for r in range(col, k) if M[r][col] != 0), None)
            if piv is None:
                return False
            M[col], M[piv] = M[piv], M[col]
            pv = M[col][col]
            M[col] = [x / pv for x in M[col]]
            for r in range(k):
                if r != col and M[r][col] != 0:
                    f = M[r][col]
                    M[r] = [x - f * y for x, y in zip(M[r], M[col])]
        W = list(L)
        for idx, j in enumerate(aux):
            W[j] = sum((float(M[idx][k + t]) * L[t] if M[idx][k + t].denominator in (1, 2, 4, 8, 16, 32, 64)
                        else (M[idx][k + t].numerator * L[t]) / M[idx][k + t].denominator
                        for t in range(n0) if M[idx][k + t] != 0), 0.0)
        return p_implies(p_le(deg * L[ns["left"].first], rhs), holds(sys_, W))

    obs, _ = check_function("rsome.lp:IPCone.to_soc", setup, call,
                            [post("SOUND(log domain): emitted cones imply left^deg <= prod right^beta", sound),
                             post("EXACT(log domain): every point of the power cone extends to the tower", exact)],
                            mode="D", label=f"beta={list(beta)}", bounded=True)
    return obs


def split_step(n):
    """ONE step of IPCone.split for ALL positive integer weights (list length n concrete, weights symbolic integers): the recursive
    calls `b.split()` are cut at the callee's contract (the class attribute is replaced by a recorder while the REAL function object
    runs), so the obligations are those of a modular proof:
      requires  len(beta) >= 2, every weight >= 1, sum(beta) = 2 * half for an integer half >= 1
      ensures   exactly one rotated cone, headed by the cone's own left variable; each of its two operands is either the head of
                exactly one child (a fresh column) or one of the cone's own right-hand variables;
                every child satisfies the precondition at degree `half` (>= 2 weights, each >= 1, summing to half) over distinct
                right-hand variables of the parent;
                for every right-hand variable j: half * [j is a direct operand] + sum of the children's weights on j = beta_j.
    Lean lemmas tower_step_sound / tower_step_exact / tower_step_exact_direct turn 'weights add up' into the log-domain statement
    of one step, pow_two_even closes the induction over the degree 2^k."""
    def setup(c):
        m = ro.Model()
        model = m.rc_model
        left = m.dvar()
        right = m.dvar(n)
        beta = [c.fresh_int(f"beta{j}_") for j in range(n)]
        for b in beta:
            c.assume(b >= 1)
        half = c.fresh_int("half_")
        c.assume(half >= 1)
        c.assume(sum(beta[1:], beta[0]) == 2 * half)
        cone = lp.IPCone(left, right.to_affine(), list(beta))
        return {"m": m, "model": model, "cone": cone, "left": left, "right": right, "beta": list(beta), "half": half,
                "n0": model.last}

    def call(ns):
        real = lp.IPCone.split
        kids = []

        def recorder(self):
            kids.append(self)
            return []
        lp.IPCone.split = recorder
        try:
            constrs = real(ns["cone"])
        finally:
            lp.IPCone.split = real
        recs = [(_single_col(k.left, "child.left"),
                 [_single_col(k.right[i], "child.right") for i in range(k.right.size)], list(k.beta)) for k in kids]
        return _log_system(constrs), recs

    def _cols(ns):
        return ns["left"].first, [ns["right"].first + j for j in range(n)]

    def structure(ns, res):
        sys_, kids = res
        lcol, rcols = _cols(ns)
        n0 = ns["n0"]
        if len(sys_) != 1 or sys_[0][0] != "rot" or sys_[0][1] != lcol:
            return False
        ops = [sys_[0][2], sys_[0][3]]
        heads = [k[0] for k in kids]
        if len(set(heads)) != len(heads) or any(h < n0 for h in heads):
            return False
        if sorted(o for o in ops if o >= n0) != sorted(heads) or any(o < n0 and o not in rcols for o in ops):
            return False
        return all(len(rc) == len(bl) and len(bl) >= 2 and len(set(rc)) == len(rc) and all(r in rcols for r in rc)
                   for _, rc, bl in kids)

    def kids_pre(ns, res):
        _, kids = res
        t = [p_eq(sum(bl[1:], bl[0]), ns["half"]) for _, _, bl in kids if bl]
        t += [p_le(1, b) for _, _, bl in kids for b in bl]
        return p_and(*t) if t else True

    def weights(ns, res):
        sys_, kids = res
        if len(sys_) != 1 or sys_[0][0] != "rot":
            return False
        _, rcols = _cols(ns)
        ops = [sys_[0][2], sys_[0][3]]
        t = []
        for j, rc in enumerate(rcols):
            tot = ns["half"] * sum(1 for o in ops if o == rc)
            for _, krc, kbl in kids:
                for r, w in zip(krc, kbl):
                    if r == rc:
                        tot = tot + w
            t.append(p_eq(tot, ns["beta"][j]))
        return p_and(*t)

    obs, _ = check_function("rsome.lp:IPCone.split", setup, call,
                            [post("STEP: one rotated cone on the cone's head; operands are child heads (fresh, each once) or own variables", structure),
                             post("STEP: every child meets the precondition at half the degree", kids_pre),
                             post("STEP: direct operands and children's weights add up to the parent's weights", weights)],
                            mode="D", label=f"split-step,len={n},weights symbolic", bounded=False, max_paths=20000)
    return obs


def ctx_fresh(name):
    from ..sym import ctx
    return ctx().fresh_real(name)


def tower_atoms():
    """p-norm / power / geometric-mean constraints reach IPCone with the documented weights."""
    out = []
    cases = {
        "pnorm3": (lambda x: rsome.pnorm(x, 3) <= 2.0, "G"),
        "pnorm(5,2)": (lambda x: rsome.pnorm(x, (5, 2)) <= 2.0, "G"),
        "power3": (lambda x: rsome.power(x, 3) <= 2.0, "T"),
        "power(3,2)": (lambda x: rsome.power(x, 3, 2) <= 2.0, "T"),
        "gmean": (lambda x: rsome.gmean(x, [1, 2]) >= 1.0, "C"),
    }
    for name, (mk, xt) in cases.items():
        def setup(c, mk=mk):
            m = ro.Model()
            x = m.dvar(2)
            m.min(x.sum())
            m.st(mk(x), x >= 0.5)
            return {"m": m}

        def compiles(ns, F):
            nv = F.linear.shape[1]
            return len(F.vtype) == nv and len(F.qmat) > 0 and all(len(set(q)) == len(q) for q in F.qmat)
        obs, _ = check_function("rsome.socp:Model.do_math(primal)", setup, lambda ns: ns["m"].do_math(),
                                [post("compiles-to-rotated-cones", compiles)], mode="D", label=name, bounded=True)
        out += obs
    return out


# ---------------------------------------------------------------------------------- call-site contracts of the towers

def tower_callsites():
    """socp.Model.do_math must hand every p-norm / power / geometric-mean constraint to IPCone with the operands
    the mathematics requires (the callee's own contract -- emitted cones <=> left^deg <= prod right^beta -- is
    proved above); the accompanying linear rows are checked as implications at an arbitrary vector."""
    from ..harness import socp as socp_mod
    from ..spec import dual as D
    from ..sym import ctx, p_implies
    out = []

    def make(kind):
        def setup(c):
            m = ro.Model()
            n = 3 if kind.startswith("gmean[") else 2
            x = m.dvar(n)
            a = sym_array(c, (n,), "ina")
            b = sym_array(c, (n,), "inb")
            for v in a:
                c.assume(v != 0)
            e = a * x + b
            k = c.fresh_real("k")
            c.assume(k > 0)
            d = c.fresh_real("d")
            c.assume(d != 0)
            t = d * x[0] + c.fresh_real("e")
            m.min(x.sum())
            if kind == "pnorm3":
                con, beta, scaled = k * rsome.pnorm(e, 3) <= t, [1, 2], True
            elif kind == "pnorm(5,2)":
                con, beta, scaled = k * rsome.pnorm(e, (5, 2)) <= t, [2, 3], True
            elif kind == "pnorm(3,2)":
                # a degree between 1 and 2: the weight of the per-entry auxiliary (b) is the LARGER one
                con, beta, scaled = k * rsome.pnorm(e, (3, 2)) <= t, [2, 1], True
            elif kind == "pnorm(5,4)":
                con, beta, scaled = k * rsome.pnorm(e, (5, 4)) <= t, [4, 1], True
            elif kind == "power(3,2)":
                con, beta, scaled = k * rsome.power(e, 3, 2) <= t, [2, 1], False
            elif kind == "power3":
                con, beta, scaled = k * rsome.power(e, 3) <= t, [1, 2], False
            elif kind == "power(5,2)":
                con, beta, scaled = k * rsome.power(e, 5, 2) <= t, [2, 3], False
            elif kind == "power-mixed[1,3]":
                # exponent array mixing p == q (encoded as |.| by two linear rows) with p != q (a tower)
                con, beta, scaled = k * rsome.power(e, np.array([1, 3])) <= t, [1, 2], False
            elif kind == "power-mixed[(5,2),(2,2)]":
                con, beta, scaled = k * rsome.power(e, np.array([5, 2]), np.array([2, 2])) <= t, [2, 3], False
            elif kind == "gmean[2,3,4]":
                # weights whose extremes share a factor that the middle one does not have
                con, beta, scaled = k * rsome.gmean(e, [2, 3, 4]) >= t, [2, 3, 4], False
            elif kind == "gmean[6,4,9]":
                con, beta, scaled = k * rsome.gmean(e, [6, 4, 9]) >= t, [6, 4, 9], False
            else:
                con, beta, scaled = k * rsome.gmean(e, [1, 2]) >= t, [1, 2], False
            m.st(con)
            calls = []
            real = socp_mod.IPCone

            class Rec(real):
                def __init__(self, xx, rr, bb):
                    calls.append((xx, rr, list(bb)))
                    super().__init__(xx, rr, bb)
            socp_mod.IPCone = Rec
            try:
                F = m.do_math()
            finally:
                socp_mod.IPCone = real
            return {"m": m, "x": x, "F": F, "calls": calls, "a": a, "b": b, "k": k, "t": (d, t), "beta": beta, "scaled": scaled, "kind": kind,
                    "tval": lambda X, d=d, t=t: views.flat(views.val(t, X))[0]}
        return setup

    def operands(ns, F):
        from ..sym import p_eq, p_and
        n = F.linear.shape[1]
        X = arr([ctx().fresh_real(f"X{j}_") for j in range(n)])
        xs = ns["x"]
        vin = [ns["a"][j] * X[xs.first + j] + ns["b"][j] for j in range(2)]
        calls = ns["calls"]
        kind = ns["kind"]
        terms = []
        if kind.startswith("power-mixed"):
            if len(calls) != 1:
                raise ContractShape(f"{len(calls)} IPCone calls where this call-site contract expects one per non-trivial entry")
            j = 1 if kind == "power-mixed[1,3]" else 0
            xx, rr, bb = calls[0]
            if bb != ns["beta"] or rr.size != 2:
                return False
            terms.append(p_eq(views.flat(views.val(xx.to_affine(), X))[0], vin[j]))
            _single_col(rr[0], "right0"), _single_col(rr[1], "right1")
        elif kind.startswith("pnorm") or kind.startswith("power"):
            if len(calls) != 2:
                raise ContractShape(f"{len(calls)} IPCone calls where this call-site contract expects one per entry")
            for j, (xx, rr, bb) in enumerate(calls):
                if bb != ns["beta"] or rr.size != 2:
                    return False
                left = views.flat(views.val(xx.to_affine(), X))[0]
                want = ns["k"] * vin[j] if ns["scaled"] else vin[j]
                terms.append(p_eq(left, want))
                _single_col(rr[0], "right0"), _single_col(rr[1], "right1")
            if kind.startswith("pnorm"):
                # one shared second operand (the norm bound), a separate first operand per component
                c2 = {_single_col(rr[1], "r") for _, rr, _ in calls}
                c1 = {_single_col(rr[0], "r") for _, rr, _ in calls}
                if len(c2) != 1 or len(c1) != 2:
                    return False
        else:
            if len(calls) != 1:
                raise ContractShape(f"{len(calls)} IPCone calls where this call-site contract expects one")
            xx, rr, bb = calls[0]
            nn = len(ns["beta"])
            if [int(v) for v in bb] != ns["beta"] or rr.size != nn:
                return False
            _single_col(xx.to_affine(), "gmean head")
            rv = views.flat(views.val(rr, X))
            vin = [ns["a"][j] * X[xs.first + j] + ns["b"][j] for j in range(nn)]
            terms += [p_eq(rv[j], vin[j]) for j in range(nn)]
        return p_and(*terms)

    def rows(ns, F):
        from ..sym import p_and, p_le, p_eq
        n = F.linear.shape[1]
        X = arr([ctx().fresh_real(f"X{j}_") for j in range(n)])
        calls = ns["calls"]
        kind = ns["kind"]
        k = ns["k"]
        tv = ns["tval"](X)
        feas = D.feas(F, X)
        if kind.startswith("pnorm"):
            aux2 = X[_single_col(calls[0][1][1], "r")]
            aux1 = [X[_single_col(rr[0], "r")] for _, rr, _ in calls]
            # k*||in||_p <= t  is carried by   aux2 <= t   and   sum aux1 <= aux2
            return p_implies(feas, p_and(p_le(aux2, tv), p_le(aux1[0] + aux1[1], aux2)))
        if kind.startswith("power"):
            t = []
            if kind.startswith("power-mixed"):
                # the p == q entry:  k*|in| <= t  must follow from the compiled rows alone
                from ..sym import p_abs
                j0 = 0 if kind == "power-mixed[1,3]" else 1
                xs = ns["x"]
                vin0 = ns["a"][j0] * X[xs.first + j0] + ns["b"][j0]
                t.append(p_le(k * p_abs(vin0), tv))
            for _, rr, _b in calls:
                a1, a2 = X[_single_col(rr[0], "r")], X[_single_col(rr[1], "r")]
                # k*|in|^(p/q) <= t  is carried by  aux2 == 1  and  k*aux1 <= t
                t += [p_eq(a2, 1.0), p_le(k * a1, tv)]
            return p_implies(feas, p_and(*t))
        head = X[_single_col(calls[0][0].to_affine(), "head")]
        # k*gmean(in) >= t  is carried by  t <= -k*head  (the head ranges over [-gmean, gmean])
        return p_implies(feas, p_le(tv, -k * head))

    for kind in ("pnorm3", "pnorm(5,2)", "pnorm(3,2)", "pnorm(5,4)", "power(3,2)", "power3", "power(5,2)", "power-mixed[1,3]", "power-mixed[(5,2),(2,2)]", "gmean", "gmean[2,3,4]", "gmean[6,4,9]"):
        obs, _ = check_function("rsome.socp:Model.do_math(primal)", make(kind), lambda ns: ns["F"],
                                [post("tower-operands-are-the-scaled-argument-and-fresh-auxiliaries-with-documented-weights", operands),
                                 post("linear-rows-tie-the-tower-to-the-constraint-as-written", rows)],
                                mode="D", label=kind, bounded=True, max_paths=200)
        out += obs
    return out


def run_job(job):
    k = job["kind"]
    if k == "constr":
        return c06.constraint_case(job["case"], "ro", ("exact",))
    if k == "objective":
        return c06.objective_case(job["case"], ("exact",))
    if k == "vtype":
        return vtype_alignment()
    if k == "towers":
        out = []
        for b in job["betas"]:
            out += tower(b)
        return out
    if k == "split_step":
        return split_step(job["n"])
    if k == "tower_atoms":
        return tower_atoms()
    if k == "tower_callsites":
        return tower_callsites()
    if k == "pnorm_sampled":
        return c06.pnorm_exp_cone_sampled()
    raise ValueError(k)
