"""C18 -- soc_solve approximates exponential cones accurately and changes nothing else (DESIGN.md 5/C18).

Proved symbolically (all numeric entries of the input formula are fresh reals): GCProg.to_socp carries the
first nv columns / m rows / cones / LMIs / types / bounds / objective over unchanged, appends exactly one
block of fixed size per exponential cone wired to that cone's (y, x, z) columns, leaves no exponential cone,
gives every new cone head the lower bound 0, and does not write to the formula it is called on.
Bounded stand-in (NOT a proof): the accuracy clause is sampled -- for exponents x/z on a grid in [-4, 4] and
several z the optimum of  min y s.t. (x, y, z) in the approximated cone  is compared with z*exp(x/z)
using ECOS; the relative error must be <= 1e-3 at degree 4 and must not grow with the degree.
"""
from __future__ import annotations

import io
import contextlib
import math

import numpy as np

from ..engine import post, check_function, source_info
from ..harness import lp, socp, gcp, ro, dro, rsome, arr, sym_array
from ..spec import dual as D, views
from ..sym import SymReal, p_and, p_eq
from .. import install

META = {
    "level": "other",
    "explanation": ("to_socp is executed on symbolic conic programs: carry-over, block size, wiring, cone-head bounds and the "
                    "frame on the input formula are discharged by z3/concrete comparison.  The 1e-3 accuracy clause is a "
                    "theorem about a Taylor/squaring scheme, not about this code's control flow; it is covered only by a "
                    "bounded numerical stand-in (grid of exponents solved with ECOS), labelled bounded."),
    "bounds": "programs with 3-5 variables, <= 2 rows, 0-1 SOC cones, 1-2 exponential cones, degree in {4,5,6}, default and custom cut-offs; accuracy grid: x/z in {-4,...,4} step 0.5, z in {0.5,1,3}",
    "trusted_base": ["z3", "ECOS for the numerical stand-in", "ShimCSR"],
    "assumptions": ["A-ACC: the accuracy of the approximation between grid points and for other models is not proved"],
}


def SOURCES():
    return {"rsome.gcp:GCProg.to_socp": source_info(gcp.GCProg.to_socp), "rsome.gcp:Model.soc_solve": source_info(gcp.Model.soc_solve),
            "rsome.ro:Model.soc_solve": source_info(ro.Model.soc_solve), "rsome.dro:Model.soc_solve": source_info(dro.Model.soc_solve)}


def carry_over():
    out = []
    configs = [(3, 1, [], [[0, 1, 2]]), (4, 2, [[3, 0]], [[1, 2, 3]]), (5, 2, [[4, 0, 1]], [[0, 1, 2], [2, 3, 4]]), (3, 0, [], [[2, 0, 1]]), (3, 1, [[0, 1]], [])]
    for nv, m, qmat, xmat in configs:
        for degree, cuts in ((4, (-30, 60)), (5, (-30, 60)), (6, (-10, 20))):
            def setup(c, nv=nv, m=m, qmat=qmat, xmat=xmat):
                A = sym_array(c, (max(m, 1), nv), "A")[:m]
                rows = np.repeat(np.arange(m), nv)
                cols = np.tile(np.arange(nv), m)
                linear = lp.csr_matrix((A.reshape(-1), (rows, cols)), shape=(m, nv))
                vt = np.array((["C", "B", "I", "C", "C"])[:nv])
                lb = arr([c.fresh_real(f"lb{j}_") for j in range(nv)]).astype(object)
                ub = arr([c.fresh_real(f"ub{j}_") for j in range(nv)]).astype(object)
                ub[0] = math.inf
                lb[nv - 1] = -math.inf
                F = gcp.GCProg(linear, sym_array(c, (m,), "b"), np.array([float(i % 2) for i in range(m)]), vt, ub, lb,
                               [list(q) for q in qmat], [list(e) for e in xmat], [], sym_array(c, (nv,), "c"))
                return {"F": F, "before": D.snapshot_prog(F), "qid": F.qmat, "nv": nv, "m": m, "degree": degree, "cuts": cuts}

            def call(ns):
                return ns["F"].to_socp(ns["degree"], ns["cuts"])

            def carried(ns, R):
                F0 = ns["before"]
                nv, m = ns["nv"], ns["m"]
                A = views.dense(R.linear)
                t = [views.all_eq(A[:m, :nv], F0["linear"]) if m else True]
                if m and A.shape[1] > nv:
                    t.append(all((not isinstance(v, SymReal)) and v == 0 for v in A[:m, nv:].flat))
                t.append(views.all_eq(np.asarray(R.const, dtype=object)[:m], F0["const"]) if m else True)
                t.append(list(np.asarray(R.sense)[:m]) == list(F0["sense"]))
                t.append(all(D._same(a, b) for a, b in zip(np.asarray(R.ub, dtype=object)[:nv], F0["ub"])))
                t.append(all(D._same(a, b) for a, b in zip(np.asarray(R.lb, dtype=object)[:nv], F0["lb"])))
                t.append(views.all_eq(np.asarray(R.obj, dtype=object)[:nv], F0["obj"]))
                t.append(all((not isinstance(v, SymReal)) and v == 0 for v in np.asarray(R.obj, dtype=object)[nv:]))
                t.append(list(R.vtype[:nv]) == list(F0["vtype"]) and all(v == "C" for v in R.vtype[nv:]))
                t.append([list(map(int, q)) for q in R.qmat[:len(F0["qmat"])]] == F0["qmat"])
                return p_and(*t)

            def shape_and_cones(ns, R):
                F0 = ns["before"]
                nexp = len(F0["xmat"])
                d = ns["degree"]
                nv, m = ns["nv"], ns["m"]
                block_cols = (8 + d) + 3 * (3 + d)
                ok = R.linear.shape[1] == nv + nexp * block_cols and len(R.ub) == len(R.lb) == len(R.obj) == len(R.vtype) == R.linear.shape[1]
                ok = ok and len(R.const) == len(R.sense) == R.linear.shape[0]
                ok = ok and list(getattr(R, "xmat", [])) == [] and len(R.qmat) == len(F0["qmat"]) + nexp * (3 + d)
                ok = ok and len(getattr(R, "lmi", [])) == 0
                for q in R.qmat[len(F0["qmat"]):]:
                    q = [int(i) for i in q]
                    ok = ok and len(q) == 3 and len(set(q)) == 3 and all(nv <= i < R.linear.shape[1] for i in q)
                    ok = ok and (not isinstance(R.lb[q[0]], SymReal)) and float(R.lb[q[0]]) == 0.0
                if nexp:
                    rows_per = (R.linear.shape[0] - m) // nexp
                    ok = ok and (R.linear.shape[0] - m) == nexp * rows_per and rows_per == 7 + 3 * (3 + d)
                return bool(ok)

            def wiring(ns, R):
                F0 = ns["before"]
                nexp = len(F0["xmat"])
                if not nexp:
                    return True
                nv, m, d = ns["nv"], ns["m"], ns["degree"]
                A = views.dense(R.linear)
                rows_per = (A.shape[0] - m) // nexp
                block_cols = (8 + d) + 3 * (3 + d)
                for k, xm in enumerate(F0["xmat"]):
                    r0 = m + k * rows_per
                    blk = A[r0:r0 + rows_per, :nv]
                    want = np.zeros((rows_per, nv))
                    want[0, xm[1]] = -1.0
                    want[1, xm[0]] = -1.0
                    want[2, xm[2]] = -1.0
                    for i in range(rows_per):
                        for j in range(nv):
                            v = blk[i, j]
                            if isinstance(v, SymReal) or float(v) != want[i, j]:
                                return False
                    # the block's own columns: t <= y, x = x1 + x2, z = a1 + a2 on its first three rows
                    c0 = nv + k * block_cols
                    own = A[r0:r0 + 3, c0:c0 + 5]
                    exp_own = np.array([[1.0, 0, 0, 0, 0], [0, 1.0, 1.0, 0, 0], [0, 0, 0, 1.0, 1.0]])
                    if any(isinstance(v, SymReal) or float(v) != w for v, w in zip(own.flat, exp_own.flat)):
                        return False
                    # and no column of another block is touched by this block's rows
                    other = [j for j in range(nv, A.shape[1]) if not (c0 <= j < c0 + block_cols)]
                    if any(isinstance(A[i, j], SymReal) or A[i, j] != 0 for i in range(r0, r0 + rows_per) for j in other):
                        return False
                    if list(np.asarray(R.sense)[r0:r0 + 3]) != [0, 1, 1]:
                        return False
                return True

            def frame(ns, R):
                return p_and(D.prog_unchanged(ns["before"], ns["F"]), ns["F"].qmat is ns["qid"], R is not ns["F"])

            obs, _ = check_function("rsome.gcp:GCProg.to_socp", setup, call,
                                    [post("everything-else-carried-over-unchanged", carried), post("one-block-per-exponential-cone-heads-nonnegative", shape_and_cones),
                                     post("block-wired-to-its-cone-columns-only", wiring), post("input-formula-untouched", frame)],
                                    mode="D", label=f"nv={nv} m={m} soc={qmat} exp={xmat} degree={degree} cuts={cuts}", bounded=True)
            out += obs
    return out


@contextlib.contextmanager
def _quiet():
    """silence the C-level banner ECOS prints"""
    import os
    import sys
    sys.stdout.flush()
    saved = os.dup(1)
    devnull = os.open(os.devnull, os.O_WRONLY)
    os.dup2(devnull, 1)
    try:
        yield
    finally:
        sys.stdout.flush()
        os.dup2(saved, 1)
        os.close(devnull)
        os.close(saved)


def accuracy():
    """bounded numerical stand-in for the accuracy clause"""
    install.uninstall()
    from rsome import ro as nro, eco_solver as eco
    import rsome as rso
    out = []

    def approx(xv, zv, degree, cuts=None):
        m = nro.Model()
        y = m.dvar()
        x = m.dvar()
        z = m.dvar()
        m.min(y)
        m.st(rso.expcone(y, x, z), x == xv, z == zv)
        with _quiet():
            if cuts is None:
                m.soc_solve(eco, degree=degree, display=False)
            else:
                m.soc_solve(eco, degree=degree, cuts=cuts, display=False)
        try:
            return m.get()
        except RuntimeError:
            return float("nan")

    # user-chosen cut-offs that enclose the exponents tightly, and a high degree (both sampled, both recorded findings)
    def call_cuts(ns):
        return [(r, math.exp(r), approx(r, 1.0, 4, (-4.0, 4.0))) for r in (-3.75, -3.5, -3.25, -3.0, -1.0, 0.0, 2.0, 3.5)]
    obs, _ = check_function("rsome.ro:Model.soc_solve", lambda c: {}, call_cuts,
                            [post("relative-error-at-most-1e-3-inside-user-cut-offs (sampled)",
                                  lambda ns, res: all(abs(v - ex) <= 1e-3 * ex + 1e-6 for _, ex, v in res))],
                            mode="N", label="cuts=(-4,4), degree 4, exponents strictly inside the cut-offs", bounded=True, replay=None)
    out += obs

    def call_deg(ns):
        return [(r, d, math.exp(r), approx(r, 1.0, d)) for d in (8, 10) for r in (-4.0, 0.5, 2.0, 4.0)]
    obs, _ = check_function("rsome.ro:Model.soc_solve", lambda c: {}, call_deg,
                            [post("relative-error-at-most-1e-3-at-degrees-8-and-10 (sampled)",
                                  lambda ns, res: all(abs(v - ex) <= 1e-3 * ex + 1e-6 for _, _d, ex, v in res))],
                            mode="N", label="degrees 8 and 10, ECOS", bounded=True, replay=None)
    out += obs

    for zv in (0.5, 1.0, 3.0):
        def setup(c, zv=zv):
            return {"z": zv}

        def call(ns):
            res = []
            for r in np.arange(-4.0, 4.01, 0.5):
                exact = ns["z"] * math.exp(r)
                vals = [approx(r * ns["z"], ns["z"], d) for d in (4, 5, 6)]
                res.append((float(r), exact, vals))
            return res

        def within(ns, res):
            return all(abs(v[0] - ex) <= 1e-3 * ex + 1e-6 for _, ex, v in res)

        def no_worse(ns, res):
            return all(abs(v[1] - ex) <= abs(v[0] - ex) + 1e-5 * ex + 1e-6 and abs(v[2] - ex) <= abs(v[1] - ex) + 1e-5 * ex + 1e-6 for _, ex, v in res)
        obs, _ = check_function("rsome.ro:Model.soc_solve", setup, call,
                                [post("relative-error-at-most-1e-3-at-degree-4 (sampled)", within),
                                 post("error-does-not-grow-with-the-degree (sampled)", no_worse)],
                                mode="N", label=f"z={zv}, x/z in [-4,4] step 0.5", bounded=True, replay=None)
        out += obs
    return out


def front_ends():
    """soc_solve of the ro/dro/gcp front ends hands to_socp(do_math()) to the solver and leaves the model's cached primal alone"""
    out = []
    for front in ("ro", "dro", "gcp"):
        def setup(c, front=front):
            if front == "gcp":
                from ..harness import gcp
                m = gcp.Model()
                x = m.dvar(2)
                m.min(x.sum())
                for k in (rsome.exp(x[0]) <= 3, rsome.norm(x, 2) <= 2, x >= -1):
                    m.st(k)
            elif front == "ro":
                m = ro.Model()
                x = m.dvar(2)
                m.min(x.sum())
                m.st(rsome.exp(x[0]) <= 3, rsome.norm(x, 2) <= 2, x >= -1)
            else:
                m = dro.Model(2)
                x = m.dvar(2)
                m.min(x.sum())
                m.st(rsome.exp(x[0]) <= 3, rsome.norm(x, 2) <= 2, x >= -1)
            P = m.do_math()
            seen = []

            class S:
                @staticmethod
                def solve(formula, display=True, log=False, params={}):
                    seen.append(formula)
                    args.append((display, log, params))
                    return lp.Solution("rec", 0.0, np.zeros(formula.linear.shape[1]), 0, 0.0)
            args = []
            return {"m": m, "P": P, "before": D.snapshot_prog(P), "S": S, "seen": seen, "args": args}

        def call(ns):
            ns["m"].soc_solve(ns["S"], display=False, params={"TimeLimit": 7})
            return ns["seen"]

        def plumbing(ns, seen):
            # the interface is called as solve(formula, display, log, params): the user's parameters arrive as parameters
            return len(ns["args"]) == 1 and ns["args"][0][0] is False and ns["args"][0][2] == {"TimeLimit": 7} and ns["args"][0][1] in (False, True)

        def handed(ns, seen):
            return len(seen) == 1 and list(getattr(seen[0], "xmat", [])) == [] and len(seen[0].qmat) > len(ns["before"]["qmat"]) \
                and seen[0].linear.shape[1] > ns["P"].linear.shape[1]

        def untouched(ns, seen):
            return p_and(D.prog_unchanged(ns["before"], ns["P"]), ns["m"].do_math() is ns["P"])
        obs, _ = check_function(f"rsome.{front}:Model.soc_solve", setup, call,
                                [post("solver-receives-the-cone-free-approximation", handed), post("cached-primal-untouched", untouched),
                                 post("display-and-params-reach-the-interface-in-their-own-slots", plumbing)],
                                mode="D", label=front, bounded=True)
        out += obs
    return out


def jobs(tier):
    return [{"name": "carry-over", "kind": "carry"}, {"name": "front-ends", "kind": "front"}, {"name": "accuracy-sampled", "kind": "acc"}]


def run_job(job):
    return {"carry": carry_over, "front": front_ends, "acc": accuracy}[job["kind"]]()
