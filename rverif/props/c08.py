"""C08 -- do_math(primal=False) is a true dual (DESIGN.md 5/C08).

Contract (semantic, independent of how the code augments the primal):  let P be the cached primal
and R the returned program.  With the ghost sign vector s (s_j = -1 iff P.ub_j = 0)
  (a) for every x:  x feasible for P  <=>  s.x feasible for the textbook Lagrangian dual of R
  (b) R.const_j * s_j = P.obj_j for every j            (objective of dual-of-R is P's objective)
  (c) P is not written to (frame)                       (d) R is well formed
(a)+(b) say "the dual of R is P"; LP/conic strong duality (M1/M2, trusted) then gives
opt(R) = -opt(P).  All matrix entries, right-hand sides, costs and finite bounds are fresh reals;
bound kinds (-inf / finite / +inf / fixed) and senses are enumerated, zero-ness of finite bounds
is decided by path forking inside the real code.
"""
from __future__ import annotations

import itertools
import math

import numpy as np

from ..engine import post, check_function, source_info
from ..harness import lp, socp, gcp, ro, rsome, arr, sym_array
from ..spec import dual as D, views
from ..sym import p_and, p_eq, p_iff, p_ite, SymReal

META = {
    "level": "other",
    "explanation": ("lp/socp/gcp Model.do_math(primal=False) is executed on an arbitrary cached primal program "
                    "whose every numeric entry is a fresh real; per feasible path z3 discharges 'the textbook "
                    "Lagrangian dual of the returned program is the primal' (feasible sets equal under the sign "
                    "bijection, objectives equal), the frame 'the cached primal is not written to' and "
                    "well-formedness.  Complete over values and value-dependent branches; the program "
                    "dimensions, sense patterns and bound-kind patterns are enumerated up to the stated bound."),
    "bounds": "LP: nv <= 2 (quick) / 3 (thorough) variables, m <= 2 rows, all sense patterns, all bound kinds per variable",
    "trusted_base": ["z3/cvc5", "M1 LP strong duality, M2 conic strong duality under Slater (mathematics)",
                     "NumPy on object arrays", "ShimCSR for scipy.sparse"],
    "assumptions": ["A-DIM(C08): dimensions bounded as stated; the code is vectorised and does not branch on dimensions "
                    "other than through emptiness of index sets, all of which occur within the bound"],
}

KINDS = ["free", "lb", "ub", "box", "fixed"]


def jobs(tier):
    nvs = [1, 2] if tier == "quick" else [1, 2, 3]
    js = []
    for nv in nvs:
        for m in ([1, 2] if nv < 3 else [1]):
            for kinds in itertools.product(KINDS, repeat=nv):
                if nv == 3 and tier != "quick" and len(set(kinds)) > 2 and kinds[0] > kinds[1]:
                    continue
                js.append({"name": f"lp-nv{nv}-m{m}-{'/'.join(kinds)}", "kind": "lp", "nv": nv, "m": m, "kinds": list(kinds)})
    # group small jobs to amortise process start-up
    grouped = []
    for i in range(0, len(js), 6):
        grouped.append({"name": f"lp-group-{i // 6}", "kind": "group", "jobs": js[i:i + 6]})
    return grouped


def SOURCES():
    return {"rsome.lp:Model.do_math": source_info(lp.Model.do_math),
            "rsome.socp:Model.do_math": source_info(socp.Model.do_math),
            "rsome.gcp:Model.do_math": source_info(gcp.Model.do_math)}


def _bounds(c, kinds):
    lb, ub = [], []
    for j, k in enumerate(kinds):
        if k == "free":
            lb.append(-math.inf), ub.append(math.inf)
        elif k == "lb":
            lb.append(c.fresh_real(f"lb{j}_")), ub.append(math.inf)
        elif k == "ub":
            lb.append(-math.inf), ub.append(c.fresh_real(f"ub{j}_"))
        elif k == "box":
            lb.append(c.fresh_real(f"lb{j}_")), ub.append(c.fresh_real(f"ub{j}_"))
        elif k == "fixed":
            v = c.fresh_real(f"fx{j}_")
            lb.append(v), ub.append(v)
    return arr(lb), arr(ub)


def _objarr(vals):
    out = np.empty(len(vals), dtype=object)
    for i, v in enumerate(vals):
        out[i] = v
    return out


def lp_dual(nv, m, kinds):
    out = []
    for sense in itertools.product([0, 1], repeat=m):
        def setup(c, sense=sense):
            model = gcp.Model(nobj=True, mtype="S")
            A = sym_array(c, (m, nv), "A")
            linear = lp.csr_matrix((A.reshape(-1), (np.repeat(np.arange(m), nv), np.tile(np.arange(nv), m))), shape=(m, nv))
            b = sym_array(c, (m,), "b")
            cost = sym_array(c, (nv,), "c")
            lb, ub = _bounds(c, kinds)
            if isinstance(lb, np.ndarray) and lb.dtype != object and has_sym_ctx(c):
                lb = _objarr(list(lb))
            if isinstance(ub, np.ndarray) and ub.dtype != object and has_sym_ctx(c):
                ub = _objarr(list(ub))
            P = socp.SOCProg(linear, b, np.array(sense, dtype=float), np.array(["C"] * nv), ub, lb, [], cost)
            P = gcp.GCProg(P.linear, P.const, P.sense, P.vtype, P.ub, P.lb, [], [], [], P.obj)
            model.primal = P
            model.pupdate = False
            x = arr([c.fresh_real(f"x{j}_") for j in range(nv)])
            return {"model": model, "P": P, "before": D.snapshot_prog(P), "x": x, "nv": nv}

        def dual_of_dual_is_primal(ns, R):
            P, x = ns["before_view"] if "before_view" in ns else ns["P0"], ns["x"]
            return True

        def clause_a(ns, R):
            P0 = _Prog(ns["before"])
            x = ns["x"]
            s = [p_ite(p_eq(u, 0), -1, 1) if isinstance(u, SymReal) else (-1 if (not math.isinf(float(u)) and float(u) == 0) else 1)
                 for u in P0.ub]
            w = [s[j] * x[j] for j in range(len(x))]
            return p_iff(D.feas(P0, x), D.dual_feas(R, w))

        def clause_b(ns, R):
            P0 = _Prog(ns["before"])
            s = [p_ite(p_eq(u, 0), -1, 1) if isinstance(u, SymReal) else (-1 if (not math.isinf(float(u)) and float(u) == 0) else 1)
                 for u in P0.ub]
            h = np.asarray(R.const, dtype=object).reshape(-1)
            if len(h) != len(s):
                return False
            return p_and(*[p_eq(h[j] * s[j], P0.obj[j]) for j in range(len(s))])

        def clause_c(ns, R):
            return D.prog_unchanged(ns["before"], ns["P"])

        def clause_d(ns, R):
            nr, ndv = R.linear.shape
            ok = (nr == ns["nv"] and len(R.const) == nr and len(R.sense) == nr and len(R.obj) == ndv and len(R.ub) == ndv
                  and len(R.lb) == ndv and len(R.vtype) == ndv and all(v == "C" for v in R.vtype)
                  and all(sv in (0, 1) for sv in R.sense))
            return bool(ok)

        obs, _ = check_function("rsome.lp:Model.do_math(primal=False)", setup,
                                lambda ns: ns["model"].do_math(primal=False, obj=False),
                                [post("dual-of-result-is-primal", clause_a), post("objective-matches", clause_b),
                                 post("frame-primal-unchanged", clause_c), post("well-formed", clause_d)],
                                mode="D", label=f"nv={nv},m={m},sense={sense},bounds={'/'.join(kinds)}", bounded=True)
        out += obs
    return out


def has_sym_ctx(c):
    from ..sym import PathCtx
    return isinstance(c, PathCtx)


class _Prog:
    """A program view rebuilt from a snapshot (so clauses judge against the primal AS IT WAS)."""

    def __init__(self, snap):
        self.linear = snap["linear"]
        self.const, self.sense, self.ub, self.lb, self.obj, self.vtype = (snap[k] for k in ("const", "sense", "ub", "lb", "obj", "vtype"))
        self.qmat = snap.get("qmat", [])
        self.xmat = snap.get("xmat", [])


def run_job(job):
    if job["kind"] == "group":
        out = []
        for j in job["jobs"]:
            out += run_job(j)
        return out
    if job["kind"] == "lp":
        return lp_dual(job["nv"], job["m"], job["kinds"])
    raise ValueError(job["kind"])
