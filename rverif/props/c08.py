"""C08 -- do_math(primal=False) is a true dual (DESIGN.md 5/C08).

Contract (semantic, independent of how the code augments the primal):  let P be the cached primal
and R the returned program.  With the ghost sign vector s (s_j = -1 iff P.ub_j = 0)
  (a) for every x:  x feasible for P  <=>  s.x feasible for the textbook Lagrangian dual of R
  (b) R.const_j * s_j = P.obj_j for every j            (objective of dual-of-R is P's objective)
  (c) P is not written to (frame)                       (d) R is well formed
(a)+(b) say "the dual of R is P"; LP/conic strong duality (M1/M2, trusted) then gives
opt(R) = -opt(P).  All matrix entries, right-hand sides, costs and finite bounds are fresh reals;
bound kinds (-inf / finite / +inf / fixed) and senses are enumerated, zero-ness of finite bounds
is decided by path forking inside the real code.
"""
from __future__ import annotations

import itertools
import math

import numpy as np

from ..engine import post, check_function, source_info
from ..harness import lp, socp, gcp, ro, rsome, arr, sym_array
from ..spec import dual as D, views
from ..sym import p_and, p_eq, p_iff, p_ite, SymReal

META = {
    "level": "other",
    "explanation": ("lp/socp/gcp Model.do_math(primal=False) is executed on an arbitrary cached primal program "
                    "whose every numeric entry is a fresh real; per feasible path z3 discharges 'the textbook "
                    "Lagrangian dual of the returned program is the primal' (feasible sets equal under the sign "
                    "bijection, objectives equal), the frame 'the cached primal is not written to' and "
                    "well-formedness.  Complete over values and value-dependent branches; the program "
                    "dimensions, sense patterns and bound-kind patterns are enumerated up to the stated bound."),
    "bounds": "LP: nv <= 2 (quick) / 3 (thorough) variables, m <= 2 rows, all sense patterns, all bound kinds per variable",
    "trusted_base": ["z3/cvc5", "M1 LP strong duality, M2 conic strong duality under Slater (mathematics)",
                     "NumPy on object arrays", "ShimCSR for scipy.sparse"],
    "assumptions": ["A-DIM(C08): dimensions bounded as stated; the code is vectorised and does not branch on dimensions "
                    "other than through emptiness of index sets, all of which occur within the bound"],
}

KINDS = ["free", "lb", "ub", "box", "fixed"]


def jobs(tier):
    nvs = [1, 2] if tier == "quick" else [1, 2, 3]
    js = []
    for nv in nvs:
        for m in ([1, 2] if nv < 3 else [1]):
            for kinds in itertools.product(KINDS, repeat=nv):
                if nv == 3 and tier != "quick" and len(set(kinds)) > 2 and kinds[0] > kinds[1]:
                    continue
                js.append({"name": f"lp-nv{nv}-m{m}-{'/'.join(kinds)}", "kind": "lp", "nv": nv, "m": m, "kinds": list(kinds)})
    # group small jobs to amortise process start-up
    grouped = []
    for i in range(0, len(js), 6):
        grouped.append({"name": f"lp-group-{i // 6}", "kind": "group", "jobs": js[i:i + 6]})
    grouped += [{"name": f"conic-{n}", "kind": "conic", "model": n} for n in CONIC]
    grouped.append({"name": "frontend-dual-after-modification", "kind": "frontend"})
    return grouped


# lemmas over the contracts, checked by Lean 4 + Mathlib on every run (lean/Lemmas.lean, rverif/lemmas.py)
LEMMAS = ["weak_duality", "weak_duality_eq", "soc_pairing", "expcone_pairing", "expcone_pairing_boundary_right", "expcone_pairing_boundary_left"]


def SOURCES():
    return {"rsome.lp:Model.do_math": source_info(lp.Model.do_math),
            "rsome.socp:Model.do_math": source_info(socp.Model.do_math),
            "rsome.gcp:Model.do_math": source_info(gcp.Model.do_math)}


def _bounds(c, kinds):
    lb, ub = [], []
    for j, k in enumerate(kinds):
        if k == "free":
            lb.append(-math.inf), ub.append(math.inf)
        elif k == "lb":
            lb.append(c.fresh_real(f"lb{j}_")), ub.append(math.inf)
        elif k == "ub":
            lb.append(-math.inf), ub.append(c.fresh_real(f"ub{j}_"))
        elif k == "box":
            lb.append(c.fresh_real(f"lb{j}_")), ub.append(c.fresh_real(f"ub{j}_"))
        elif k == "fixed":
            v = c.fresh_real(f"fx{j}_")
            lb.append(v), ub.append(v)
    return arr(lb), arr(ub)


def _objarr(vals):
    out = np.empty(len(vals), dtype=object)
    for i, v in enumerate(vals):
        out[i] = v
    return out


def lp_dual(nv, m, kinds):
    out = []
    for sense in itertools.product([0, 1], repeat=m):
        def setup(c, sense=sense):
            model = gcp.Model(nobj=True, mtype="S")
            A = sym_array(c, (m, nv), "A")
            linear = lp.csr_matrix((A.reshape(-1), (np.repeat(np.arange(m), nv), np.tile(np.arange(nv), m))), shape=(m, nv))
            b = sym_array(c, (m,), "b")
            cost = sym_array(c, (nv,), "c")
            lb, ub = _bounds(c, kinds)
            if isinstance(lb, np.ndarray) and lb.dtype != object and has_sym_ctx(c):
                lb = _objarr(list(lb))
            if isinstance(ub, np.ndarray) and ub.dtype != object and has_sym_ctx(c):
                ub = _objarr(list(ub))
            P = socp.SOCProg(linear, b, np.array(sense, dtype=float), np.array(["C"] * nv), ub, lb, [], cost)
            P = gcp.GCProg(P.linear, P.const, P.sense, P.vtype, P.ub, P.lb, [], [], [], P.obj)
            model.primal = P
            model.pupdate = False
            x = arr([c.fresh_real(f"x{j}_") for j in range(nv)])
            return {"model": model, "P": P, "before": D.snapshot_prog(P), "x": x, "nv": nv}

        def dual_of_dual_is_primal(ns, R):
            P, x = ns["before_view"] if "before_view" in ns else ns["P0"], ns["x"]
            return True

        def clause_a(ns, R):
            P0 = _Prog(ns["before"])
            x = ns["x"]
            s = [p_ite(p_eq(u, 0), -1, 1) if isinstance(u, SymReal) else (-1 if (not math.isinf(float(u)) and float(u) == 0) else 1)
                 for u in P0.ub]
            w = [s[j] * x[j] for j in range(len(x))]
            return p_iff(D.feas(P0, x), D.dual_feas(R, w))

        def clause_b(ns, R):
            P0 = _Prog(ns["before"])
            s = [p_ite(p_eq(u, 0), -1, 1) if isinstance(u, SymReal) else (-1 if (not math.isinf(float(u)) and float(u) == 0) else 1)
                 for u in P0.ub]
            h = np.asarray(R.const, dtype=object).reshape(-1)
            if len(h) != len(s):
                return False
            return p_and(*[p_eq(h[j] * s[j], P0.obj[j]) for j in range(len(s))])

        def clause_c(ns, R):
            return D.prog_unchanged(ns["before"], ns["P"])

        def clause_d(ns, R):
            nr, ndv = R.linear.shape
            ok = (nr == ns["nv"] and len(R.const) == nr and len(R.sense) == nr and len(R.obj) == ndv and len(R.ub) == ndv
                  and len(R.lb) == ndv and len(R.vtype) == ndv and all(v == "C" for v in R.vtype)
                  and all(sv in (0, 1) for sv in R.sense))
            return bool(ok)

        obs, _ = check_function("rsome.lp:Model.do_math(primal=False)", setup,
                                lambda ns: ns["model"].do_math(primal=False, obj=False),
                                [post("dual-of-result-is-primal", clause_a), post("objective-matches", clause_b),
                                 post("frame-primal-unchanged", clause_c), post("well-formed", clause_d)],
                                mode="D", label=f"nv={nv},m={m},sense={sense},bounds={'/'.join(kinds)}", bounded=True)
        out += obs
    return out


# ------------------------------------------------------------------------------------------
# conic programs produced by the real primal do_math (SOC atoms, supports of uncertainty sets)
# ------------------------------------------------------------------------------------------

def _signs(P0):
    return [p_ite(p_eq(u, 0), -1, 1) if isinstance(u, SymReal) else (-1 if (not math.isinf(float(u)) and float(u) == 0) else 1)
            for u in P0.ub]


def _kept(P0, R):
    nv = len(P0.ub)
    if R.linear.shape[0] == nv:
        return list(range(nv))
    cone = {int(i) for q in P0.qmat for i in q}
    return [j for j in range(nv) if j not in cone]


def _nz(a):
    return isinstance(a, SymReal) or a != 0


def conic_clauses():
    def fwd(ns, R):
        P0 = _Prog(ns["before"])
        x = ns["x"]
        s = _signs(P0)
        w = [s[j] * x[j] for j in _kept(P0, R)]
        from ..sym import p_implies
        return p_implies(D.feas(P0, x), D.dual_feas(R, w))

    def bwd(ns, R):
        from ..sym import p_implies, ctx
        P0 = _Prog(ns["before"])
        nv = len(P0.ub)
        s = _signs(P0)
        kept = _kept(P0, R)
        w = [ctx().fresh_real(f"w{i}_") for i in range(R.linear.shape[0])]
        if len(kept) != len(w):
            return False
        X = [None] * nv
        for pos, j in enumerate(kept):
            X[j] = s[j] * w[pos]
        A = P0.linear
        for q in range(nv):
            if X[q] is not None:
                continue
            rows = [i for i in range(A.shape[0]) if _nz(A[i, q])]
            if len(rows) != 1:
                return False
            i = rows[0]
            rest = 0.0
            for j in range(nv):
                if j != q and _nz(A[i, j]):
                    if X[j] is None:
                        return False
                    rest = rest + A[i, j] * X[j]
            X[q] = (P0.const[i] - rest) / A[i, q]
        return p_implies(D.dual_feas(R, w), D.feas(P0, X))

    def objective(ns, R):
        P0 = _Prog(ns["before"])
        s = _signs(P0)
        kept = _kept(P0, R)
        h = np.asarray(R.const, dtype=object).reshape(-1)
        if len(h) != len(kept):
            return False
        terms = [p_eq(h[pos] * s[j], P0.obj[j]) for pos, j in enumerate(kept)]
        if ns.get("obj", True):
            # a true objective: variables without a dual row must have zero cost.  With obj=False the
            # primal "objective" is the all-ones placeholder that RoConstr.le_to_rc rescales row by row.
            terms += [p_eq(P0.obj[q], 0) for q in range(len(s)) if q not in kept]
        return p_and(*terms)

    def frame(ns, R):
        return D.prog_unchanged(ns["before"], ns["P"])

    def wf(ns, R):
        nr, ndv = R.linear.shape
        ok = (len(R.const) == nr and len(R.sense) == nr and len(R.obj) == ndv and len(R.ub) == ndv and len(R.lb) == ndv
              and len(R.vtype) == ndv and all(v == "C" for v in R.vtype) and all(sv in (0, 1) for sv in R.sense))
        for q in list(getattr(R, "qmat", [])) + list(getattr(R, "xmat", [])):
            ok = ok and all(0 <= int(i) < ndv for i in q) and len(set(int(i) for i in q)) == len(q)
        return bool(ok)

    return [post("result-feasible-for-dual-of-dual(P feasible => dual-of-R feasible)", fwd),
            post("dual-of-result-no-larger-than-primal(dual-of-R feasible => P feasible)", bwd),
            post("objective-matches", objective), post("frame-primal-unchanged", frame), post("well-formed", wf)]


def _lin(c, x, n, name, idx=None):
    """a . x[idx] + b with fresh a, b (diagonal pattern keeps path forking small)."""
    a = sym_array(c, (n,), name + "a")
    b = sym_array(c, (n,), name + "b")
    return a * x + b


CONIC = {}


def conic(name):
    def deco(f):
        CONIC[name] = f
        return f
    return deco


def _det(c, build):
    """Deterministic model through the ro front end; returns (layer model, obj flag)."""
    m = ro.Model()
    x = m.dvar(2)
    cost = sym_array(c, (2,), "c")
    m.min(cost @ x)
    build(c, m, x)
    m.do_math()
    return m.rc_model, True


def _layer(c, cls, build):
    """a deterministic model on lp.Model / socp.Model / gcp.Model used directly"""
    m = cls()
    x = m.dvar(2)
    cost = sym_array(c, (2,), "c")
    m.min(cost @ x)
    for k in build(c, m, x):
        m.st(k)
    m.do_math()
    return m, True


@conic("socp.Model-norm2-and-rows")
def _(c):
    k = c.fresh_real("k")
    c.assume(k > 0)
    return _layer(c, socp.Model, lambda c, m, x: [k * rsome.norm(_lin(c, x, 2, "in"), 2) <= c.fresh_real("e"), x[0] + 2 * x[1] <= c.fresh_real("f"), x[1] >= 0])


@conic("socp.Model-square")
def _(c):
    return _layer(c, socp.Model, lambda c, m, x: [rsome.square(_lin(c, x, 2, "in")) <= c.fresh_real("d") * x + c.fresh_real("e")])


@conic("lp.Model-norm1")
def _(c):
    return _layer(c, lp.Model, lambda c, m, x: [rsome.norm(_lin(c, x, 2, "in"), 1) <= c.fresh_real("e"), x[0] <= c.fresh_real("u")])


@conic("gcp.Model-exp-norm2")
def _(c):
    return _layer(c, gcp.Model, lambda c, m, x: [rsome.exp(x[0]) <= c.fresh_real("g"), rsome.norm(x, 2) <= c.fresh_real("e")])


@conic("det-norm2")
def _(c):
    def build(c, m, x):
        k = c.fresh_real("k")
        c.assume(k > 0)
        m.st(k * rsome.norm(_lin(c, x, 2, "in"), 2) <= c.fresh_real("d") * x[0] + c.fresh_real("e"))
    return _det(c, build)


@conic("det-norm2-bounds")
def _(c):
    def build(c, m, x):
        m.st(rsome.norm(x, 2) <= c.fresh_real("e"))
        m.st(x <= c.fresh_real("u"), x[0] >= 0)
    return _det(c, build)


@conic("det-square")
def _(c):
    def build(c, m, x):
        m.st(rsome.square(_lin(c, x, 2, "in")) <= c.fresh_real("d") * x + c.fresh_real("e"))
    return _det(c, build)


@conic("det-sumsqr")
def _(c):
    def build(c, m, x):
        m.st(rsome.sumsqr(_lin(c, x, 2, "in")) <= c.fresh_real("d") * x[1] + c.fresh_real("e"))
    return _det(c, build)


@conic("det-abs-norm1-norminf")
def _(c):
    def build(c, m, x):
        m.st(abs(_lin(c, x, 2, "in")) <= c.fresh_real("e"))
        m.st(rsome.norm(x, 1) <= c.fresh_real("f"), rsome.norm(x, "inf") <= c.fresh_real("g"))
    return _det(c, build)


@conic("det-rsocone")
def _(c):
    def build(c, m, x):
        y = m.dvar()
        m.st(rsome.rsocone(x, y, c.fresh_real("e") + 0 * y), y >= 0)
    return _det(c, build)


def _sup(c, build):
    m = ro.Model()
    z = m.rvar(2)
    sup = m.sup_model
    sup.reset()
    for k in build(c, m, z):
        sup.st(k)
    sup.do_math(obj=False)
    return sup, False


@conic("set-ball")
def _(c):
    return _sup(c, lambda c, m, z: [rsome.norm(z, 2) <= c.fresh_real("r")])


@conic("set-three-balls")
def _(c):
    # three second-order cones in ONE set (the offset bookkeeping of the dual's cone list matters from the third cone on)
    return _sup(c, lambda c, m, z: [rsome.norm(z, 2) <= c.fresh_real("r1"), rsome.norm(z - np.array([1.0, 0.0]), 2) <= c.fresh_real("r2"),
                                    rsome.norm(z[::-1] + np.array([0.0, 2.0]), 2) <= c.fresh_real("r3"), z[0] <= c.fresh_real("u")])


@conic("set-four-cones-mixed")
def _(c):
    return _sup(c, lambda c, m, z: [rsome.sumsqr(z) <= c.fresh_real("r1"), rsome.square(z - 1) <= c.fresh_real("r2"),
                                    rsome.norm(2 * z, 2) <= c.fresh_real("r3")])


@conic("set-box-ball")
def _(c):
    return _sup(c, lambda c, m, z: [z <= c.fresh_real("u"), z >= c.fresh_real("l"), rsome.norm(z - sym_array(c, (2,), "z0"), 2) <= c.fresh_real("r")])


@conic("set-ellipsoid")
def _(c):
    return _sup(c, lambda c, m, z: [rsome.sumsqr(sym_array(c, (2,), "a") * z) <= c.fresh_real("r")])


@conic("set-budget")
def _(c):
    return _sup(c, lambda c, m, z: [rsome.norm(z, 1) <= c.fresh_real("g"), rsome.norm(z, "inf") <= c.fresh_real("h")])


@conic("set-polytope")
def _(c):
    return _sup(c, lambda c, m, z: [sym_array(c, (2,), "a") @ z <= c.fresh_real("b"), z >= 0, z[0] + z[1] == c.fresh_real("t")])


@conic("set-square")
def _(c):
    return _sup(c, lambda c, m, z: [rsome.square(z) <= c.fresh_real("r"), z[0] <= 0])


@conic("det-exp")
def _(c):
    def build(c, m, x):
        m.st(rsome.exp(_lin(c, x, 2, "in")) <= c.fresh_real("d") * x + c.fresh_real("e"))
    return _det(c, build)


@conic("det-log")
def _(c):
    def build(c, m, x):
        m.st(rsome.log(_lin(c, x, 2, "in")) >= c.fresh_real("d") * x[0] + c.fresh_real("e"))
    return _det(c, build)


@conic("det-entropy-bounds")
def _(c):
    def build(c, m, x):
        m.st(rsome.entropy(x) >= c.fresh_real("e"), x <= c.fresh_real("u"))
    return _det(c, build)


@conic("det-expcone-norm2")
def _(c):
    def build(c, m, x):
        y = m.dvar()
        m.st(rsome.expcone(y, x[0], x[1]), rsome.norm(x, 2) <= c.fresh_real("r"))
    return _det(c, build)


@conic("set-kl")
def _(c):
    return _sup(c, lambda c, m, z: [rsome.kldiv(z, 0.5, c.fresh_real("r")), z.sum() == 1])


@conic("set-exp-ball")
def _(c):
    return _sup(c, lambda c, m, z: [rsome.exp(z) <= c.fresh_real("r"), rsome.norm(z, 2) <= c.fresh_real("g")])


def _ro(c, build):
    m = ro.Model()
    x = m.dvar(2)
    z = m.rvar(2)
    cost = sym_array(c, (2,), "c")
    m.min(cost @ x)
    build(c, m, x, z)
    m.do_math()
    return m.rc_model, True


@conic("ro-box")
def _(c):
    def build(c, m, x, z):
        m.st(((x * z).sum() <= c.fresh_real("e")).forall(z <= 1, z >= -1))
    return _ro(c, build)


@conic("ro-ball")
def _(c):
    def build(c, m, x, z):
        m.st(((x * z).sum() + x[0] <= c.fresh_real("e")).forall(rsome.norm(z, 2) <= c.fresh_real("r")))
    return _ro(c, build)


@conic("ro-two-balls")
def _(c):
    # a set with TWO second-order cones: the counterpart carries the dual cone of each; both heads need their bound
    def build(c, m, x, z):
        m.st(((x * z).sum() + x[0] <= c.fresh_real("e")).forall(rsome.norm(z, 2) <= c.fresh_real("r"),
                                                                  rsome.norm(z[:1] - 0.5, 2) <= c.fresh_real("q")))
    return _ro(c, build)


@conic("ro-ball-exp")
def _(c):
    def build(c, m, x, z):
        m.st(((x * z).sum() <= c.fresh_real("e")).forall(rsome.norm(z, 2) <= c.fresh_real("r")))
        m.st(rsome.exp(x[0]) <= c.fresh_real("g"))
    return _ro(c, build)


@conic("ro-ball-2rows-exp")
def _(c):
    # two robust rows: two second-order cones over separate slices of the multipliers, other columns in between,
    # exp-cone auxiliaries after them (the cone blocks of the primal are NOT contiguous)
    def build(c, m, x, z):
        r = c.fresh_real("r")
        m.st(((x * z).sum() <= c.fresh_real("e")).forall(rsome.norm(z, 2) <= r))
        m.st(((x[0] * z[1] - x[1] * z[0]) + x[1] <= c.fresh_real("f")).forall(rsome.norm(z, 2) <= r))
        m.st(rsome.exp(x[0]) <= c.fresh_real("g"))
    return _ro(c, build)


@conic("ro-ball-array-exp-first")
def _(c):
    def build(c, m, x, z):
        m.st(rsome.exp(-x[1]) <= c.fresh_real("g"))
        m.st((x * z + x[0] <= c.fresh_real("e")).forall(rsome.norm(z, 2) <= c.fresh_real("r")))
        m.st(rsome.log(x[0] + 3) >= c.fresh_real("h"))
    return _ro(c, build)


@conic("ro-kl")
def _(c):
    def build(c, m, x, z):
        m.st(((x * z).sum() <= c.fresh_real("e")).forall(rsome.kldiv(z, 0.5, c.fresh_real("r")), z.sum() == 1))
    return _ro(c, build)


def _mix(c, build):
    from ..harness import dro
    m = dro.Model(3)
    z = m.rvar(2)
    fset = m.ambiguity()
    build(c, m, fset, z)
    fset.mix_support(primal=True)
    return fset.mix_model, False


@conic("mix-plain")
def _(c):
    return _mix(c, lambda c, m, f, z: f.exptset(rsome.E(z) <= c.fresh_real("u"), rsome.E(z) >= c.fresh_real("l")))


@conic("mix-prob-norm2")
def _(c):
    return _mix(c, lambda c, m, f, z: f.probset(rsome.norm(m.p - 1 / 3, 2) <= c.fresh_real("r")))


@conic("mix-prob-kl")
def _(c):
    return _mix(c, lambda c, m, f, z: f.probset(rsome.kldiv(m.p, 1 / 3, c.fresh_real("r"))))


@conic("mix-prob-norm2-kl")
def _(c):
    return _mix(c, lambda c, m, f, z: f.probset(rsome.norm(m.p - 1 / 3, 2) <= c.fresh_real("r"),
                                                rsome.kldiv(m.p, 1 / 3, c.fresh_real("k"))))


@conic("mix-exp-norm2")
def _(c):
    return _mix(c, lambda c, m, f, z: (f[0].exptset(rsome.norm(rsome.E(z), 2) <= c.fresh_real("r")),
                                       f.probset(m.p <= c.fresh_real("q"))))


def conic_dual(name):
    def setup(c):
        layer, objflag = CONIC[name](c)
        P = layer.primal
        nv = P.linear.shape[1]
        x = arr([c.fresh_real(f"x{j}_") for j in range(nv)])
        return {"layer": layer, "P": P, "before": D.snapshot_prog(P), "x": x, "obj": objflag}
    obs, _ = check_function("rsome.gcp:Model.do_math(primal=False)", setup,
                            lambda ns: ns["layer"].do_math(primal=False, obj=ns["obj"]), conic_clauses(),
                            mode="D", label=name, bounded=True, max_paths=600)
    # asked for a second time on the unchanged model, the dual is still the dual
    obs2, _ = check_function("rsome.gcp:Model.do_math(primal=False)", setup,
                             lambda ns: (ns["layer"].do_math(primal=False, obj=ns["obj"]), ns["layer"].do_math(primal=False, obj=ns["obj"]))[1],
                             conic_clauses(), mode="D", label=name + ",second request", bounded=True, max_paths=600)
    return obs + obs2


def frontend_dual_after_modification():
    """The user-level route: an ro model is formulated (or solved) once, then modified, then its dual is requested
    BEFORE any new primal formulation.  The returned program must be the dual of the model as it now stands --
    judged against the primal of an identical model built from scratch."""
    out = []
    for setkind in ("box", "ball"):
        for first in ("do_math", "dual", "solve"):
            def setup(c, setkind=setkind, first=first):
                cost = sym_array(c, (2,), "c")
                e1, e2, r = c.fresh_real("e1"), c.fresh_real("e2"), c.fresh_real("r")
                c.assume(r > 0)

                def declare(m, x, z, upto):
                    m.min(cost @ x)
                    zs = [z <= r, z >= -r] if setkind == "box" else [rsome.norm(z, 2) <= r]
                    m.st(((x * z).sum() + x[0] <= e1).forall(*zs))
                    if upto >= 2:
                        m.st(x[0] - 2 * x[1] <= e2, x[1] >= 0)
                def history():
                    m = ro.Model()
                    x, z = m.dvar(2), m.rvar(2)
                    declare(m, x, z, 1)
                    if first == "do_math":
                        m.do_math()
                    elif first == "dual":
                        m.do_math(primal=False)
                    else:
                        m.solve(_Oracle, display=False)
                    m.st(x[0] - 2 * x[1] <= e2, x[1] >= 0)
                    return m
                nv = history().do_math().linear.shape[1]          # a scratch copy, only to learn the number of columns
                return {"m": history(), "x": arr([c.fresh_real(f"x{j}_") for j in range(nv)]), "obj": True}

            def call(ns):
                R = ns["m"].do_math(primal=False)                 # the dual FIRST ...
                P = ns["m"].do_math()                             # ... judged against the model's own current primal
                ns["before"] = D.snapshot_prog(P)
                ns["P"] = P
                if P.linear.shape[1] != len(ns["x"]):
                    raise AssertionError("harness: column count changed between two identical histories")
                return R
            obs, _ = check_function("rsome.ro:Model.do_math(primal=False)", setup, call, conic_clauses(),
                                    mode="D", label=f"{setkind}: {first}, then two more constraints, then the dual first", bounded=True, max_paths=600)
            out += obs
    return out


class _Oracle:
    @staticmethod
    def solve(formula, display=True, log=False, params={}):
        return lp.Solution("oracle", 0.0, np.zeros(formula.linear.shape[1]), 0, 0.0)


def has_sym_ctx(c):
    from ..sym import PathCtx
    return isinstance(c, PathCtx)


class _Prog:
    """A program view rebuilt from a snapshot (so clauses judge against the primal AS IT WAS)."""

    def __init__(self, snap):
        self.linear = snap["linear"]
        self.const, self.sense, self.ub, self.lb, self.obj, self.vtype = (snap[k] for k in ("const", "sense", "ub", "lb", "obj", "vtype"))
        self.qmat = snap.get("qmat", [])
        self.xmat = snap.get("xmat", [])


def run_job(job):
    if job["kind"] == "group":
        out = []
        for j in job["jobs"]:
            out += run_job(j)
        return out
    if job["kind"] == "lp":
        return lp_dual(job["nv"], job["m"], job["kinds"])
    if job["kind"] == "conic":
        return conic_dual(job["model"])
    if job["kind"] == "frontend":
        return frontend_dual_after_modification()
    raise ValueError(job["kind"])
