"""C12 -- solution queries return the right numbers for the right objects (DESIGN.md 5/C12).

The solver is replaced by an ARBITRARY solution vector (fresh reals), so every obligation holds for
all solutions any solver could return.  Functions under contract: lp/ro/dro Model.get, Vars.get,
Vars.__call__, Affine.__call__, Convex.__call__, RoAffine.__call__, DecRule.get, DecVar.get,
DecAffine.__call__, DecConvex.__call__, DecRoAffine.__call__, Vars.assign.
"""
from __future__ import annotations

import math

import numpy as np

from ..engine import post, raises_iff, always_raises, check_function, source_info
from ..harness import lp, ro, dro, rsome, new_ro, sym_affine, sym_array, valuation
from ..spec import atoms, views
from ..sym import p_and, p_eq, p_le, p_lt, p_iff
from .c10 import ATOM, XTYPES

META = {
    "level": "proof",
    "explanation": ("Each query function is executed on a real model whose solution vector, objective value, "
                    "coefficients, multipliers and random-variable assignments are fresh reals; the postcondition "
                    "(value = documented formula at that solution, right entries, right shape, NaN exactly where no "
                    "dependence was declared, raise when unsolved/failed) is discharged by z3 on every path.  "
                    "Unbounded over all solution vectors and coefficients; array shapes, adaptation patterns and "
                    "scenario partitions are the concrete ones enumerated by the harness (bounded part)."),
    "bounds": "variable shapes in {(), (3,), (2,2), (2,1,2)}; decision rules 2x3; dro: 3 scenarios, all 5 partitions",
    "trusted_base": ["z3/cvc5", "CPython", "NumPy on object arrays", "ShimCSR for scipy.sparse", "pandas Series/DataFrame on object arrays",
                     "the external solver returns a vector x and objval = obj.x (solver contract)"],
    "assumptions": ["A-LOGDOM: log/entropy atoms are evaluated on positive arguments (their domain)"],
}

SUPPORTED_EVAL = "AMNGEISQXLFPT"        # xtypes Convex.__call__ implements


def jobs(tier):
    js = [{"name": "model-get", "kind": "model_get"}, {"name": "vars-get", "kind": "vars_get"},
          {"name": "affine-call", "kind": "affine_call"}, {"name": "roaffine-call", "kind": "roaffine_call"},
          {"name": "decrule-get", "kind": "decrule_get"}]
    js += [{"name": f"convex-call-{xt}", "kind": "convex_call", "xtype": xt} for xt in XTYPES]
    js += [{"name": "convex-sum-call", "kind": "convex_sum_call"}]
    js += [{"name": "dro-get", "kind": "dro_get"}, {"name": "dro-call", "kind": "dro_call"}]
    return js


def SOURCES():
    fs = {}
    for name, f in (("rsome.lp:Model.get", lp.Model.get), ("rsome.ro:Model.get", ro.Model.get),
                    ("rsome.dro:Model.get", dro.Model.get), ("rsome.lp:Vars.get", lp.Vars.get),
                    ("rsome.lp:Affine.__call__", lp.Affine.__call__), ("rsome.lp:Convex.__call__", lp.Convex.__call__),
                    ("rsome.lp:RoAffine.__call__", lp.RoAffine.__call__), ("rsome.lp:DecRule.get", lp.DecRule.get),
                    ("rsome.lp:DecVar.get", lp.DecVar.get), ("rsome.lp:DecAffine.__call__", lp.DecAffine.__call__),
                    ("rsome.lp:DecConvex.__call__", lp.DecConvex.__call__),
                    ("rsome.lp:DecRoAffine.__call__", lp.DecRoAffine.__call__)):
        fs[name] = source_info(f)
    return fs


def _solve_with(m, rc, c, name="sol"):
    """Install an arbitrary solution: x = fresh reals, objval = obj.x (the solver contract)."""
    formula = m.do_math()
    n = formula.linear.shape[1]
    from ..harness import arr
    xbar = arr([c.fresh_real(f"{name}{i}_") for i in range(n)])
    objval = sum((formula.obj[i] * xbar[i] for i in range(n) if not (isinstance(formula.obj[i], float) and formula.obj[i] == 0)), 0.0)
    sol = lp.Solution("oracle", objval, xbar, 0, 0.0)
    return formula, xbar, sol


# ------------------------------------------------------------------ model.get()

def model_get():
    out = []
    for front in ("ro", "dro", "gcp"):
        for sense in ("min", "max"):
            def setup(c, front=front, sense=sense):
                if front == "ro":
                    m = ro.Model()
                    x = m.dvar(2)
                    obj = x.sum()
                    (m.min if sense == "min" else m.max)(obj)
                    m.st(x <= 1, x >= -1)
                    formula, xbar, sol = _solve_with(m, m.rc_model, c)
                    m.rc_model.solution = sol
                    m.solution = sol
                elif front == "dro":
                    m = dro.Model(2)
                    x = m.dvar(2)
                    (m.min if sense == "min" else m.max)(x.sum())
                    m.st(x <= 1, x >= -1)
                    formula, xbar, sol = _solve_with(m, None, c)
                    m.ro_model.solution = sol
                    m.ro_model.rc_model.solution = sol
                    m.solution = sol
                else:
                    from ..harness import gcp
                    m = gcp.Model()
                    x = m.dvar(2)
                    (m.min if sense == "min" else m.max)(x.sum())
                    m.st(x <= 1)
                    m.st(x >= -1)
                    formula, xbar, sol = _solve_with(m, m, c)
                    m.solution = sol
                return {"m": m, "sol": sol, "xbar": xbar, "usersign": 1 if sense == "min" else -1}

            F = {"ro": "rsome.ro:Model.get", "dro": "rsome.dro:Model.get", "gcp": "rsome.lp:Model.get"}[front]
            obs, _ = check_function(F, setup, lambda ns: ns["m"].get(),
                                    [post("user-sense", lambda ns, res: p_eq(res, ns["usersign"] * ns["sol"].objval)),
                                     post("epigraph-variable", lambda ns, res: p_eq(res, ns["usersign"] * ns["xbar"][0]))],
                                    mode="D", label=f"{front},{sense}")
            out += obs

        def setup_unsolved(c, front=front):
            m = {"ro": ro.Model, "dro": lambda: dro.Model(2)}.get(front, None)
            if m is None:
                from ..harness import gcp
                m = gcp.Model
            m = m()
            x = m.dvar(2)
            m.min(x.sum())
            return {"m": m}

        def setup_failed(c, front=front):
            ns = setup_unsolved(c)
            m = ns["m"]
            sol = lp.Solution("oracle", float("nan"), None, 2, 0.0)
            m.solution = sol
            if front == "ro":
                m.rc_model.solution = sol
            if front == "dro":
                m.ro_model.solution = sol
                m.ro_model.rc_model.solution = sol
            return ns
        F = {"ro": "rsome.ro:Model.get", "dro": "rsome.dro:Model.get", "gcp": "rsome.lp:Model.get"}[front]
        for lab, st in (("unsolved", setup_unsolved), ("failed", setup_failed)):
            obs, _ = check_function(F, st, lambda ns: ns["m"].get(), [always_raises("raises-without-solution", (RuntimeError,))],
                                    mode="D", label=f"{front},{lab}")
            out += obs
    return out


# ------------------------------------------------------------------ Vars.get / Vars.__call__

def vars_get():
    out = []
    shapes = [(), (3,), (2, 2), (2, 1, 2)]
    for k, shape in enumerate(shapes):
        def setup(c, shape=shape, k=k):
            m = ro.Model()
            pad = m.dvar(k + 1)            # something declared before, so `first` is not trivial
            x = m.dvar(shape)
            pad2 = m.dvar(2)
            m.min(pad2.sum())
            m.st(pad2 >= 0)
            formula, xbar, sol = _solve_with(m, m.rc_model, c)
            m.rc_model.solution = sol
            m.solution = sol
            return {"m": m, "x": x, "xbar": xbar, "first": 1 + (k + 1), "shape": shape}

        def right_entries(ns, res):
            shape, first, xbar = ns["shape"], ns["first"], ns["xbar"]
            if shape == ():
                return p_and(np.shape(res) == (), p_eq(res, xbar[first]))
            if tuple(np.shape(res)) != tuple(shape):
                return False
            terms = []
            for idx in np.ndindex(shape):
                terms.append(p_eq(res[idx], xbar[first + int(np.ravel_multi_index(idx, shape))]))
            return p_and(*terms)

        obs, _ = check_function("rsome.lp:Vars.get", setup, lambda ns: ns["x"].get(),
                                [post("entries-and-shape", right_entries)], mode="D", label=f"shape={shape}", bounded=True)
        out += obs
        obs, _ = check_function("rsome.lp:Vars.__call__", setup, lambda ns: ns["x"](),
                                [post("agrees-with-get", right_entries)], mode="D", label=f"shape={shape}", bounded=True)
        out += obs
        # slices of a variable: x[idx].get() and x[idx]() are NumPy's x.get()[idx]
        if shape != ():
            idxs = {(3,): [0, slice(None, None, -1), slice(1, None), [2, 0]], (2, 2): [0, (slice(None), 1), (1, 0), slice(None, None, -1)],
                    (2, 1, 2): [1, (0, 0), (slice(None), 0, 1), (Ellipsis, 0)]}[shape]
            for idx in idxs:
                def sliced(ns, res, idx=idx):
                    shape, first, xbar = ns["shape"], ns["first"], ns["xbar"]
                    full = np.empty(shape, dtype=object)
                    for ii in np.ndindex(shape):
                        full[ii] = xbar[first + int(np.ravel_multi_index(ii, shape))]
                    want = full[idx]
                    if tuple(np.shape(res)) != tuple(np.shape(want)):
                        return False
                    return views.all_eq(np.asarray(res, dtype=object), want) if np.shape(want) != () else p_eq(res, want)
                for how, f in (("get", lambda ns, idx=idx: ns["x"][idx].get()), ("__call__", lambda ns, idx=idx: ns["x"][idx]())):
                    obs, _ = check_function(f"rsome.lp:VarSub.{how}", setup, f, [post("numpy-slice-of-the-variable's-values", sliced)], mode="D",
                                            label=f"shape={shape},index={idx}", bounded=True)
                    out += obs

    def setup_unsolved(c):
        m = ro.Model()
        x = m.dvar(2)
        return {"x": x, "m": m}

    def setup_failed(c):
        ns = setup_unsolved(c)
        ns["m"].rc_model.solution = lp.Solution("oracle", float("nan"), None, 2, 0.0)
        return ns
    for lab, st in (("unsolved", setup_unsolved), ("failed", setup_failed)):
        obs, _ = check_function("rsome.lp:Vars.get", st, lambda ns: ns["x"].get(),
                                [always_raises("raises-without-solution", (RuntimeError,))], mode="D", label=lab)
        out += obs

    def setup_rand(c):
        m = ro.Model()
        x = m.dvar(2)
        z = m.rvar(2)
        m.rc_model.solution = lp.Solution("oracle", 0.0, np.zeros(3), 0, 0.0)
        return {"z": z}
    obs, _ = check_function("rsome.lp:Vars.get", setup_rand, lambda ns: ns["z"].get(),
                            [always_raises("random-variable-has-no-solution", (TypeError, RuntimeError))], mode="D", label="rvar")
    out += obs
    return out


# ------------------------------------------------------------------ Affine.__call__

def affine_call():
    out = []
    for shape in [(), (2,), (2, 2)]:
        def setup(c, shape=shape):
            m, x, y, X = new_ro()
            model = m.rc_model
            a = sym_affine(c, model, shape, [x.first, x.first + 1, y.first], "a")
            w = m.dvar(2)                       # declared later: a.linear has fewer columns than the solution
            xbar = valuation(c, model, "sol")
            model.solution = lp.Solution("oracle", 0.0, xbar, 0, 0.0)
            return {"a": a, "xbar": xbar, "shape": shape}
        obs, _ = check_function("rsome.lp:Affine.__call__", setup, lambda ns: ns["a"](),
                                [post("value-and-shape", lambda ns, res: views.same_shape_eq(res, views.val(ns["a"], ns["xbar"])))],
                                mode="D", label=f"shape={shape}", bounded=True)
        out += obs

    def setup_unsolved(c):
        m, x, y, X = new_ro()
        return {"a": x + 1}
    obs, _ = check_function("rsome.lp:Affine.__call__", setup_unsolved, lambda ns: ns["a"](),
                            [always_raises("raises-without-solution", (SyntaxError, RuntimeError))], mode="D", label="unsolved")
    out += obs
    return out


# ------------------------------------------------------------------ Convex.__call__

def convex_call(xtype):
    def setup(c):
        m, x, y, X = new_ro(mat=xtype in "OD")
        model = m.rc_model
        cv = ATOM[xtype](x, X)
        cv.sign = c.fresh_real("sign")
        cv.multiplier = c.fresh_real("mult")
        cv.affine_out = sym_affine(c, model, np.shape(cv.affine_out), [y.first], "out")
        c.assume(atoms.inv_convex(cv))
        xbar = valuation(c, model, "sol")
        if xtype in "LP":
            for v in views.flat(views.val(cv.affine_in, xbar)):
                c.assume(p_lt(0, v))
        model.solution = lp.Solution("oracle", 0.0, xbar, 0, 0.0)
        return {"cv": cv, "xbar": xbar}

    if xtype in SUPPORTED_EVAL:
        clauses = [post("value", lambda ns, res: views.all_eq(res, atoms.den_convex(ns["cv"], ns["xbar"]))),
                   post("shape", lambda ns, res: tuple(np.shape(res)) == tuple(np.shape(atoms.den_convex(ns["cv"], ns["xbar"]))))]
    else:
        clauses = [always_raises("unsupported-evaluation-raises", (ValueError, NotImplementedError, TypeError))]
    obs, _ = check_function("rsome.lp:Convex.__call__", setup, lambda ns: ns["cv"](), clauses, mode="D", label=f"xtype={xtype}")
    return obs


def convex_sum_call():
    """exp(x).sum() / log(x).sum() evaluated at the solution: ONE number, the sum of the element-wise values (plus offset)."""
    out = []
    for xt, mk, sgn in (("X", rsome.exp, 1), ("L", rsome.log, 1)):
        def setup(c, mk=mk):
            m, x, y, X = new_ro()
            model = m.rc_model
            cv = mk(2.0 * x + 1.0).sum() + y
            xbar = valuation(c, model, "sol")
            if mk is rsome.log:
                for v in views.flat(views.val(cv.affine_in, xbar)):
                    c.assume(p_lt(0, v))
            model.solution = lp.Solution("oracle", 0.0, xbar, 0, 0.0)
            return {"cv": cv, "xbar": xbar, "x": x, "y": y}

        def want(ns, xt=xt):
            vin = [2.0 * ns["xbar"][ns["x"].first + i] + 1.0 for i in range(2)]
            el = atoms.base(xt, np.array(vin, dtype=object), None)      # exp(v) resp. -log(v), element-wise
            tot = sum(views.flat(el), 0.0)
            return (tot if xt == "X" else -tot) + ns["xbar"][ns["y"].first]
        obs, _ = check_function("rsome.lp:Convex.__call__", setup, lambda ns: ns["cv"](),
                                [post("value-of-a-summed-atom-is-the-sum", lambda ns, res: (np.size(res) == 1 and views.all_eq(np.asarray(res, dtype=object).reshape(-1)[:1], [want(ns)])))],
                                mode="D", label=f"sum-of-atom,xtype={xt}")
        out += obs
    # a 2-D argument summed over one axis: one value per column / per row
    for axis in (0, 1):
        def setup2(c):
            m, x, y, X = new_ro(mat=True)
            model = m.rc_model
            cv = 2.0 * rsome.exp(X - 1.0).sum(axis=axis) + y
            xbar = valuation(c, model, "sol")
            model.solution = lp.Solution("oracle", 0.0, xbar, 0, 0.0)
            return {"cv": cv, "xbar": xbar, "X": X, "y": y}

        def want2(ns, axis=axis):
            V = [[ns["xbar"][ns["X"].first + 2 * i + j] - 1.0 for j in range(2)] for i in range(2)]
            el = atoms.base("X", np.array(V, dtype=object), None)
            tot = np.asarray(el, dtype=object).sum(axis=axis)
            return [2.0 * t + ns["xbar"][ns["y"].first] for t in tot]
        obs, _ = check_function("rsome.lp:Convex.__call__", setup2, lambda ns: ns["cv"](),
                                [post("value-of-an-atom-summed-over-an-axis", lambda ns, res: (np.shape(res) == (2,) and views.all_eq(np.asarray(res, dtype=object).reshape(-1), want2(ns))))],
                                mode="D", label=f"sum-of-atom over axis {axis}, 2x2 argument, scaled and offset")
        out += obs
    return out


# ------------------------------------------------------------------ RoAffine.__call__ / assign

def roaffine_call():
    out = []
    for shape in [(), (2,)]:
        for given in ("both", "z-only", "none", "one-entry", "reversed-slice", "two-slices", "index-list"):
            def setup(c, shape=shape, given=given):
                m, x, y, X = new_ro()
                z = m.rvar(2)
                w = m.rvar()
                model = m.rc_model
                size = int(np.prod(shape))
                nr = m.sup_model.last
                raff = sym_affine(c, model, (size, nr), [x.first, y.first], "R")
                aff = sym_affine(c, model, shape, [x.first + 1], "a")
                ra = lp.RoAffine(raff, aff, m.sup_model)
                xbar = valuation(c, model, "sol")
                model.solution = lp.Solution("oracle", 0.0, xbar, 0, 0.0)
                from ..harness import arr
                zv = arr([c.fresh_real("z0"), c.fresh_real("z1")])
                wv = c.fresh_real("w")
                # realisations given for PARTS of a random variable: the other entries stay at zero
                args = {"both": lambda: [z.assign(zv), w.assign(wv)], "z-only": lambda: [z.assign(zv)], "none": lambda: [],
                        "one-entry": lambda: [z[1].assign(zv[1]), w.assign(wv)], "reversed-slice": lambda: [z[::-1].assign(zv)],
                        "two-slices": lambda: [z[1:].assign(zv[1:]), z[0].assign(zv[0])],
                        "index-list": lambda: [z[[1]].assign(zv[:1])]}[given]()
                zfull = {"both": [zv[0], zv[1], wv], "z-only": [zv[0], zv[1], 0.0], "none": [0.0, 0.0, 0.0],
                         "one-entry": [0.0, zv[1], wv], "reversed-slice": [zv[1], zv[0], 0.0], "two-slices": [zv[0], zv[1], 0.0],
                         "index-list": [0.0, zv[0], 0.0]}[given]
                return {"ra": ra, "args": args, "zfull": zfull, "xbar": xbar, "shape": shape}

            def expected(ns):
                R = views.val(ns["ra"].raffine, ns["xbar"])
                a = views.val(ns["ra"].affine, ns["xbar"])
                rows = []
                for i in range(R.shape[0]):
                    rows.append(sum((R[i, j] * ns["zfull"][j] for j in range(R.shape[1])), 0.0))
                r = np.empty(len(rows), dtype=object)
                for i, v in enumerate(rows):
                    r[i] = v
                return r.reshape(ns["shape"]) + a if ns["shape"] != () else rows[0] + a

            obs, _ = check_function("rsome.lp:RoAffine.__call__", setup, lambda ns: ns["ra"](*ns["args"]),
                                    [post("value-at-realisation", lambda ns, res: views.same_shape_eq(res, expected(ns)))],
                                    mode="D", label=f"shape={shape},assigned={given}", bounded=True)
            out += obs
    return out


def roaffine_call_2d():
    """realisations of a 2-D random variable (or of a 2-D block of it) held in arrays that are NOT C-contiguous -- a transposed view, a
    Fortran-ordered copy: entry (i, j) of the realisation belongs to entry (i, j) of the variable whatever the memory layout"""
    out = []
    for given in ("block-transposed-view", "whole-fortran-order", "block-c-order", "column-strided-view"):
        def setup(c, given=given):
            m, x, y, X = new_ro()
            Z = m.rvar((2, 3))
            model = m.rc_model
            raff = sym_affine(c, model, (2, 6), [x.first, y.first], "R")
            aff = sym_affine(c, model, (2,), [x.first + 1], "a")
            ra = lp.RoAffine(raff, aff, m.sup_model)
            xbar = valuation(c, model, "sol")
            model.solution = lp.Solution("oracle", 0.0, xbar, 0, 0.0)
            from ..harness import arr
            zfull = [0.0] * 6
            if given == "whole-fortran-order":
                W = np.asfortranarray(arr([c.fresh_real(f"w{k}") for k in range(6)]).reshape((2, 3)))
                args = [Z.assign(W)]
                for i in range(2):
                    for j in range(3):
                        zfull[3 * i + j] = W[i, j]
            elif given == "column-strided-view":
                big = arr([c.fresh_real(f"w{k}") for k in range(8)]).reshape((2, 4))
                W = big[:, ::2]                        # a strided view of shape (2, 2)
                args = [Z[:, 0:2].assign(W)]
                for i in range(2):
                    for j in range(2):
                        zfull[3 * i + j] = W[i, j]
            else:
                V = arr([c.fresh_real(f"v{k}") for k in range(4)]).reshape((2, 2))
                W = V.T if given == "block-transposed-view" else V.T.copy()
                args = [Z[0:2, 1:3].assign(W)]
                for i in range(2):
                    for j in range(2):
                        zfull[3 * i + j + 1] = W[i, j]
            return {"ra": ra, "args": args, "zfull": zfull, "xbar": xbar}

        def expected(ns):
            R = views.val(ns["ra"].raffine, ns["xbar"])
            a = views.val(ns["ra"].affine, ns["xbar"])
            r = np.empty(2, dtype=object)
            for i in range(2):
                r[i] = sum((R[i, j] * ns["zfull"][j] for j in range(6)), 0.0)
            return r + a
        obs, _ = check_function("rsome.lp:RoAffine.__call__", setup, lambda ns: ns["ra"](*ns["args"]),
                                [post("value-at-realisation", lambda ns, res: views.same_shape_eq(res, expected(ns)))],
                                mode="D", label=f"2-D random variable,assigned={given}", bounded=True)
        out += obs
    return out


# ------------------------------------------------------------------ DecRule.get

def decrule_get():
    out = []
    patterns = {
        "rows-then-all": lambda y, z: (y[0].adapt(z[1]), y.adapt(z[2])),
        "all-then-rows": lambda y, z: (y.adapt(z[2]), y[0].adapt(z[1])),
        "single": lambda y, z: (y[1].adapt(z[0]),),
        "full": lambda y, z: (y.adapt(z),),
    }
    for pname, pat in patterns.items():
        def setup(c, pat=pat):
            m = ro.Model()
            pad = m.dvar(2)
            z = m.rvar(3)
            y = m.ldr(2)
            pat(y, z)
            m.minmax(pad.sum() + y.sum(), z <= 1, z >= -1)
            m.st(y >= pad)
            formula, xbar, sol = _solve_with(m, m.rc_model, c)
            m.rc_model.solution = sol
            m.solution = sol
            return {"m": m, "y": y, "z": z, "xbar": xbar}

        def coeff_oracle(ns, res):
            """res[i, j] is the value of the coefficient of z_j in y_i AS USED by the constraints
            (read from the rule's bi-affine form), NaN where the form has no such coefficient."""
            y, xbar = ns["y"], ns["xbar"]
            ro_expr = y.to_affine()
            R = views.dense(ro_expr.raffine.linear)
            nr = 3
            if tuple(np.shape(res)) != (2, nr):
                return False
            terms = []
            for i in range(2):
                for j in range(nr):
                    row = R[i * nr + j]
                    cols = [k for k in range(len(row)) if not (isinstance(row[k], float) and row[k] == 0)]
                    declared = bool(y.depend[i, j] == 1)
                    if declared != (len(cols) == 1):
                        return False
                    if cols:
                        terms.append(p_eq(res[i, j], xbar[cols[0]]))
                    else:
                        v = res[i, j]
                        terms.append(isinstance(v, float) and math.isnan(v))
            return p_and(*terms)

        obs, _ = check_function("rsome.lp:DecRule.get", setup, lambda ns: ns["y"].get(ns["z"]),
                                [post("coefficient-on-requested-component", coeff_oracle)], mode="D", label=f"adapt={pname}", bounded=True)
        out += obs
        # the coefficient query on a SLICE of the random variable: the matching columns of the full coefficient matrix
        for zi in (1, slice(1, None), slice(None, None, -1), [2, 0], slice(0, 3, 2)):
            def sliced_coeff(ns, res, zi=zi):
                y, xbar = ns["y"], ns["xbar"]
                R = views.dense(y.to_affine().raffine.linear)
                full = np.empty((2, 3), dtype=object)
                for i in range(2):
                    for j in range(3):
                        row = R[i * 3 + j]
                        cols = [k for k in range(len(row)) if not (isinstance(row[k], float) and row[k] == 0)]
                        full[i, j] = xbar[cols[0]] if cols else float("nan")
                want = full[:, zi]
                if tuple(np.shape(res)) != tuple(np.shape(want)):
                    return False
                t = []
                for g, w_ in zip(np.asarray(res, dtype=object).reshape(-1), np.asarray(want, dtype=object).reshape(-1)):
                    if isinstance(w_, float) and math.isnan(w_):
                        t.append(isinstance(g, float) and math.isnan(g))
                    else:
                        t.append(p_eq(g, w_))
                return p_and(*t)
            obs, _ = check_function("rsome.lp:DecRule.get", setup, lambda ns, zi=zi: ns["y"].get(ns["z"][zi]),
                                    [post("coefficients-on-the-requested-components-only", sliced_coeff)], mode="D", label=f"adapt={pname},z[{zi}]", bounded=True)
            out += obs
        obs, _ = check_function("rsome.lp:DecRule.get", setup, lambda ns: ns["y"].get(),
                                [post("constant-part", lambda ns, res: p_and(
                                    tuple(np.shape(res)) == (2,),
                                    *[p_eq(res[i], ns["xbar"][ns["y"].fixed.first + i]) for i in range(2)]))],
                                mode="D", label=f"adapt={pname},const", bounded=True)
        out += obs
    return out


def run_job(job):
    k = job["kind"]
    if k == "model_get":
        return model_get()
    if k == "vars_get":
        return vars_get()
    if k == "affine_call":
        return affine_call()
    if k == "convex_sum_call":
        return convex_sum_call()
    if k == "convex_call":
        return convex_call(job["xtype"])
    if k == "roaffine_call":
        return roaffine_call() + roaffine_call_2d()
    if k == "decrule_get":
        return decrule_get()
    if k == "dro_get":
        from . import c12_dro
        return c12_dro.dro_get()
    if k == "dro_call":
        from . import c12_dro
        return c12_dro.dro_call()
    raise ValueError(k)
