"""C02 -- the robust counterpart is exact (DESIGN.md 5/C02).

Exactness = (i) the compiled rows are EXACTLY the textbook counterpart RC_spec over the support's dual
standard form D -- no extra restriction on the multipliers, no missing row, nothing dropped -- proved as
an equivalence of the two constraint systems at an arbitrary vector; (ii) D is a true dual of the set
(C08, proved separately); (iii) strong LP/conic duality (M1/M2, trusted) for non-empty bounded /
strictly feasible sets.  Further: decision-rule coefficients exist exactly on the declared dependency
pattern, each on its own unbounded column; the epigraph variable is free and is the only objective column.
"""
from __future__ import annotations

import numpy as np

from ..engine import post, always_raises, check_function, source_info
from ..harness import lp, ro, rsome, arr, sym_affine, sym_array
from ..spec import dual as D, rc, views
from ..sym import SymReal, p_and, p_eq, p_iff, p_le
from .c01 import SETS, _flat, _nz, _nzarr

META = {
    "level": "other",
    "explanation": ("RoConstr.le_to_rc is executed on robust constraints with symbolic bi-affine coefficients over every "
                    "set family; z3 proves that the conjunction of the returned constraints is EQUIVALENT, at an "
                    "arbitrary vector, to the textbook counterpart written over the support's dual standard form "
                    "(so no conservatism is added and no protection removed); decision rules get one free coefficient "
                    "column per declared dependency and none elsewhere; the epigraph variable is free.  Exactness of "
                    "the textbook counterpart itself is strong duality (trusted) given C08."),
    "bounds": "1-2 robust rows, 2 random variables (+ lifted auxiliaries of the set), rules 2x3 with all listed patterns",
    "trusted_base": ["z3/cvc5", "M1/M2 strong duality for the textbook robust counterpart", "C08: the support's dual standard form is a true dual (checked by ./check C08)"],
    "assumptions": ["whether a user's set is bounded / strictly feasible is the user's obligation"],
}


# lemmas over the contracts, checked by Lean 4 + Mathlib on every run (lean/Lemmas.lean, rverif/lemmas.py)
LEMMAS = ["weak_duality", "weak_duality_eq", "soc_pairing"]


def SOURCES():
    return {"rsome.lp:RoConstr.le_to_rc": source_info(lp.RoConstr.le_to_rc), "rsome.lp:RoConstr.forall": source_info(lp.RoConstr.forall),
            "rsome.lp:DecRule.to_affine": source_info(lp.DecRule.to_affine), "rsome.lp:DecRule.adapt": source_info(lp.DecRule.adapt),
            "rsome.ro:Model.st": source_info(ro.Model.st), "rsome.ro:Model.do_math": source_info(ro.Model.do_math)}


def counterpart(setname, nrows, given):
    def setup(c):
        m = ro.Model()
        x = m.dvar(2)
        z = m.rvar(2)
        model = m.rc_model
        nr = m.sup_model.last
        raff = sym_affine(c, model, (nrows, nr), [x.first, x.first + 1], "R", nz=True)
        aff = sym_affine(c, model, (nrows,), [x.first], "a", nz=True)
        k = lp.RoConstr(lp.RoAffine(raff, aff, m.sup_model), 0)
        zs = SETS[setname](c, z)
        if given == "own":
            k.forall(*zs)
            arg = None
            Dsup = k.support
        else:
            m.minmax(x.sum() * z[0], *zs)
            arg = m.obj_support
            Dsup = arg
        return {"m": m, "k": k, "arg": arg, "D": Dsup, "ybase": model.last, "model": model, "c": c}

    def call(ns):
        return ns["k"].le_to_rc(ns["arg"]) if ns["arg"] is not None else ns["k"].le_to_rc()

    def equals_spec(ns, res):
        from ..sym import ctx
        n = ns["model"].last
        X = [ctx().fresh_real(f"X{j}_") for j in range(n)]
        X = arr(X)
        R = views.val(ns["k"].raffine, X)
        a = views.val(ns["k"].affine, X)
        spec = rc.rc_spec(np.asarray(R, dtype=object), views.flat(a), ns["D"], X, ns["ybase"])
        code = p_and(*[rc.mean_any(kk, X) for kk in res])
        return p_iff(code, spec)

    def fresh_block(ns, res):
        # the multipliers are a fresh block of nrows x size_support columns, all owned by this model
        ns_ = ns["D"].linear.shape[1]
        return ns["model"].last == ns["ybase"] + nrows * ns_ and all(kk.model is ns["model"] for kk in res if hasattr(kk, "model"))

    obs, _ = check_function("rsome.lp:RoConstr.le_to_rc", setup, call,
                            [post("compiled-rows-equivalent-to-textbook-counterpart", equals_spec),
                             post("fresh-multiplier-block", fresh_block)],
                            mode="D", label=f"set={setname},rows={nrows},support={given}", bounded=True, max_paths=300)
    return obs


def no_support():
    def setup(c):
        m = ro.Model()
        x = m.dvar(2)
        z = m.rvar(2)
        return {"k": (x @ z <= 1)}
    obs, _ = check_function("rsome.lp:RoConstr.le_to_rc", setup, lambda ns: ns["k"].le_to_rc(),
                            [always_raises("raises-without-a-set", (RuntimeError, ValueError))], mode="D", label="no set at all")
    return obs


PATTERNS = {
    "none": lambda y, z: None,
    "full": lambda y, z: y.adapt(z),
    "rows": lambda y, z: (y[0].adapt(z[1]), y[1].adapt(z[0:2])),
    "cols-then-rows": lambda y, z: (y.adapt(z[2]), y[0].adapt(z[0])),
    "single": lambda y, z: y[1].adapt(z[1]),
}


def rule_masks():
    out = []
    for pname, pat in PATTERNS.items():
        def setup(c, pat=pat):
            m = ro.Model()
            x = m.dvar(2)
            z = m.rvar(3)
            y = m.ldr(2)
            before = m.rc_model.last
            pat(y, z)
            return {"m": m, "y": y, "z": z, "before": before}

        def mask_exact(ns, e):
            y, m = ns["y"], ns["m"]
            nr = 3
            dep = y.depend if y.depend is not None else np.zeros((2, nr), dtype=int)
            if int(dep.sum()) == 0:
                if isinstance(e, lp.RoAffine):
                    A = views.dense(e.raffine.linear)
                    return not np.any(A != 0) and not np.any(np.asarray(e.raffine.const, dtype=float) != 0)
                return isinstance(e, lp.Affine)
            if not isinstance(e, lp.RoAffine):
                return False
            A = views.dense(e.raffine.linear)
            if np.any(np.asarray(e.raffine.const, dtype=float) != 0):
                return False
            used = []
            for i in range(2):
                for j in range(nr):
                    row = A[i * nr + j]
                    cols = [k for k in range(len(row)) if row[k] != 0]
                    if dep[i, j] == 1:
                        if len(cols) != 1 or row[cols[0]] != 1.0:
                            return False
                        used.append(cols[0])
                    elif cols:
                        return False
            # fresh, pairwise distinct columns that belong to no other variable
            if len(set(used)) != len(used) or any(k < ns["before"] for k in used):
                return False
            # the constant part is the rule's own fixed variable
            B = views.dense(e.affine.linear)
            for i in range(2):
                cols = [k for k in range(B.shape[1]) if B[i, k] != 0]
                if cols != [y.fixed.first + i] or B[i, cols[0]] != 1.0:
                    return False
            return True

        def coefficient_columns_free(ns, e):
            m = ns["m"]
            m.min(ns["y"].sum() if False else m.rc_model.vars[1].sum())
            k = ns["y"] <= 5
            m.st(k.forall(ns["z"] <= 1, ns["z"] >= -1) if isinstance(k, lp.RoConstr) else k)
            F = m.do_math()
            if not isinstance(e, lp.RoAffine):
                return True
            A = views.dense(e.raffine.linear)
            cols = {k for r in range(A.shape[0]) for k in range(A.shape[1]) if A[r, k] != 0}
            return all(np.isinf(float(F.ub[k])) and np.isinf(float(F.lb[k])) and F.vtype[k] == "C" for k in cols)

        obs, _ = check_function("rsome.lp:DecRule.to_affine", setup, lambda ns: ns["y"].to_affine(),
                                [post("coefficients-exactly-on-declared-dependencies", mask_exact),
                                 post("coefficient-columns-are-free-continuous-variables", coefficient_columns_free)],
                                mode="D", label=f"adapt={pname}", bounded=True)
        out += obs

    def setup_late(c):
        m = ro.Model()
        z = m.rvar(2)
        y = m.ldr(2)
        y.adapt(z[0])
        _ = y + 1            # the rule has been used: its bi-affine form is fixed
        return {"y": y, "z": z}
    obs, _ = check_function("rsome.lp:DecRule.adapt", setup_late, lambda ns: ns["y"].adapt(ns["z"][1]),
                            [always_raises("adapt-after-use-raises", (SyntaxError, RuntimeError, ValueError))], mode="D", label="late adapt")
    out += obs

    def setup_twice(c):
        m = ro.Model()
        z = m.rvar(2)
        y = m.ldr(2)
        y.adapt(z[0])
        return {"y": y, "z": z}
    obs, _ = check_function("rsome.lp:DecRule.adapt", setup_twice, lambda ns: ns["y"][1].adapt(ns["z"]),
                            [always_raises("redeclaring-a-dependency-raises", (RuntimeError, ValueError))], mode="D", label="overlap")
    out += obs
    return out


def epigraph():
    out = []
    for kind in ("min", "max", "minmax", "maxmin", "minmax-piecewise"):
        def setup(c, kind=kind):
            m = ro.Model()
            x = m.dvar(2)
            z = m.rvar(2)
            if kind == "min":
                m.min(_nzarr(c, 2, "c") @ x)
            elif kind == "max":
                m.max(_nzarr(c, 2, "c") @ x)
            elif kind == "minmax":
                m.minmax((x * z).sum() + x[0], z <= 1, z >= -1)
            elif kind == "maxmin":
                m.maxmin((x * z).sum() + x[0], z <= 1, z >= -1)
            else:
                m.minmax(rsome.maxof(x @ z, x[0] - 1.0), z <= 1, z >= -1)
            m.st(x <= 3, x >= -3)
            return {"m": m}

        def free_epigraph(ns, F):
            o = np.asarray(F.obj, dtype=float).reshape(-1)
            return bool(o[0] == 1.0 and not np.any(o[1:] != 0) and np.isinf(float(F.ub[0])) and np.isinf(float(F.lb[0]))
                        and F.vtype[0] == "C")
        obs, _ = check_function("rsome.ro:Model.do_math", setup, lambda ns: ns["m"].do_math(),
                                [post("epigraph-variable-is-free-and-the-only-objective-column", free_epigraph)],
                                mode="D", label=kind, bounded=True)
        out += obs
    return out


# ------------------------------------------------------------------ end-to-end exactness against vertex enumeration

def _poly_sets():
    lo1, up1 = np.array([-2.5, -1.0]), np.array([-0.5, 1.0])
    lo2, up2 = np.array([0.0, 0.5]), np.array([1.0, 2.5])
    lo3, up3 = np.array([-1.0, -0.5]), np.array([0.0, -0.5])

    def box(lo, up):
        return (lambda z: [z <= up, z >= lo]), [(a, b) for a in (lo[0], up[0]) for b in (lo[1], up[1])]
    return {
        "box-negative-upper": box(lo1, up1),
        "box-positive-lower": box(lo2, up2),
        "box-zero-upper-and-fixed": box(lo3, up3),
        "box-as-abs": ((lambda z: [abs(z - np.array([-1.5, 0.0])) <= 1.0]), [(-2.5, -1.0), (-2.5, 1.0), (-0.5, -1.0), (-0.5, 1.0)]),
        "simplex": ((lambda z: [z >= 0, z.sum() <= 1.5]), [(0.0, 0.0), (1.5, 0.0), (0.0, 1.5)]),
        "budget": ((lambda z: [rsome.norm(z, 1) <= 1.5, rsome.norm(z, "inf") <= 1]),
                   [(a * 1.0, b * 0.5) for a in (-1, 1) for b in (-1, 1)] + [(a * 0.5, b * 1.0) for a in (-1, 1) for b in (-1, 1)]),
        "segment (equality in the set)": ((lambda z: [z >= -1, z <= 2, z[0] + 2 * z[1] == 1]), [(2.0, -0.5), (-1.0, 1.0)]),
        "shifted-1-norm": ((lambda z: [rsome.norm(z - np.array([1.0, -2.0]), 1) <= 0.5]), [(1.5, -2.0), (0.5, -2.0), (1.0, -1.5), (1.0, -2.5)]),
    }


def closed_form(setname, variant):
    """For polytopic sets with known vertices: the projection of the compiled program onto (objective, x) is EXACTLY
    {(t, x): objective row, bounds, and the constraint as written at every vertex} (a constraint affine in z holds
    on a polytope iff it holds at its vertices).  With a decision rule y(z) = y0 + Y z the rule coefficients are
    projected out on both sides.  Independent of the library's own dual of the set."""
    from ..spec import proj
    from ..sym import ctx, SymBool, to_z3_bool
    import z3
    mk, verts = _poly_sets()[setname]
    A = np.array([[1.0, -2.0], [0.5, 1.5]])
    a0 = np.array([0.5, -1.0])
    cost = np.array([1.5, -2.0])

    def setup(c):
        m = ro.Model()
        x = m.dvar(2)
        y = m.ldr() if variant == "rule" else m.dvar()
        z = m.rvar(2)
        if variant == "rule":
            y.adapt(z)
        zs = mk(z)
        if variant in ("default-set", "rule"):
            m.minmax(cost @ x + 0.25 * y, *zs)
        elif variant == "own-set-beside-a-default":
            # a (different, smaller) default set exists: constraints carrying their own set must keep it
            m.minmax(cost @ x + 0.25 * y, z <= 0.25, z >= -0.25)
        else:
            m.min(cost @ x + 0.25 * y)
        k1 = (A @ x + a0) @ z + x[0] - 2 * x[1] + y <= 4
        k2 = (x[1] * z[0] - y >= -3)
        if variant == "robust-equality":
            # an equality that must hold for every z of the set: on a set that is not full-dimensional this is weaker
            # than "all coefficients vanish"
            k3 = (x[0] * z[0] + 2 * x[0] * z[1] + x[1] * z[1] + y == 2)
            m.st(k1.forall(*zs), k3.forall(*zs))
        elif variant == "default-set":
            m.st(k1, k2)
        else:
            m.st(k1.forall(*zs), k2.forall(zs))
        m.st(x <= 3, x >= -3)
        if variant != "rule":
            m.st(y <= 5, y >= -5)
        F = m.do_math()
        return {"F": F, "cols": [0, x.first, x.first + 1] + ([y.first] if variant != "rule" else [])}

    def exact(ns, _):
        c = ctx()
        nu = len(ns["cols"])
        X = [c.fresh_real(f"X{j}_") for j in range(nu)]
        t, x0, x1 = X[0], X[1], X[2]
        if variant == "rule":
            y0, Y0, Y1 = (SymReal(z3.Real(n)) for n in ("ey0", "eY0", "eY1"))
            yv = lambda v: y0 + Y0 * v[0] + Y1 * v[1]          # noqa: E731
        else:
            yv = lambda v: X[3]                                 # noqa: E731
        rows = [p_le(-3.0, x0), p_le(x0, 3.0), p_le(-3.0, x1), p_le(x1, 3.0)]
        if variant != "rule":
            rows += [p_le(-5.0, X[3]), p_le(X[3], 5.0)]
        for v in verts:
            g1 = ((A[0, 0] * x0 + A[0, 1] * x1 + a0[0]) * v[0] + (A[1, 0] * x0 + A[1, 1] * x1 + a0[1]) * v[1] + x0 - 2 * x1 + yv(v))
            rows.append(p_le(g1, 4.0))
            if variant == "robust-equality":
                rows.append(p_eq(x0 * v[0] + 2 * x0 * v[1] + x1 * v[1] + yv(v), 2.0))
            else:
                rows.append(p_le(-3.0, x1 * v[0] - yv(v)))
            if variant == "rule":
                rows.append(p_le(cost[0] * x0 + cost[1] * x1 + 0.25 * yv(v), t))
        if variant != "rule":
            rows.append(p_le(cost[0] * x0 + cost[1] * x1 + 0.25 * X[3], t))
        rhs = p_and(*rows)
        if variant == "rule":
            rhs = SymBool(z3.Exists([z3.Real("ey0"), z3.Real("eY0"), z3.Real("eY1")], to_z3_bool(rhs)))
        return p_iff(proj.exists_feas(ns["F"], ns["cols"], X), rhs)

    obs, _ = check_function("rsome.ro:<forall / le_to_rc / do_math>", setup, lambda ns: None,
                            [post("projection-onto-the-decisions-equals-the-constraint-at-every-vertex", exact)],
                            mode="D", label=f"{setname},{variant}", bounded=True, z3_ms=60000,
                            replay=None if variant == "rule" else "auto")
    return obs


def jobs(tier):
    js = []
    for st in SETS:
        for rows in (1, 2):
            for given in ("own", "default"):
                if tier == "quick" and (rows == 2 and st not in ("box", "box-per-component", "ball")):
                    continue
                js.append({"name": f"counterpart-{st}-{rows}-{given}", "kind": "counterpart", "set": st, "rows": rows, "given": given})
    js += [{"name": "no-support", "kind": "no_support"}, {"name": "rule-masks", "kind": "rule_masks"}, {"name": "epigraph", "kind": "epigraph"}]
    for st in _poly_sets():
        for variant in ("own-set", "default-set", "rule", "own-set-beside-a-default", "robust-equality"):
            js.append({"name": f"closed-form-{st}-{variant}", "kind": "closed_form", "set": st, "variant": variant})
    return js


def run_job(job):
    k = job["kind"]
    if k == "counterpart":
        return counterpart(job["set"], job["rows"], job["given"])
    if k == "no_support":
        return no_support()
    if k == "rule_masks":
        return rule_masks()
    if k == "epigraph":
        return epigraph()
    if k == "closed_form":
        return closed_form(job["set"], job["variant"])
    raise ValueError(k)
