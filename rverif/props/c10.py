"""C10 -- only convex uses of convex/concave expressions are accepted (DESIGN.md 5/C10).

Real functions under contract: Convex.__neg__/__add__/__radd__/__sub__/__rsub__/__mul__/__rmul__/
__le__/__ge__/__eq__, the same for PerspConvex and PiecewiseConvex, every atom constructor on
Affine, math.maxof/minof, and the bilinear rejections of Affine.__mul__/__matmul__ and DecRule.

Operands: a real ro.Model with real Vars; the Convex operand is produced by the real atom
constructor and then given an ARBITRARY tracked state (sign, multiplier, affine offset with
symbolic coefficients) constrained only by Inv.  Every operator is shown to preserve Inv and to
transform the denotation as written, so the claims extend to operator chains of any length by
induction.  All scalars range over R.
"""
from __future__ import annotations

import numpy as np

from .. import engine
from ..engine import post, raises_iff, always_raises, check_function, source_info
from ..harness import lp, ro, rmath, rsome, new_ro, sym_affine, sym_array, valuation
from ..spec import atoms, views
from ..sym import p_and, p_eq, p_iff, p_le, p_not, p_or, p_implies

META = {
    "level": "proof",
    "explanation": ("Every operator of Convex / PerspConvex / PiecewiseConvex (and their dro wrappers) is executed "
                    "on proxy scalars over real rsome objects; per feasible path the clauses 'Inv preserved', "
                    "'denotation transformed as written', 'raises iff the use is non-convex', 'accepted constraint "
                    "means what was written' are discharged by z3 (NRA with uninterpreted exp/log/p-norm).  "
                    "Unbounded over all real scalars (sign, multiplier, scaling factor, affine coefficients, "
                    "valuation) and, by induction over Inv, over operator chains of any length; operand shapes "
                    "are the small concrete ones listed under bounds."),
    "bounds": "operand arrays have shape (2,) (vector atoms) or (2,2) (determinant atoms); piecewise terms have 2-3 pieces",
    "trusted_base": ["z3 4.x/5.1 (NRA, EUF)", "cvc5 1.0.3 for VCs z3 leaves open", "CPython 3.12 object model",
                     "NumPy on object arrays", "rverif.shims.sparse.ShimCSR in place of scipy.sparse",
                     "table T-CVX (spec/atoms.py): the convex representative of each xtype is convex (mathematics)"],
    "assumptions": ["A-SHAPE(C10): the sign/multiplier calculus is exercised on operands of shape (2,) / (2,2); "
                    "nothing in the functions under contract branches on the operand size"],
}

XTYPES = "AMIESQXLFPNGTCOD"

ATOM = {
    "A": lambda x, X: abs(x), "M": lambda x, X: rsome.norm(x, 1), "I": lambda x, X: rsome.norm(x, "inf"),
    "E": lambda x, X: rsome.norm(x, 2), "S": lambda x, X: rsome.square(x), "Q": lambda x, X: rsome.sumsqr(x),
    "X": lambda x, X: rsome.exp(x), "L": lambda x, X: rsome.log(x), "F": lambda x, X: rsome.softplus(x),
    "P": lambda x, X: rsome.entropy(x), "N": lambda x, X: rsome.pnorm(x, 2.5), "G": lambda x, X: rsome.pnorm(x, 3),
    "T": lambda x, X: rsome.power(x, 3), "C": lambda x, X: rsome.gmean(x), "O": lambda x, X: rsome.logdet(X),
    "D": lambda x, X: rsome.rootdet(X),
}
# documented meaning of each atom, in the spec vocabulary: (sign, xtype) it must denote
DOC = {"A": 1, "M": 1, "I": 1, "E": 1, "S": 1, "Q": 1, "X": 1, "L": -1, "F": 1, "P": -1, "N": 1, "G": 1, "T": 1,
       "C": -1, "O": -1, "D": -1}


def jobs(tier):
    js = [{"name": f"convex-{xt}", "kind": "convex", "xtype": xt} for xt in XTYPES]
    js += [{"name": f"persp-{xt}", "kind": "persp", "xtype": xt} for xt in "XL"]
    js += [{"name": "piecewise", "kind": "piecewise"}, {"name": "bilinear", "kind": "bilinear"},
           {"name": "atoms", "kind": "atoms"}]
    # the dro wrapper classes over the same algebra
    js += [{"name": f"dro-convex-{xt}", "kind": "convex", "xtype": xt, "front": "dro"} for xt in XTYPES]
    js += [{"name": f"dro-persp-{xt}", "kind": "persp", "xtype": xt, "front": "dro"} for xt in "XL"]
    js += [{"name": "dro-piecewise", "kind": "piecewise", "front": "dro"}, {"name": "adaptive-atoms", "kind": "adaptive_atoms"}, {"name": "atom-arguments", "kind": "atom_arguments"}]
    return js


def SOURCES():
    fs = {}
    for cls in (lp.Convex, lp.PerspConvex, lp.PiecewiseConvex, lp.DecConvex, lp.DecPerspConvex, lp.ExpPiecewiseConvex, lp.DecAffine):
        for n in ("__init__", "__neg__", "__add__", "__radd__", "__sub__", "__rsub__", "__mul__", "__rmul__", "__le__", "__ge__", "__eq__", "__abs__", "expcone"):
            f = cls.__dict__.get(n)
            if f is not None:
                fs[f"rsome.lp:{cls.__name__}.{n}"] = source_info(f)
    return fs


# ------------------------------------------------------------------------------------------
# Convex
# ------------------------------------------------------------------------------------------

BROADCASTING = "ASXLF"     # element-wise atoms: abs, square, exp, log, softplus
FRONT = "ro"      # "dro": the same obligations on the dro wrapper classes (DecConvex, DecPerspConvex, piecewise over DecAffine)


def _new(mat=False):
    if FRONT == "dro":
        from ..harness import dro
        m = dro.Model(2)
        x = m.dvar(2)
        y = m.dvar()
        X = m.dvar((2, 2)) if mat else None
        return m, x, y, X, m.vt_model
    m, x, y, X = new_ro(mat=mat)
    return m, x, y, X, m.rc_model


def _aff(c, m, model, shape, cols, name):
    """an affine operand as the front end hands it to the user (a DecAffine in dro models)"""
    a = sym_affine(c, model, shape, cols, name)
    return lp.DecAffine(m, a) if FRONT == "dro" else a


def _mk_convex(c, xtype, arbitrary=True):
    m, x, y, X, model = _new(mat=xtype in "OD")
    cv = ATOM[xtype](x, X)
    ns = {"m": m, "model": model, "x": x, "y": y, "cv": cv}
    if arbitrary:
        s = c.fresh_real("sign")
        mu = c.fresh_real("mult")
        cv.sign = s
        cv.multiplier = mu
        oshape = np.shape(cv.affine_out)
        cv.affine_out = sym_affine(c, model, oshape, [y.first], "out")
        c.assume(atoms.inv_convex(cv))
        ns.update(s=s, mu=mu)
    ns["xbar"] = valuation(c, model)
    ns["den0"] = None
    return ns


def _other(c, ns, kind):
    cv, model, y = ns["cv"], ns["model"], ns["y"]
    oshape = np.shape(cv.affine_out)
    if kind == "real":
        return c.fresh_real("r")
    if kind == "array":
        return sym_array(c, oshape, "arr")
    if kind == "affine":
        return _aff(c, ns["m"], model, oshape, [y.first], "oth")
    if kind == "vars":
        return y
    if kind in ("array-bc", "affine-bc"):
        # an operand of LARGER broadcast shape than the atom (NumPy broadcasting of the atom against it)
        bshape = (2,) + tuple(oshape) if oshape != () else (2,)
        if kind == "array-bc":
            a = sym_array(c, bshape, "arrbc")
            for v in np.asarray(a, dtype=object).reshape(-1):
                c.assume(v != 0)               # zero entries of the operand are explored with the same-shape kinds
            return a
        a = sym_affine(c, model, bshape, [y.first], "othbc", nz=True)
        return lp.DecAffine(ns["m"], a) if FRONT == "dro" else a
    raise ValueError(kind)


def _oval(o, xbar):
    return views.val(o, xbar) if not isinstance(o, (int, float)) or True else o


def _is_convex_like(res, cv):
    return isinstance(res, lp.Convex) and res.xtype == cv.xtype and type(res) is type(cv)


def convex_ops(xtype, cls_name="Convex", mk=_mk_convex, den=atoms.den_convex, mean=atoms.mean_cvx,
               same_extra=lambda res, cv, xbar: True):
    """All obligations for one xtype of Convex (or PerspConvex through the hooks)."""
    F = f"rsome.lp:{cls_name}"
    out = []
    stats = []

    def run(fname, setup, call, clauses, label):
        obs, st = check_function(f"{F}.{fname}", setup, call, clauses, mode="D", label=label, bounded=False)
        out.extend(obs)
        stats.append(st)

    def wf(ns, res):
        return p_and(_is_convex_like(res, ns["cv"]), atoms.inv_convex(res) if _is_convex_like(res, ns["cv"]) else False,
                     same_extra(res, ns["cv"], ns["xbar"]) if _is_convex_like(res, ns["cv"]) else False)

    # ---- __neg__
    run("__neg__", lambda c: mk(c, xtype), lambda ns: -ns["cv"],
        [post("inv", wf),
         post("denote", lambda ns, res: views.same_shape_eq(den(res, ns["xbar"]), -den(ns["cv"], ns["xbar"])))],
        f"xtype={xtype}")

    # ---- __add__ / __radd__ / __sub__ / __rsub__ with each operand kind
    for kind in ("real", "array", "affine", "vars") + (("array-bc", "affine-bc") if xtype in BROADCASTING else ()):
        def setup(c, kind=kind):
            ns = mk(c, xtype)
            ns["o"] = _other(c, ns, kind)
            return ns
        for opname, f, spec in (
                ("__add__", lambda ns: ns["cv"] + ns["o"], lambda d, o: d + o),
                ("__radd__", lambda ns: ns["o"] + ns["cv"], lambda d, o: d + o),
                ("__sub__", lambda ns: ns["cv"] - ns["o"], lambda d, o: d - o),
                ("__rsub__", lambda ns: ns["o"] - ns["cv"], lambda d, o: o - d)):
            if kind == "vars" and opname in ("__radd__", "__rsub__") and False:
                continue
            run(opname, setup, f,
                [post("inv", wf),
                 post("denote", lambda ns, res, spec=spec: views.all_eq(
                     den(res, ns["xbar"]), spec(den(ns["cv"], ns["xbar"]), views.val(ns["o"], ns["xbar"]))))],
                f"xtype={xtype},other={kind}")

    # ---- __mul__ / __rmul__ by a real scalar
    def setup_mul(c):
        ns = mk(c, xtype)
        ns["r"] = c.fresh_real("r")
        return ns
    for opname, f in (("__mul__", lambda ns: ns["cv"] * ns["r"]), ("__rmul__", lambda ns: ns["r"] * ns["cv"])):
        run(opname, setup_mul, f,
            [post("inv", wf),
             post("denote", lambda ns, res: views.same_shape_eq(den(res, ns["xbar"]), ns["r"] * den(ns["cv"], ns["xbar"])))],
            f"xtype={xtype}")

    # ---- multiplication by anything that is not a real number is rejected
    def setup_mul_bad(c):
        ns = mk(c, xtype)
        ns["o"] = _other(c, ns, "affine")
        return ns
    run("__mul__", setup_mul_bad, lambda ns: ns["cv"] * ns["o"], [always_raises("rejects-nonscalar", (TypeError,))],
        f"xtype={xtype},other=affine")

    # ---- comparisons
    for kind in ("real", "affine") + (("affine-bc",) if xtype in BROADCASTING else ()):
        def setup(c, kind=kind):
            ns = mk(c, xtype)
            ns["o"] = _other(c, ns, kind)
            return ns
        run("__le__", setup, lambda ns: ns["cv"] <= ns["o"],
            [raises_iff("rejects-concave", lambda ns: p_eq(ns["cv"].sign, -1), (ValueError,)),
             post("is-constraint", lambda ns, res: isinstance(res, lp.CvxConstr) and res.xtype == ns["cv"].xtype and res.model is ns["model"]),
             post("means-what-was-written", lambda ns, res: p_iff(
                 mean(res, ns["xbar"]), views.all_le(den(ns["cv"], ns["xbar"]), views.val(ns["o"], ns["xbar"]))))],
            f"xtype={xtype},other={kind}")
        run("__ge__", setup, lambda ns: ns["cv"] >= ns["o"],
            [raises_iff("rejects-convex", lambda ns: p_eq(ns["cv"].sign, 1), (ValueError,)),
             post("is-constraint", lambda ns, res: isinstance(res, lp.CvxConstr) and res.xtype == ns["cv"].xtype and res.model is ns["model"]),
             post("means-what-was-written", lambda ns, res: p_iff(
                 mean(res, ns["xbar"]), views.all_le(views.val(ns["o"], ns["xbar"]), den(ns["cv"], ns["xbar"]))))],
            f"xtype={xtype},other={kind}")
        # reflected forms: affine <= convex goes through Affine.__le__ / the scalar's reflected operator
        run("__le__(reflected)", setup, lambda ns: ns["o"] <= ns["cv"],
            [raises_iff("rejects-convex", lambda ns: p_eq(ns["cv"].sign, 1), (ValueError,)),
             post("means-what-was-written", lambda ns, res: p_iff(
                 mean(res, ns["xbar"]), views.all_le(views.val(ns["o"], ns["xbar"]), den(ns["cv"], ns["xbar"]))))],
            f"xtype={xtype},other={kind}")
        run("__ge__(reflected)", setup, lambda ns: ns["o"] >= ns["cv"],
            [raises_iff("rejects-concave", lambda ns: p_eq(ns["cv"].sign, -1), (ValueError,)),
             post("means-what-was-written", lambda ns, res: p_iff(
                 mean(res, ns["xbar"]), views.all_le(den(ns["cv"], ns["xbar"]), views.val(ns["o"], ns["xbar"]))))],
            f"xtype={xtype},other={kind}")
        run("__eq__", setup, lambda ns: ns["cv"] == ns["o"], [always_raises("rejects-equality", (TypeError,))],
            f"xtype={xtype},other={kind}")
    return out


# ------------------------------------------------------------------------------------------
# PerspConvex
# ------------------------------------------------------------------------------------------

def _mk_persp(c, xtype):
    m, x, y, X, model = _new()
    z = m.dvar(2)
    cv = rsome.pexp(x, z) if xtype == "X" else rsome.plog(x, z)
    s = c.fresh_real("sign")
    mu = c.fresh_real("mult")
    cv.sign, cv.multiplier = s, mu
    cv.affine_out = sym_affine(c, model, np.shape(cv.affine_out), [y.first], "out")
    c.assume(atoms.inv_convex(cv))
    return {"m": m, "model": model, "x": x, "y": y, "cv": cv, "s": s, "mu": mu, "xbar": valuation(c, model)}


def _persp_same(res, cv, xbar):
    return p_and(isinstance(res, lp.PerspConvex),
                 views.same_shape_eq(views.val(res.affine_scale, xbar), views.val(cv.affine_scale, xbar))
                 if isinstance(res, lp.PerspConvex) else False)


# ------------------------------------------------------------------------------------------
# PiecewiseConvex
# ------------------------------------------------------------------------------------------

def _mk_pw(c, npieces=2, minof=False):
    m, x, y, X, model = _new()
    pieces = [_aff(c, m, model, (), [x.first, y.first], f"p{i}") for i in range(npieces)]
    pw = rsome.minof(*pieces) if minof else rsome.maxof(*pieces)
    return {"m": m, "model": model, "x": x, "y": y, "pw": pw, "pieces0": pieces, "xbar": valuation(c, model)}


def _inv_pw(p):
    return p_or(p_eq(p.sign, 1), p_eq(p.sign, -1))


def piecewise_ops():
    F = "rsome.lp:PiecewiseConvex"
    out = []

    def run(fname, setup, call, clauses, label):
        obs, st = check_function(f"{F}.{fname}", setup, call, clauses, mode="D", label=label)
        out.extend(obs)

    den = atoms.den_piecewise

    def wf(ns, res):
        return p_and(isinstance(res, lp.PiecewiseConvex), _inv_pw(res) if isinstance(res, lp.PiecewiseConvex) else False)

    def mean_pw(k, xbar):
        return p_and(*[views.mean_lin(pc, xbar) for pc in k.pieces])

    for minof in (False, True):
        tag = "minof" if minof else "maxof"

        def mk(c, minof=minof):
            ns = _mk_pw(c, 2, minof)
            # an arbitrary tracked state reachable through Inv: sign flipped or not
            return ns

        # constructor: maxof denotes max, minof denotes min
        def doc_pw(ns, minof=minof):
            vals = [views.flat(views.val(p, ns["xbar"]))[0] for p in ns["pieces0"]]
            return -views.smax_list([-v for v in vals]) if minof else views.smax_list(vals)

        run("maxof/minof", mk, lambda ns: ns["pw"],
            [post("inv", wf), post("denote", lambda ns, res: p_eq(den(res, ns["xbar"]), doc_pw(ns)))], tag)
        run("__neg__", mk, lambda ns: -ns["pw"],
            [post("inv", wf), post("denote", lambda ns, res: p_eq(den(res, ns["xbar"]), -den(ns["pw"], ns["xbar"])))], tag)
        for kind in ("real", "affine", "vars"):
            def setup(c, kind=kind, minof=minof):
                ns = _mk_pw(c, 2, minof)
                ns["o"] = (c.fresh_real("r") if kind == "real" else
                           _aff(c, ns["m"], ns["model"], (), [ns["y"].first], "oth") if kind == "affine" else ns["y"])
                return ns
            for opname, f, spec in (
                    ("__add__", lambda ns: ns["pw"] + ns["o"], lambda d, o: d + o),
                    ("__radd__", lambda ns: ns["o"] + ns["pw"], lambda d, o: d + o),
                    ("__sub__", lambda ns: ns["pw"] - ns["o"], lambda d, o: d - o),
                    ("__rsub__", lambda ns: ns["o"] - ns["pw"], lambda d, o: o - d)):
                run(opname, setup, f,
                    [post("inv", wf),
                     post("denote", lambda ns, res, spec=spec: p_eq(
                         den(res, ns["xbar"]), spec(den(ns["pw"], ns["xbar"]), views.flat(views.val(ns["o"], ns["xbar"]))[0])))],
                    f"{tag},other={kind}")
            run("__le__", setup, lambda ns: ns["pw"] <= ns["o"],
                [raises_iff("rejects-concave", lambda ns: p_eq(ns["pw"].sign, -1), (ValueError,)),
                 post("means-what-was-written", lambda ns, res: p_iff(
                     mean_pw(res, ns["xbar"]), p_le(den(ns["pw"], ns["xbar"]), views.flat(views.val(ns["o"], ns["xbar"]))[0])))],
                f"{tag},other={kind}")
            run("__ge__", setup, lambda ns: ns["pw"] >= ns["o"],
                [raises_iff("rejects-convex", lambda ns: p_eq(ns["pw"].sign, 1), (ValueError,)),
                 post("means-what-was-written", lambda ns, res: p_iff(
                     mean_pw(res, ns["xbar"]), p_le(views.flat(views.val(ns["o"], ns["xbar"]))[0], den(ns["pw"], ns["xbar"]))))],
                f"{tag},other={kind}")
            # the piecewise term on the RIGHT: the comparison is dispatched through the other operand's class
            run("__ge__ (reflected: other <= pw)", setup, lambda ns: ns["o"] <= ns["pw"],
                [raises_iff("rejects-convex", lambda ns: p_eq(ns["pw"].sign, 1), (ValueError,)),
                 post("means-what-was-written", lambda ns, res: p_iff(
                     mean_pw(res, ns["xbar"]), p_le(views.flat(views.val(ns["o"], ns["xbar"]))[0], den(ns["pw"], ns["xbar"]))))],
                f"{tag},other={kind}")
            run("__le__ (reflected: other >= pw)", setup, lambda ns: ns["o"] >= ns["pw"],
                [raises_iff("rejects-concave", lambda ns: p_eq(ns["pw"].sign, -1), (ValueError,)),
                 post("means-what-was-written", lambda ns, res: p_iff(
                     mean_pw(res, ns["xbar"]), p_le(den(ns["pw"], ns["xbar"]), views.flat(views.val(ns["o"], ns["xbar"]))[0])))],
                f"{tag},other={kind}")

        if FRONT == "dro":
            # expectations of piecewise terms: E(maxof(...)) <= t is a (worst-case) convex constraint, E(maxof) >= t is not
            for kind in ("real", "affine", "vars"):
                def setup_e(c, kind=kind, minof=minof):
                    ns = _mk_pw(c, 2, minof)
                    ns["o"] = (c.fresh_real("r") if kind == "real" else
                               _aff(c, ns["m"], ns["model"], (), [ns["y"].first], "oth") if kind == "affine" else ns["y"])
                    ns["epw"] = rsome.E(ns["pw"])
                    return ns
                is_epw = lambda ns, res: isinstance(res, lp.ExpPWConstr) and len(res.pieces) == 2      # noqa: E731
                run("E(pw).__le__", setup_e, lambda ns: ns["epw"] <= ns["o"],
                    [raises_iff("rejects-concave", lambda ns: p_eq(ns["pw"].sign, -1), (ValueError,)), post("an-expectation-constraint-with-all-pieces", is_epw)],
                    f"{tag},other={kind}")
                run("E(pw).__ge__", setup_e, lambda ns: ns["epw"] >= ns["o"],
                    [raises_iff("rejects-convex", lambda ns: p_eq(ns["pw"].sign, 1), (ValueError,)), post("an-expectation-constraint-with-all-pieces", is_epw)],
                    f"{tag},other={kind}")
                run("E(pw).__ge__ (reflected: other <= E(pw))", setup_e, lambda ns: ns["o"] <= ns["epw"],
                    [raises_iff("rejects-convex", lambda ns: p_eq(ns["pw"].sign, 1), (ValueError,)), post("an-expectation-constraint-with-all-pieces", is_epw)],
                    f"{tag},other={kind}")
                run("E(pw).__le__ (reflected: other >= E(pw))", setup_e, lambda ns: ns["o"] >= ns["epw"],
                    [raises_iff("rejects-concave", lambda ns: p_eq(ns["pw"].sign, -1), (ValueError,)), post("an-expectation-constraint-with-all-pieces", is_epw)],
                    f"{tag},other={kind}")
                run("E(-pw).__le__", setup_e, lambda ns: -ns["epw"] <= ns["o"],
                    [raises_iff("rejects-concave", lambda ns: p_eq(ns["pw"].sign, 1), (ValueError,)), post("an-expectation-constraint-with-all-pieces", is_epw)],
                    f"{tag},other={kind}")

        # constructor with numeric pieces among the expressions (several constants, nested collections, 0-d arrays)
        for shape_name, wrap in (("flat", lambda ps, ks: ps[:1] + ks[:1] + ps[1:] + ks[1:]), ("nested", lambda ps, ks: [ps[0], [ks[0], [ps[1]]], (ks[1],)]),
                                 ("constants-first", lambda ps, ks: ks + ps)):
            def setup_k(c, minof=minof, wrap=wrap):
                ns = _mk_pw(c, 2, minof)
                ks = [c.fresh_real("k0"), c.fresh_real("k1")]
                args = wrap(list(ns["pieces0"]), ks)
                ns["ks"] = ks
                ns["pwk"] = rsome.minof(*args) if minof else rsome.maxof(*args)
                return ns

            def doc_k(ns, minof=minof):
                vals = [views.flat(views.val(p, ns["xbar"]))[0] for p in ns["pieces0"]] + list(ns["ks"])
                return -views.smax_list([-v for v in vals]) if minof else views.smax_list(vals)
            run("maxof/minof with constants", setup_k, lambda ns: ns["pwk"],
                [post("inv", wf), post("denote", lambda ns, res: p_eq(den(res, ns["xbar"]), doc_k(ns)))], f"{tag},{shape_name}")

        def setup_mul(c, minof=minof):
            ns = _mk_pw(c, 2, minof)
            ns["r"] = c.fresh_real("r")
            return ns
        for opname, f in (("__mul__", lambda ns: ns["pw"] * ns["r"]), ("__rmul__", lambda ns: ns["r"] * ns["pw"])):
            run(opname, setup_mul, f,
                [post("inv", wf),
                 post("denote", lambda ns, res: p_eq(den(res, ns["xbar"]), ns["r"] * den(ns["pw"], ns["xbar"])))], tag)
    return out


# ------------------------------------------------------------------------------------------
# atom constructors and bilinear rejections
# ------------------------------------------------------------------------------------------

def atom_ctors():
    out = []
    for xt in XTYPES:
        def setup(c, xt=xt):
            m, x, y, X = new_ro(mat=xt in "OD")
            return {"m": m, "model": m.rc_model, "x": x, "X": X, "xbar": valuation(c, m.rc_model), "xt": xt}

        def doc_value(ns):
            xt = ns["xt"]
            arg = ns["X"] if xt in "OD" else ns["x"]
            vin = views.val(arg.to_affine(), ns["xbar"])
            params = {"N": 2.5, "G": 3, "T": (np.array(3), np.array(1)), "C": [1, 1]}.get(xt)
            return DOC[xt] * atoms.base(xt, vin if xt != "S" else vin.reshape(-1), params)

        obs, st = check_function(f"rsome.lp:Affine.<atom {xt}>", setup, lambda ns: ATOM[ns["xt"]](ns["x"], ns["X"]),
                                 [post("inv", lambda ns, res: p_and(isinstance(res, lp.Convex), atoms.inv_convex(res))),
                                  post("tracked-curvature-matches-doc", lambda ns, res: res.sign == DOC[ns["xt"]] and res.xtype == ns["xt"]),
                                  post("denotes-documented-function", lambda ns, res: views.all_eq(
                                      atoms.den_convex(res, ns["xbar"]).reshape(-1) if hasattr(atoms.den_convex(res, ns["xbar"]), "reshape") else atoms.den_convex(res, ns["xbar"]),
                                      np.asarray(doc_value(ns), dtype=object).reshape(-1)))],
                                 mode="D", label=f"xtype={xt}")
        out.extend(obs)
    # the same atoms spelled as METHODS of variables, slices and expressions (separate code from the math.py front ends):
    # they must build the very expression the front end builds
    METHOD = {
        "A": lambda v, X: v.abs(), "M": lambda v, X: v.norm(1), "I": lambda v, X: v.norm("inf"), "E": lambda v, X: v.norm(2),
        "S": lambda v, X: v.square(), "Q": lambda v, X: v.sumsqr(), "X": lambda v, X: v.exp(), "L": lambda v, X: v.log(),
        "F": lambda v, X: v.softplus(), "P": lambda v, X: v.entropy(), "N": lambda v, X: v.pnorm(2.5), "G": lambda v, X: v.pnorm(3),
        "T": lambda v, X: v.power(3), "C": lambda v, X: v.gmean(), "O": lambda v, X: X.logdet(), "D": lambda v, X: X.rootdet(),
    }
    for front in ("ro", "dro"):
        for receiver in ("variable", "slice", "expression"):
            for xt in XTYPES:
                def setup(c, xt=xt, front=front, receiver=receiver):
                    global FRONT
                    FRONT = front
                    m, x, y, X, model = _new(mat=xt in "OD")
                    FRONT = "ro"
                    v = x if receiver == "variable" else x[0:2] if receiver == "slice" else 1.0 * x + 0
                    return {"x": x, "X": X, "v": v, "xbar": valuation(c, model), "xt": xt}

                def same_as_front_end(ns, res):
                    ref = ATOM[ns["xt"]](ns["v"], ns["X"])
                    if type(res) is not type(ref) or res.xtype != ref.xtype or res.sign != ref.sign:
                        return False
                    a, b = atoms.den_convex(res, ns["xbar"]), atoms.den_convex(ref, ns["xbar"])
                    return views.all_eq(np.asarray(a, dtype=object).reshape(-1), np.asarray(b, dtype=object).reshape(-1))
                obs, st = check_function(f"rsome.lp:<{receiver}>.<atom method {xt}>", setup, lambda ns: METHOD[ns["xt"]](ns["v"], ns["X"]),
                                         [post("method-builds-the-expression-the-front-end-builds", same_as_front_end)],
                                         mode="D", label=f"{front},{receiver},xtype={xt}", allow_exc=(AttributeError,))
                out.extend(obs)
    return out


def atom_arguments():
    """Argument validation of the atom constructors is part of "raises iff the use is not (dis)ciplined convex": a
    quadratic form with an indefinite matrix, a p-norm of degree <= 1, a power below one, non-integer or non-positive
    weights ... must raise; a negative semidefinite quadratic form is concave and denotes x'Qx.  Concrete (native) cases."""
    from ..engine import check_enumeration

    def run():
        m = ro.Model()
        x = m.dvar(2)
        X2 = m.dvar((2, 2))
        e = 2.0 * x - 1.0
        pts = [np.array([1.0, -2.0]), np.array([0.5, 0.25]), np.array([-3.0, 0.0])]

        def val(cv, xv):
            full = np.zeros(m.rc_model.last)
            full[x.first:x.first + 2] = xv
            return float(np.asarray(atoms.den_convex(cv, full), dtype=float).reshape(-1)[0])
        for Q, sign in ((np.array([[5.0, 5.0], [5.0, 10.0]]), 1), (np.array([[-2.0, 1.0], [1.0, -3.0]]), -1), (np.array([[1.0, 2.0], [2.0, 4.0]]), 1),
                        (np.zeros((2, 2)), 1), (np.array([[2.0, 0.0], [0.0, 0.0]]), 1),
                        # NON-SYMMETRIC matrices: x'Qx is the form of the symmetric part (Q + Q')/2, whose eigenvalues decide
                        (np.array([[2.0, 1.0], [0.0, 1.0]]), 1), (np.array([[2.0, -1.5], [0.5, 3.0]]), 1), (np.array([[-2.0, 0.0], [1.0, -1.0]]), -1)):
            for recv in (x, e, x[::-1]):
                cv = rsome.quad(recv, Q)
                if cv.sign != sign and not (Q == 0).all():
                    return f"quad with eigenvalues of sign {sign}: tracked sign {cv.sign}"
                for xv in pts:
                    arg = xv if recv is x else 2 * xv - 1 if recv is e else xv[::-1]
                    if abs(val(cv, xv) - float(arg @ Q @ arg)) > 1e-7 * (1 + abs(float(arg @ Q @ arg))):
                        return f"quad({Q.tolist()}) at {xv.tolist()}: {val(cv, xv)} vs {float(arg @ Q @ arg)}"
        must_raise = {
            "quad with an indefinite matrix": lambda: rsome.quad(x, np.array([[1.0, 3.0], [3.0, 1.0]])),
            "quad of a 2-D array": lambda: rsome.quad(X2, np.eye(2)),
            "quad with a non-symmetric matrix whose symmetric part is indefinite (upper entry)": lambda: rsome.quad(x, np.array([[1.0, 4.0], [0.0, 1.0]])),
            "quad with a non-symmetric matrix whose symmetric part is indefinite (lower entry)": lambda: rsome.quad(x, np.array([[1.0, 0.0], [4.0, 1.0]])),
            "pnorm degree 1": lambda: rsome.pnorm(x, 1), "pnorm degree 0.5": lambda: rsome.pnorm(x, 0.5), "pnorm degree (2,3)": lambda: rsome.pnorm(x, (2, 3)),
            "pnorm degree (3.0,2)": lambda: rsome.pnorm(x, (3.0, 2)), "pnorm float degree with method soc": lambda: rsome.pnorm(x, 2.5, method="soc"),
            "pnorm unknown method": lambda: rsome.pnorm(x, 3, method="lp"), "pnorm of a 2-D array": lambda: rsome.pnorm(X2, 3),
            "power below one": lambda: rsome.power(x, 1, 2), "power mixed below one": lambda: rsome.power(x, np.array([3, 1]), np.array([1, 2])),
            "power non-integer": lambda: rsome.power(x, 2.5), "gmean non-integer weights": lambda: rsome.gmean(x, [1, 1.5]),
            "gmean zero weight": lambda: rsome.gmean(x, [1, 0]), "gmean wrong number of weights": lambda: rsome.gmean(x, [1, 2, 3]),
            "gmean of a 2-D array": lambda: rsome.gmean(X2), "norm of a 2-D array": lambda: rsome.norm(X2, 2), "norm of degree 0.5": lambda: rsome.norm(x, 0.5),
            "sumsqr of a 2-D array": lambda: X2.to_affine().sumsqr(), "rsocone with a vector y": lambda: rsome.rsocone(x, x, 1.0),
            "expcone with a vector x": lambda: rsome.expcone(x[0], x, 1.0), "expcone with a vector z": lambda: rsome.expcone(x[0], 1.0, x), "kldiv with mismatching sizes": lambda: rsome.kldiv(x, np.array([0.2, 0.3, 0.5]), 0.1),
        }
        for name, f in must_raise.items():
            try:
                r = f()
            except (ValueError, TypeError):
                continue
            return f"{name}: accepted ({type(r).__name__})"
        if type(rsome.power(x, 2, 2)).__name__ != "Convex" or rsome.power(x, 2, 2).xtype != "A":
            return "power(x, 2, 2) is not abs(x)"
        return True
    return check_enumeration("rsome.lp:Affine.<atom constructors>", "arguments-outside-the-convex-discipline-raise-and-semidefinite-quadratic-forms-denote-x'Qx",
                             "quad (8 matrices incl. non-symmetric ones x 3 receivers x 3 points) and 24 invalid calls", run)


def bilinear():
    out = []

    def run(fname, setup, call, exc, label):
        obs, st = check_function(fname, setup, call, [always_raises("rejects-bilinear", exc)], mode="D", label=label)
        out.extend(obs)

    def setup(c):
        m, x, y, X = new_ro()
        z = m.rvar(2)
        w = m.rvar(2)
        ld = m.ldr(2)
        ld.adapt(z)
        a = sym_affine(c, m.rc_model, (2,), [x.first], "a")
        return {"m": m, "x": x, "y": y, "z": z, "w": w, "ld": ld, "a": a}

    E = (TypeError,)
    run("rsome.lp:Affine.__mul__", setup, lambda ns: ns["x"] * ns["x"], E, "dec*dec")
    run("rsome.lp:Affine.__mul__", setup, lambda ns: ns["a"] * ns["x"], E, "affine*dec")
    run("rsome.lp:Affine.__mul__", setup, lambda ns: ns["z"] * ns["w"], E, "rand*rand")
    run("rsome.lp:Affine.__matmul__", setup, lambda ns: ns["x"] @ ns["x"], E, "dec@dec")
    run("rsome.lp:Affine.__matmul__", setup, lambda ns: ns["a"] @ ns["x"], E, "affine@dec")
    run("rsome.lp:Affine.__matmul__", setup, lambda ns: ns["z"] @ ns["w"], E, "rand@rand")
    run("rsome.lp:DecRule.__mul__", setup, lambda ns: ns["ld"] * ns["z"], E, "ldr*rand")
    run("rsome.lp:DecRule.__rmul__", setup, lambda ns: ns["z"] * ns["ld"], E, "rand*ldr")
    run("rsome.lp:DecRule.__matmul__", setup, lambda ns: ns["ld"] @ ns["z"], E, "ldr@rand")
    run("rsome.lp:DecRule.__rmatmul__", setup, lambda ns: ns["z"] @ ns["ld"], E, "rand@ldr")
    run("rsome.lp:DecRuleSub.__mul__", setup, lambda ns: ns["ld"][0] * ns["z"][0], E, "ldr[0]*rand[0]")
    return out


def late_adapt_products():
    """decision * random built while the decision is still STATIC, the decision made affinely adaptive afterwards: the stored product is
    now a decision rule times a random variable.  Wherever it is used -- E() objective, E() constraint, plain constraint, through a
    slice taken before the declaration -- something must raise before a program is compiled (at adapt(), at st() or at do_math())."""
    from ..harness import dro
    out = []
    REJ = (ValueError, TypeError, SyntaxError, AttributeError, RuntimeError, NotImplementedError)

    class Rejected(ValueError):
        pass
    uses = {
        "E-objective": lambda m, e, x, fs: m.minsup(rsome.E(e + x), fs),
        "E-constraint": lambda m, e, x, fs: (m.minsup(rsome.E(x), fs), m.st(rsome.E(e) <= x)),
        "E-constraint-own-set": lambda m, e, x, fs: (m.minsup(rsome.E(x), fs), m.st((rsome.E(e) <= x).forall(fs))),
        "plain-constraint": lambda m, e, x, fs: (m.minsup(rsome.E(x), fs), m.st(e <= x)),
        "E-equality": lambda m, e, x, fs: (m.minsup(rsome.E(x), fs), m.st(rsome.E(e) == x)),
    }
    products = {
        "y*z": lambda y, z: (y * z).sum(), "z*y": lambda y, z: (z * y).sum(), "y@z": lambda y, z: y @ z,
        "y[0]*z[1]": lambda y, z: y[0] * z[1], "(2*y+1)*z": lambda y, z: ((2 * y + 1) * z).sum(),
        "held-slice*z": None,
        # vector-valued products (one row per entry, not summed) in which only a LATER entry's decision becomes adaptive: the test that
        # refuses the product has to look at the right rows of every row's coefficient block
        "vector y*z, only y[1] adapted": (lambda y, z: y * z, lambda y, z: y[1].adapt(z[1])),
        "vector y*z[::-1], only y[1] adapted to z[0]": (lambda y, z: y * z[::-1], lambda y, z: y[1].adapt(z[0])),
        "vector z*y + y, only y[1] adapted to both": (lambda y, z: z * y + y, lambda y, z: y[1].adapt(z)),
    }
    for pn, pf in products.items():
        for un, uf in uses.items():
            for scen in (1, 2):
                def setup(c, pf=pf, scen=scen):
                    m = dro.Model(scen)
                    z = m.rvar(2)
                    y = m.dvar(2)
                    x = m.dvar()
                    if pf is None:
                        held = y[0]                     # slice taken before the declaration: its own flags are stale afterwards
                        y.adapt(z)
                        e = None
                    elif isinstance(pf, tuple):
                        held = None
                        e = pf[0](y, z)
                        pf[1](y, z)
                    else:
                        held = None
                        e = pf(y, z)
                        y.adapt(z)
                    fs = m.ambiguity()
                    fs.suppset(z >= 1, z <= 2)
                    return {"m": m, "e": e, "held": held, "x": x, "y": y, "z": z, "fs": fs}

                def call(ns, uf=uf):
                    try:
                        e = ns["e"] if ns["held"] is None else ns["held"] * ns["z"][1]
                        uf(ns["m"], e, ns["x"], ns["fs"])
                        ns["m"].st(ns["y"] >= ns["z"], ns["x"] >= 0)
                        ns["m"].do_math()
                    except REJ as ex:
                        raise Rejected(f"{type(ex).__name__}: {ex}")
                    return None
                obs, _ = check_function("rsome.dro:Model.dro_to_roc / ro_to_roc", setup, call,
                                        [always_raises("rejects-a-product-whose-decision-became-adaptive-after-it-was-built", (Rejected,))],
                                        mode="D", label=f"{pn},{un},scenarios={scen}", bounded=True)
                out += obs
    return out


def adaptive_atoms():
    """A convex atom of an affinely ADAPTIVE decision (y(z) = y0 + Y z) is not a convex function of the decisions alone:
    every atom must reject it -- at construction or when the constraint is handed to the model -- instead of
    silently compiling the atom of the intercept."""
    from ..harness import dro
    out = []
    REJ = (ValueError, TypeError, SyntaxError, AttributeError, RuntimeError, NotImplementedError)
    atoms_ = {
        "abs": lambda y, x: abs(y) <= 1, "norm1": lambda y, x: rsome.norm(y, 1) <= 1, "norm2": lambda y, x: rsome.norm(y, 2) <= 1,
        "norminf": lambda y, x: rsome.norm(y, "inf") <= 1, "pnorm3": lambda y, x: rsome.pnorm(y, 3) <= 1,
        "square": lambda y, x: rsome.square(y) <= 1, "sumsqr": lambda y, x: rsome.sumsqr(y) <= 1,
        "quad": lambda y, x: rsome.quad(y, np.array([[2.0, 0.5], [0.5, 1.0]])) <= 1, "exp": lambda y, x: rsome.exp(y) <= 3,
        "log": lambda y, x: rsome.log(y + 3) >= -1, "power3": lambda y, x: rsome.power(y, 3) <= 1,
        "softplus": lambda y, x: rsome.softplus(y) <= 2, "entropy": lambda y, x: rsome.entropy(y + 3) >= -9,
        "pexp": lambda y, x: rsome.pexp(y, x + 3) <= 9, "plog": lambda y, x: rsome.plog(y + 3, x + 3) >= -9,
        "pexp-scale": lambda y, x: rsome.pexp(x, y + 3) <= 9, "gmean": lambda y, x: rsome.gmean(y + 3) >= 0.5,
        "expcone": lambda y, x: rsome.expcone(x[0] + 5, y[0], 1.0), "rsocone": lambda y, x: rsome.rsocone(y, x[0] + 3, 1.0),
        "kldiv": lambda y, x: rsome.kldiv(y + 3, np.array([0.5, 0.5]), 0.5),
        "abs-of-sum-with-static": lambda y, x: abs(y + x) <= 1, "abs-of-slice": lambda y, x: abs(y[0]) <= 1,
        "abs-of-reversed-slice": lambda y, x: abs(y[::-1]) <= 1, "norm-of-permuted-slice": lambda y, x: rsome.norm(y[[1, 0]], 2) <= 1,
        "square-of-last-entry-slice": lambda y, x: rsome.square(y[-1:]) <= 1, "exp-of-reversed-slice-plus-static": lambda y, x: rsome.exp(y[::-1] + x) <= 3,
        "abs-of-boolean-mask-slice": lambda y, x: abs(y[np.array([False, True])]) <= 1,
        "maxof-in-plain-constraint": lambda y, x: rsome.maxof(y[0], x[0]) <= 1,
        # the adaptive block hidden behind a static first block of a concatenation / a multi-argument front end
        "sumsqr(static, adaptive)": lambda y, x: rsome.sumsqr(x, y) <= 1,
        "norm(concat(static, adaptive))": lambda y, x: rsome.norm(rsome.concat((x, y)), 2) <= 1,
        "norm(vec(const, adaptive))": lambda y, x: rsome.norm(rsome.vec(0.5, y[0]), 1) <= 1,
        "square(rstack(static, adaptive))": lambda y, x: rsome.square(rsome.rstack(x, y)) <= 1,
        "abs(concat(adaptive, static))": lambda y, x: abs(rsome.concat((y, x))) <= 1,
        # the adaptive decision as the AFFINE part of a convex constraint: a robust convex constraint, not supported
        "abs(static) + adaptive": lambda y, x: abs(x) + y <= 1, "abs(static) <= adaptive": lambda y, x: abs(x) <= y,
        "adaptive >= norm(static)": lambda y, x: y[0] >= rsome.norm(x, 2), "exp(static) - adaptive": lambda y, x: rsome.exp(x) - y <= 0,
        "pexp(static, static) + adaptive": lambda y, x: rsome.pexp(x, x + 3) + y <= 9, "adaptive - log(static)": lambda y, x: y - rsome.log(x + 3) <= 1,
        "sumsqr(static) + adaptive[0]": lambda y, x: rsome.sumsqr(x) + y[0] <= 4, "2*abs(static) - 3*adaptive": lambda y, x: 2 * abs(x) - 3 * y <= 1,
    }
    class Rejected(ValueError):
        pass

    for front in ("dro", "dro-slice-adapted", "ro"):
        for name, f in atoms_.items():
            if front == "ro" and name == "maxof-in-plain-constraint":
                continue                                  # a robust piecewise constraint over a decision rule is supported in ro models
            def setup(c, front=front):
                if front == "ro":
                    m = ro.Model()
                    x = m.dvar(2)
                    y = m.ldr(2)
                    z = m.rvar(2)
                    y.adapt(z)
                else:
                    m = dro.Model(2)
                    x = m.dvar(2)
                    y = m.dvar(2)
                    z = m.rvar(2)
                    if front == "dro":
                        y.adapt(z)
                    else:
                        y[0].adapt(z[1])
                        y[1].adapt(z)
                    fs = m.ambiguity()
                    fs.suppset(z <= 1, z >= -1)
                    m.minsup(rsome.E(x.sum() + y.sum()), fs)
                if front == "ro":
                    m.minmax(x.sum() + y.sum(), z <= 1, z >= -1)
                return {"m": m, "x": x, "y": y, "z": z}

            def call(ns, f=f):
                try:
                    k = f(ns["y"], ns["x"])
                    ns["m"].st(k)
                    ns["m"].do_math()                  # "raises before a program is compiled"
                except REJ as e:                       # re-raised under one name (Python itself rejects e.g. abs(DecRule))
                    raise Rejected(f"{type(e).__name__}: {e}")
                return k
            if name == "maxof-in-plain-constraint":
                continue                                  # maxof pieces affine in z ARE supported (robust piecewise constraint)
            obs, _ = check_function("rsome.lp:<convex atoms of adaptive decisions>", setup, call,
                                    [always_raises("rejects-a-convex-atom-of-an-adaptive-decision", (Rejected,))], mode="D",
                                    label=f"{front},{name}", bounded=True)
            out += obs
    return out


def run_job(job):
    global FRONT
    FRONT = job.get("front", "ro")
    out = _run_job(job)
    if FRONT != "ro":
        for o in out:
            o["label"] = f"front={FRONT}," + (o.get("label") or "")
            o["id"] = o["id"].replace("[", f"[front={FRONT},", 1) if "[" in o["id"] else o["id"] + f"[front={FRONT}]"
    return out


def _run_job(job):
    k = job["kind"]
    if k == "convex":
        return convex_ops(job["xtype"])
    if k == "persp":
        return convex_ops(job["xtype"], "PerspConvex", lambda c, xt: _mk_persp(c, xt), atoms.den_persp, atoms.mean_pcvx, _persp_same)
    if k == "piecewise":
        return piecewise_ops()
    if k == "bilinear":
        return bilinear() + late_adapt_products()
    if k == "adaptive_atoms":
        return adaptive_atoms()
    if k == "atom_arguments":
        return atom_arguments()
    if k == "atoms":
        return atom_ctors()
    raise ValueError(k)
