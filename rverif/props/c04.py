"""C04 -- the DRO reformulation is exact (DESIGN.md 5/C03-C04).

Exactness of the event-wise reformulation is the theorem of Chen, Sim and Xiong (2020, Thm 1) plus strong
LP/conic duality -- mathematics about the moment problem, trusted.  What is decided here is that the CODE
builds exactly the objects that theorem speaks about, nothing tighter:
  (a) the lifted probability/expectation set built by Ambiguity.mix_support is, as a set of (p, mu), exactly
      { p in the probability set,  mu_k in (sum_{s in E_k} p_s) * (expectation set k) }       (z3, both directions);
  (b) its dual standard form is a true dual (C08, mix-* models) and the counterpart of  alpha.p + beta.mu <= 0
      over it is equivalent to the textbook counterpart (same obligation as C02, run here on mixed supports);
  (c) alpha, beta and all multiplier blocks are free continuous columns apart from the dual sign bounds;
  (d) bounded numerical stand-in for the two special cases named in the property (NOT a proof): with singleton
      supports and fixed probabilities the dro optimum equals the sample-average LP; with one scenario and no
      expectation information it equals the ro model -- random seeded instances solved with HiGHS.
"""
from __future__ import annotations

import contextlib
import io
import os
import random

import numpy as np

from ..engine import post, check_function, source_info
from ..harness import lp, ro, dro, rsome, arr, sym_array
from ..spec import dual as D, rc, views
from ..sym import SymReal, p_and, p_eq, p_iff, p_implies, p_le, ctx
from .. import install
from . import c03
from .c06 import witness

META = {
    "level": "other",
    "explanation": ("The lifted set of mix_support is proved equal to the set the theorem uses; the counterpart over it is "
                    "proved equivalent to the textbook counterpart; the multiplier columns are shown unrestricted; the two "
                    "special cases of the property are sampled numerically.  Exactness itself is the cited theorem plus "
                    "strong duality (trusted)."),
    "bounds": "2-3 scenarios, 1-2 random variables, <= 2 events, interval expectation sets, simplex / bounded probability sets; 40 random instances per special case (quick) / 400 (thorough)",
    "trusted_base": ["Chen, Sim, Xiong (2020) Theorem 1 and strong LP/conic duality", "z3", "HiGHS for the numerical stand-in", "C08 for the dual standard form of the lifted set"],
    "assumptions": ["exactness for objectives/constraints that are not affine or maxima of affine pieces in z is outside the property"],
}


def SOURCES():
    return {"rsome.dro:Ambiguity.mix_support": source_info(dro.Ambiguity.mix_support), "rsome.dro:Model.dro_to_roc": source_info(dro.Model.dro_to_roc),
            "rsome.dro:Model.ro_to_roc": source_info(dro.Model.ro_to_roc), "rsome.lp:RoConstr.le_to_rc": source_info(lp.RoConstr.le_to_rc)}


AMB = {
    "plain": dict(),
    "expt-all": dict(expt="all"),
    "expt-per-scenario": dict(expt="per-scenario"),
    "expt-all,prob-ub": dict(expt="all", prob="ub"),
    "prob-ub": dict(prob="ub"),
    # three scenarios, an event made of the first and the last one (mass p0 + p2), by position and by label
    "expt-non-contiguous": dict(expt="non-contiguous", labels=[0, 1, 2]),
    "expt-non-contiguous-by-label": dict(expt="non-contiguous-by-label", labels=[2, 0, 1]),
}


def lifted_set():
    out = []
    for name, variant in AMB.items():
        def setup(c, variant=variant):
            w = c03.build(c, dict(variant, obj="E-affine"))
            return {"w": w}

        def call(ns):
            w = ns["w"]
            m = w.m
            P = w.fs.mix_support(primal=True)
            ns["mix"] = w.fs.mix_model
            Dsup = w.fs.mix_support(primal=False)
            mixm = w.fs.mix_model
            alpha = m.ro_model.dvar(w.S)
            left = alpha @ mixm.vars[0][:w.S]
            if w.events:
                beta = m.ro_model.dvar((w.nz, len(w.events)))
                for j in range(len(w.events)):
                    left = left + mixm.vars[1:][j][:w.nz] @ beta[:, j]
            k = (left <= 0)
            ybase = m.ro_model.rc_model.last
            res = k.le_to_rc(Dsup)
            ns.update(P=P, Dsup=Dsup, k=k, res=res, ybase=ybase)
            return P

        def same_set(ns, P):
            w = ns["w"]
            mix = ns["mix"]
            pvar = mix.vars[0]
            evars = mix.vars[1:1 + len(w.events)]
            nuser = pvar.size + sum(v.size for v in evars)
            nv = P.linear.shape[1]
            X = arr([ctx().fresh_real(f"M{j}_") for j in range(nv)])
            p = [X[pvar.first + s] for s in range(w.S)]
            lifted = [p_le(0, p[s]) for s in range(w.S)] + [p_eq(sum(p, 0.0), 1)]
            if w.pub is not None:
                lifted += [p_le(p[s], w.pub) for s in range(w.S)]
            for k, (members, el, eh) in enumerate(w.events):
                pk = sum((p[s] for s in members), 0.0)
                for j in range(w.nz):
                    mu = X[evars[k].first + j]
                    lifted += [p_le(pk * el, mu), p_le(mu, pk * eh)]
            lifted = p_and(*lifted)
            W = witness(P, nuser, list(X[:nuser]))
            if any(v is None for v in W):
                return False
            return p_and(p_implies(D.feas(P, X), lifted), p_implies(lifted, D.feas(P, W)))

        def counterpart_exact(ns, P):
            """alpha.p + beta.mu <= 0 over the mixed support: compiled rows <=> textbook counterpart"""
            w = ns["w"]
            n = w.m.ro_model.rc_model.last
            X = arr([ctx().fresh_real(f"X{j}_") for j in range(n)])
            k = ns["k"]
            R = np.asarray(views.val(k.raffine, X), dtype=object)
            a = views.flat(views.val(k.affine, X))
            spec = rc.rc_spec(R, a, ns["Dsup"], X, ns["ybase"])
            code = p_and(*[rc.mean_any(kk, X) for kk in ns["res"]])
            return p_iff(code, spec)

        obs, _ = check_function("rsome.dro:Ambiguity.mix_support", setup, call,
                                [post("lifted-set-is-exactly-the-set-of-the-duality-theorem", same_set),
                                 post("counterpart-over-the-lifted-set-equivalent-to-the-textbook-counterpart", counterpart_exact)],
                                mode="D", label=name, bounded=True, max_paths=300, z3_ms=60000)
        out += obs
    return out


def lifted_set_conic():
    """Expectation sets with a second-order-cone constraint: norm(E(z) - mu0, 2) <= r for one scenario's event and for
    the event of all scenarios.  Every point of the mixed support satisfies the perspective form
    || mu_k - p(E_k) mu0 || <= p(E_k) r  on the expectation variables of event k (and the simplex on p)."""
    out = []
    mu0 = np.array([0.5, -0.25])
    for which in ("scenario-0", "all-scenarios", "both"):
        def setup(c, which=which):
            m = dro.Model(2)
            z = m.rvar(2)
            fs = m.ambiguity()
            fs.suppset(z <= 2, z >= -2)
            r = c.fresh_real("r")
            c.assume(r > 0)
            events = []
            if which in ("scenario-0", "both"):
                fs[0].exptset(rsome.norm(rsome.E(z) - mu0, 2) <= r)
                events.append([0])
            if which in ("all-scenarios", "both"):
                fs.exptset(rsome.norm(rsome.E(z) - mu0, 2) <= r)
                events.append([0, 1])
            return {"fs": fs, "r": r, "events": events}

        def call(ns):
            P = ns["fs"].mix_support(primal=True)
            ns["mix"] = ns["fs"].mix_model
            return P

        def sound(ns, P):
            mix = ns["mix"]
            pvar = mix.vars[0]
            evars = mix.vars[1:1 + len(ns["events"])]
            X = arr([ctx().fresh_real(f"M{j}_") for j in range(P.linear.shape[1])])
            p = [X[pvar.first + s] for s in range(2)]
            spec = [p_le(0, p[0]), p_le(0, p[1]), p_eq(p[0] + p[1], 1)]
            for k, members in enumerate(ns["events"]):
                pk = sum((p[s] for s in members), 0.0)
                d = [X[evars[k].first + j] - pk * float(mu0[j]) for j in range(2)]
                spec.append(D.soc_holds([pk * ns["r"]] + d))
            return p_implies(D.feas(P, X), p_and(*spec))
        obs, _ = check_function("rsome.dro:Ambiguity.mix_support", setup, call,
                                [post("conic-expectation-sets: every point of the mixed support satisfies the perspective norm bound of each event", sound)],
                                mode="D", label=f"norm-2 expectation set on {which}", bounded=True, z3_ms=60000)
        out += obs
    return out


def free_multipliers():
    out = []
    for vname in ("static,E-maxof,expt-all", "both,E-maxof,expt-all,prob-ub", "event,E-affine,econstr,expt-per-scenario"):
        variant = c03.VARIANTS[vname]

        def setup(c, variant=variant):
            w = c03.build(c, variant)
            m = w.m
            created = []
            real = m.ro_model.rc_model.dvar

            def rec(shape=(), vtype="C", name=None, aux=False):
                v = real(shape, vtype, name, aux)
                created.append(v)
                return v
            m.ro_model.rc_model.dvar = rec
            try:
                F = m.do_math()
            finally:
                del m.ro_model.rc_model.dvar
            return {"w": w, "F": F, "created": created}

        def free(ns, F):
            w = ns["w"]
            ok = True
            for v in ns["created"]:
                shp = tuple(v.shape)
                if shp == (w.S,) or (len(w.events) and shp == (w.nz, len(w.events))):
                    for j in range(v.first, v.first + v.size):
                        u, l = F.ub[j], F.lb[j]
                        # rule variables carry the user's bounds; alpha/beta are recognised by having none at all
                        pass
            # every column that is not a user decision (rule variable) has only sign bounds 0 / +-inf
            nrule = sum(d.size * len(d.event_adapt) for d in w.m.dec_vars)
            first_rule = w.m.ro_model.rc_model.vars[1].first
            for j in range(F.linear.shape[1]):
                if first_rule <= j < first_rule + nrule:
                    continue
                for b in (F.ub[j], F.lb[j]):
                    if isinstance(b, SymReal):
                        return False
                    fb = float(b)
                    if not (np.isinf(fb) or fb == 0.0):
                        return False
                if str(F.vtype[j]) != "C":
                    return False
            return True
        obs, _ = check_function("rsome.dro:Model.do_math", setup, lambda ns: ns["F"],
                                [post("multiplier-and-auxiliary-columns-carry-only-sign-bounds", free)], mode="D", label=vname, bounded=True, max_paths=300)
        out += obs
    return out


@contextlib.contextmanager
def _quiet():
    with contextlib.redirect_stdout(io.StringIO()):
        yield


def special_cases(n, seed):
    install.uninstall()
    from rsome import dro as ndro, ro as nro
    import rsome as rso
    from scipy.optimize import linprog
    out = []
    rng = random.Random(seed)

    def saa_case(k):
        S = rng.randint(2, 4)
        zhat = np.round(np.array([rng.uniform(-2, 2) for _ in range(S)]), 3)
        phat = np.array([rng.randint(1, 5) for _ in range(S)], dtype=float)
        phat = phat / phat.sum()
        c1, c2 = round(rng.uniform(0.5, 3), 2), round(rng.uniform(0.5, 3), 2)
        # newsvendor-like: min E[ max(c1*(x - z), c2*(z - x)) ], x in [-3, 3]; SAA is an LP
        m = ndro.Model(S)
        x = m.dvar()
        z = m.rvar()
        fs = m.ambiguity()
        for s in range(S):
            fs[s].suppset(z == zhat[s])
        fs.probset(m.p == phat)
        m.minsup(rso.E(rso.maxof(c1 * (x - z), c2 * (z - x))), fs)
        m.st(x <= 3, x >= -3)
        with _quiet():
            m.solve(display=False)
        got = m.get()
        # SAA LP: min sum p_s t_s, t_s >= c1 (x - z_s), t_s >= c2 (z_s - x)
        cvec = np.concatenate(([0.0], phat))
        A, b = [], []
        for s in range(S):
            row = np.zeros(S + 1)
            row[0], row[1 + s] = c1, -1
            A.append(row), b.append(c1 * zhat[s])
            row = np.zeros(S + 1)
            row[0], row[1 + s] = -c2, -1
            A.append(row), b.append(-c2 * zhat[s])
        r = linprog(cvec, A_ub=np.array(A), b_ub=np.array(b), bounds=[(-3, 3)] + [(None, None)] * S)
        return got, r.fun

    def ro_case(k):
        lo, hi = sorted([round(rng.uniform(-2, 0), 2), round(rng.uniform(0.1, 2), 2)])
        a = np.round(np.array([rng.uniform(0.5, 2), rng.uniform(-2, -0.5)]), 2)
        def build(front):
            if front == "dro":
                m = ndro.Model(1)
                x = m.dvar(2)
                z = m.rvar(2)
                fs = m.ambiguity()
                fs.suppset(z >= lo, z <= hi, rso.norm(z, 1) <= 1.5 * hi)
                m.minsup(rso.E((a * x) @ z + x.sum()), fs)
                m.st(x >= z - 2, x <= 4)
            else:
                m = nro.Model()
                x = m.dvar(2)
                z = m.rvar(2)
                S_ = (z >= lo, z <= hi, rso.norm(z, 1) <= 1.5 * hi)
                m.minmax((a * x) @ z + x.sum(), *S_)
                m.st(x >= z - 2, x <= 4)
            with _quiet():
                m.solve(display=False)
            return m.get()
        return build("dro"), build("ro")

    for kind, f in (("singleton supports + fixed probabilities = sample average", saa_case), ("one scenario, no expectation information = ro model", ro_case)):
        def call(ns, f=f):
            return [f(k) for k in range(n)]
        obs, _ = check_function("rsome.dro:<model pipeline>", lambda c: {}, call,
                                [post("optimum-equals-the-reference (sampled)", lambda ns, r: all(abs(a - b) <= 1e-6 * (1 + abs(b)) for a, b in r))],
                                mode="N", label=f"{kind}; {n} seeded instances", bounded=True, replay=None)
        out += obs
    return out


# ------------------------------------------------------------------ end-to-end exactness against vertex enumeration

def _polygon_vertices(G, h):
    """vertices of {m in R^2 : G m <= h} (bounded), by intersecting pairs of constraint lines"""
    V = []
    for i in range(len(h)):
        for j in range(i + 1, len(h)):
            M = np.array([G[i], G[j]], dtype=float)
            if abs(np.linalg.det(M)) < 1e-12:
                continue
            v = np.linalg.solve(M, np.array([h[i], h[j]], dtype=float))
            if (G @ v <= h + 1e-9).all() and not any(np.allclose(v, w) for w in V):
                V.append(v)
    return [tuple(float(t) for t in v) for v in V]


EXACT_CASES = {
    # name: (supports per scenario, global event [el, eh] or None, event on scenario 1 or None, declaration order)
    "supports-only": (((-1.0, 2.0), (0.5, 3.0)), None, None, "g1"),
    "one-global-event": (((-1.0, 2.0), (0.5, 3.0)), (0.25, 1.5), None, "g1"),
    "overlapping-events": (((-1.0, 2.0), (0.5, 3.0)), (0.25, 1.5), (1.0, 2.0), "g1"),
    "overlapping-events-reversed": (((-1.0, 2.0), (0.5, 3.0)), (0.25, 1.5), (1.0, 2.0), "1g"),
    "per-scenario-event-negative": (((-3.0, -0.5), (-1.0, 0.0)), None, (-0.75, -0.25), "g1"),
    # the E-constraint carries its OWN ambiguity set (other supports per scenario, declared through forall): the objective and the
    # plain constraint are judged over the first set, the E-constraint over the vertices of the second set's box of means
    "own-set-on-the-expectation-constraint": (((-1.0, 2.0), (0.5, 3.0)), (0.25, 1.5), None, "g1", ((0.0, 3.0), (2.0, 5.0))),
    "own-set-on-the-expectation-constraint-narrower": (((-1.0, 2.0), (0.5, 3.0)), None, (1.0, 2.0), "g1", ((0.0, 0.5), (1.0, 1.25))),
}


def exact_affine(case, adapt):
    """Fixed scenario probabilities (1/2, 1/2), interval supports, interval expectation events (possibly overlapping),
    objective and one E-constraint affine in z, one constraint without E.  For g affine in z the worst-case expectation
    over the ambiguity set is  max over the conditional means (mu_0, mu_1) in the polygon M cut out by supports and
    events of  sum_s p_s g_s(mu_s): the projection of the compiled program onto (objective, decisions) must be EXACTLY
    the system 'objective / E-constraint at every vertex of M, plain constraint at every end point of each support'.
    Independent of the library's dual of the lifted set."""
    from ..spec import proj
    from ..sym import ctx
    sup, gev, ev1, order = EXACT_CASES[case][:4]
    sup2 = EXACT_CASES[case][4] if len(EXACT_CASES[case]) > 4 else None
    G, h = [], []
    for s in range(2):
        e = [0.0, 0.0]
        e[s] = 1.0
        G += [e, [-v for v in e]]
        h += [sup[s][1], -sup[s][0]]
    if gev:
        G += [[0.5, 0.5], [-0.5, -0.5]]
        h += [gev[1], -gev[0]]
    if ev1:
        G += [[0.0, 1.0], [0.0, -1.0]]
        h += [ev1[1], -ev1[0]]
    V = _polygon_vertices(np.array(G), np.array(h))
    V2 = [(a, b) for a in sup2[0] for b in sup2[1]] if sup2 else V
    cost = np.array([1.5, -2.0])

    def setup(c):
        m = dro.Model(2)
        x = m.dvar(2)
        z = m.rvar()
        fs = m.ambiguity()
        for s in range(2):
            fs[s].suppset(z >= sup[s][0], z <= sup[s][1])
        for tag in order:
            if tag == "g" and gev:
                fs.exptset(rsome.E(z) >= gev[0], rsome.E(z) <= gev[1])
            if tag == "1" and ev1:
                fs[1].exptset(rsome.E(z) >= ev1[0], rsome.E(z) <= ev1[1])
        fs.probset(m.p == 0.5)
        if adapt:
            x.adapt(1)
        m.minsup(rsome.E((x[0] - 0.5 * x[1] + 0.5) * z + cost @ x), fs)
        if sup2:
            gs = m.ambiguity()
            for s in range(2):
                gs[s].suppset(z >= sup2[s][0], z <= sup2[s][1])
            gs.probset(m.p == 0.5)
            m.st((rsome.E(x[1] * z - x[0]) <= 1.0).forall(gs))
        else:
            m.st(rsome.E(x[1] * z - x[0]) <= 1.0)
        m.st(x[0] * z + x[1] <= 4.0)
        m.st(x <= 3, x >= -3)
        F = m.do_math()
        cols = [0]
        for s in (range(2) if adapt else range(1)):
            R = views.dense(m.rule_var()[s].linear)
            cols += [next(j for j in range(R.shape[1]) if R[x.first + i, j] != 0) for i in range(2)]
        return {"F": F, "cols": cols}

    def exact(ns, _):
        c = ctx()
        X = [c.fresh_real(f"X{j}_") for j in range(len(ns["cols"]))]
        t = X[0]
        xs = [(X[1], X[2]), (X[3], X[4]) if adapt else (X[1], X[2])]
        rows = []
        for (a, b) in set(xs):
            rows += [p_le(-3.0, a), p_le(a, 3.0), p_le(-3.0, b), p_le(b, 3.0)]
        for v in V:
            obj = sum((0.5 * ((xs[s][0] - 0.5 * xs[s][1] + 0.5) * v[s] + cost[0] * xs[s][0] + cost[1] * xs[s][1]) for s in range(2)), 0.0)
            rows.append(p_le(obj, t))
        for v in V2:
            rows.append(p_le(sum((0.5 * (xs[s][1] * v[s] - xs[s][0]) for s in range(2)), 0.0), 1.0))
        for s in range(2):
            for end in sup[s]:
                rows.append(p_le(xs[s][0] * end + xs[s][1], 4.0))
        return p_iff(proj.exists_feas(ns["F"], ns["cols"], X), p_and(*rows))

    obs, _ = check_function("rsome.dro:<model pipeline>", setup, lambda ns: None,
                            [post("projection-onto-the-decisions-equals-the-worst-case-over-the-vertices-of-the-mean-polygon", exact)],
                            mode="D", label=f"{case},{'event-wise' if adapt else 'static'} ({len(V)} vertices)", bounded=True, z3_ms=90000)
    return obs


def exact_saa(adapt):
    """Sample-average special case, deductively: singleton supports z = zhat_s, fixed probabilities (1/2, 1/2).  Then the
    ambiguity set contains exactly one distribution and  E[max_i q_i(x, z)] = sum_s p_s max_i q_i(x_s, zhat_s):  the
    projection of the compiled program onto (objective, decisions) must be exactly that piecewise-linear system, for an
    objective E(maxof(...)) and a constraint E(maxof(...)) <= g."""
    from ..spec import proj
    from ..sym import ctx, p_max
    zh = [np.array([1.0, -0.5]), np.array([-2.0, 0.25])]
    cost = np.array([1.5, -2.0])

    def setup(c):
        m = dro.Model(2)
        x = m.dvar(2)
        z = m.rvar(2)
        fs = m.ambiguity()
        for s in range(2):
            fs[s].suppset(z == zh[s])
        fs.probset(m.p == 0.5)
        if adapt:
            x.adapt(1)
        m.minsup(rsome.E(rsome.maxof(cost @ x + x[0] * z[0], 2 * x[1] * z[1] - x[0], 0.5)), fs)
        m.st(rsome.E(rsome.maxof(x[0] * z[1] + x[1], x[1] * z[0] - 1)) <= 2.0)
        m.st(rsome.E(x[0] * z[0] - x[1]) <= 3.0)
        m.st(x <= 3, x >= -3)
        F = m.do_math()
        cols = [0]
        for s in (range(2) if adapt else range(1)):
            R = views.dense(m.rule_var()[s].linear)
            cols += [next(j for j in range(R.shape[1]) if R[x.first + i, j] != 0) for i in range(2)]
        return {"F": F, "cols": cols}

    def exact(ns, _):
        c = ctx()
        X = [c.fresh_real(f"X{j}_") for j in range(len(ns["cols"]))]
        t = X[0]
        xs = [(X[1], X[2]), (X[3], X[4]) if adapt else (X[1], X[2])]
        rows = []
        for (a, b) in set(xs):
            rows += [p_le(-3.0, a), p_le(a, 3.0), p_le(-3.0, b), p_le(b, 3.0)]
        obj = con = lin = 0.0
        for s in range(2):
            x0, x1 = xs[s]
            z0, z1 = float(zh[s][0]), float(zh[s][1])
            obj = obj + 0.5 * p_max(p_max(cost[0] * x0 + cost[1] * x1 + x0 * z0, 2 * x1 * z1 - x0), 0.5)
            con = con + 0.5 * p_max(x0 * z1 + x1, x1 * z0 - 1)
            lin = lin + 0.5 * (x0 * z0 - x1)
        rows += [p_le(obj, t), p_le(con, 2.0), p_le(lin, 3.0)]
        return p_iff(proj.exists_feas(ns["F"], ns["cols"], X), p_and(*rows))

    obs, _ = check_function("rsome.dro:<model pipeline>", setup, lambda ns: None,
                            [post("sample-average-case: projection-equals-the-expectation-of-the-maximum-over-the-two-samples", exact)],
                            mode="D", label=f"SAA with E(maxof) objective and constraint,{'event-wise' if adapt else 'static'}", bounded=True, z3_ms=90000)
    return obs


def jobs(tier):
    seed = int(os.environ.get("VERIF_SEED", "0") or 0)
    return [{"name": "lifted-set", "kind": "lifted"}, {"name": "lifted-set-conic", "kind": "lifted-conic"}, {"name": "free-multipliers", "kind": "free"},
            {"name": "special-cases-sampled", "kind": "special", "n": 40 if tier == "quick" else 400, "seed": seed}] + [
            {"name": f"exact-{c}-{'event' if a else 'static'}", "kind": "exact", "case": c, "adapt": a} for c in EXACT_CASES for a in (False, True)] + [
            {"name": f"exact-saa-{'event' if a else 'static'}", "kind": "saa", "adapt": a} for a in (False, True)]


def run_job(job):
    if job["kind"] == "lifted":
        return lifted_set()
    if job["kind"] == "lifted-conic":
        return lifted_set_conic()
    if job["kind"] == "free":
        return free_multipliers()
    if job["kind"] == "exact":
        return exact_affine(job["case"], job["adapt"])
    if job["kind"] == "saa":
        return exact_saa(job["adapt"])
    return special_cases(job["n"], job["seed"])
