"""Lemmas over the contracts, machine-checked by Lean 4 + Mathlib (DESIGN.md 2.4): /verif/lean/Lemmas.lean.

A property module adds `lemma_job(names)` to its jobs; the job runs `lean` on the file (a few seconds warm, up to a few minutes on a
cold file cache) and returns one obligation per named theorem: discharged iff lean exits 0 without `error`/`sorry` and reports that
the theorem depends on no axiom beyond Lean's three standard ones.  The lemmas do not mention the code: they are the mathematical
links between a function's postcondition and the property statement that used to be 'trusted mathematics'.  When lean is absent or
exceeds the time limit the obligation is 'not-run' (no verdict, the fact stays in the trusted base)."""
from __future__ import annotations

import hashlib
import os
import re
import shutil
import subprocess
import time

from .engine import ob

ROOT = os.path.dirname(os.path.dirname(os.path.abspath(__file__)))
LEAN_FILE = os.path.join(ROOT, "lean", "Lemmas.lean")
STANDARD = {"propext", "Classical.choice", "Quot.sound"}
TIMEOUT_S = int(os.environ.get("RVERIF_LEAN_S", "900"))

STATEMENTS = {
    "weak_duality": "M1 (weak direction): D z <= d, y >= 0, y'D = c'  =>  c'z <= y'd",
    "weak_duality_eq": "M1 with equality rows and free multipliers",
    "soc_pairing": "M3: ||x|| <= t, ||y|| <= s  =>  t s + <x, y> >= 0",
    "expcone_pairing": "M3: c exp(a/c) <= b, r exp(p/r) <= q (c, r > 0)  =>  -r a + q b - (p + r) c >= 0",
    "expcone_pairing_boundary_right": "M3 on the closure: second point on the boundary r = 0, p <= 0, q >= 0",
    "expcone_pairing_boundary_left": "M3 on the closure: first point on the boundary c = 0, a <= 0, b >= 0",
    "rotated_cone_log": "M6: l, u, v > 0:  l^2 <= u v  <=>  2 log l <= log u + log v",
    "dro_safety": "DESIGN 3.1: (E1) pieces dominated on the supports, (E2) at the conditional means  =>  E[g] <= 0 (finite supports)",
    "tower_step_sound": "C07: 2L <= U+V, (D/2)U <= S1, (D/2)V <= S2, D > 0  =>  D L <= S1+S2 (one step of the power-cone tower, log domain)",
    "tower_step_exact": "C07: D L <= S1+S2, D > 0  =>  exists U, V: 2L <= U+V, (D/2)U = S1, (D/2)V = S2",
    "tower_step_exact_direct": "C07: D L <= S1 + (D/2)V, D > 0  =>  exists U: 2L <= U+V, (D/2)U = S1 (one operand is a variable of the cone)",
    "pow_two_even": "C07: 2 <= 2^k  =>  2^k even (the degree handed to a child meets the step's precondition)",
    "tower_sound": "C07: induction over the tree of rotated cones: the emitted cones imply  d x <= sum_i wt_i R_i  (log domain), wt = the halving weights",
    "tower_exact": "C07: induction over the tree: every point with  d x <= sum_i wt_i R_i  extends to the whole tower",
    "cone_form_exp": "M5: exp x <= t  <=>  (x, t, 1) in K_exp",
    "cone_form_log": "M5: x > 0: t <= log x  <=>  (t, x, 1) in K_exp",
    "cone_form_plog": "M5: x, s > 0: t <= s log(x/s)  <=>  (t, x, s) in K_exp",
    "cone_form_entropy": "M5: x > 0: u <= -x log x  <=>  (u, 1, x) in K_exp",
    "cone_form_kl": "M5: p, q > 0: p log(p/q) <= u  <=>  (-u/q, 1, p/q) in K_exp",
    "cone_form_softplus": "M5: log(1 + exp x) <= t  <=>  exists a, b: (x-t, a, 1), (-t, b, 1) in K_exp, a + b <= 1",
    "card_of_range": "A-CARD of engine LV: a finite set of naturals equal to {0..m-1} has m elements",
}


def lemma_job(names):
    return {"name": "lemmas-lean", "kind": "lemmas", "lemmas": list(names)}


def run_lemmas(names):
    t0 = time.time()
    lean = shutil.which("lean")
    src = open(LEAN_FILE).read()
    sha = hashlib.sha1(src.encode()).hexdigest()[:12]
    label = f"lean/Lemmas.lean {sha}"

    def all_as(status, reason, backend="lean4"):
        return [ob(f"lemma:{n}", STATEMENTS.get(n, n), label, status, mode="LEMMA", bounded=False, backend=backend,
                   seconds=round((time.time() - t0) / max(1, len(names)), 3), reason=reason) for n in names]
    if lean is None:
        return all_as("not-run", "lean is not installed: the fact stays in the trusted base", "none")
    try:
        p = subprocess.run([lean, LEAN_FILE], capture_output=True, text=True, timeout=TIMEOUT_S, cwd=os.path.dirname(LEAN_FILE))
    except subprocess.TimeoutExpired:
        return all_as("not-run", f"lean exceeded {TIMEOUT_S} s: the fact stays in the trusted base", "none")
    out = p.stdout + p.stderr
    if re.search(r"\bsorry\b", src) or re.search(r"^\s*axiom\b", src, re.M):
        return all_as("undecided", "the lemma file contains sorry / axiom")
    axioms = {m.group(1): {a.strip() for a in m.group(2).split(",") if a.strip()}
              for m in re.finditer(r"'([\w.]+)' depends on axioms: \[([^\]]*)\]", out)}
    for m in re.finditer(r"'([\w.]+)' does not depend on any axioms", out):
        axioms[m.group(1)] = set()
    res = []
    for n in names:
        errs = [l for l in out.splitlines() if "error" in l]
        if p.returncode != 0 or errs:
            st, why = "undecided", "lean reports errors: " + " | ".join(errs[:3])
        elif n not in axioms:
            st, why = "undecided", "theorem not found in lean's output"
        elif not axioms[n] <= STANDARD:
            st, why = "undecided", f"depends on non-standard axioms {sorted(axioms[n] - STANDARD)}"
        else:
            st, why = "discharged", ""
        res.append(ob(f"lemma:{n}", STATEMENTS.get(n, n), label, st, mode="LEMMA", bounded=False, backend="lean4",
                      seconds=round((time.time() - t0) / max(1, len(names)), 3), reason=why,
                      path=f"axioms: {sorted(axioms.get(n, []))}"))
    return res
