"""Symbolic proxies and the path-complete explorer (engine SE, DESIGN.md 2.1).

The real rsome functions are *executed* on these proxies.  A `SymBool` whose
truth value is requested consults the decision trail of the active path
context; the explorer re-executes the function once per feasible decision
prefix (depth first).  Every path yields its path condition as z3 terms, and
the contract clauses evaluated on the proxies yield z3 terms as well, so a
verification condition is `pre AND path AND axioms => clause`.

Assumptions of the encoding (also listed in every evidence file):
  * Python ints are Z, Python/NumPy floats are R (exact; no rounding, no NaN);
  * float literals denote their exact binary value;
  * `abs(x) ** 0.5` is the non-negative root;
  * exp/log are uninterpreted with the axioms instantiated in `transc_axioms`.
"""
from __future__ import annotations

import itertools
import math
import numbers
import threading
from fractions import Fraction

import numpy as np
import z3

_TL = threading.local()


class Unsupported(Exception):
    """A proxy was asked for something the encoding does not model."""


class PathLimit(Exception):
    pass


def ctx():
    c = getattr(_TL, "ctx", None)
    if c is None:
        raise RuntimeError("no active symbolic context")
    return c


def has_ctx():
    return getattr(_TL, "ctx", None) is not None


# --------------------------------------------------------------------------
# conversion helpers
# --------------------------------------------------------------------------

def _num_to_z3(v):
    if isinstance(v, bool):
        return z3.RealVal(1 if v else 0)
    if isinstance(v, (int, np.integer)):
        return z3.RealVal(int(v))
    if isinstance(v, Fraction):
        return z3.RealVal(str(v))
    if isinstance(v, (float, np.floating)):
        f = float(v)
        if math.isinf(f) or math.isnan(f):
            raise Unsupported(f"non-finite float {f} in real arithmetic")
        return z3.RealVal(str(Fraction(f)))
    raise Unsupported(f"cannot convert {type(v).__name__} to a real term")


def is_concrete_number(v):
    return isinstance(v, (int, float, np.integer, np.floating, Fraction)) and \
        not isinstance(v, bool) or isinstance(v, bool)


def to_z3(v):
    if isinstance(v, SymReal):
        return v.t
    if isinstance(v, SymBool):
        return z3.If(v.t, z3.RealVal(1), z3.RealVal(0))
    if isinstance(v, np.ndarray) and v.shape == ():
        return to_z3(v.item())
    return _num_to_z3(v)


def to_z3_bool(v):
    if isinstance(v, SymBool):
        return v.t
    if isinstance(v, (bool, np.bool_)):
        return z3.BoolVal(bool(v))
    if isinstance(v, z3.BoolRef):
        return v
    raise Unsupported(f"cannot convert {type(v).__name__} to a bool term")


def _simp(t):
    return z3.simplify(t)


def concrete_value(t):
    """Return a python Fraction if the z3 real term is a numeral, else None."""
    t = _simp(t)
    if z3.is_rational_value(t):
        return Fraction(t.numerator_as_long(), t.denominator_as_long())
    if z3.is_int_value(t):
        return Fraction(t.as_long())
    return None


# --------------------------------------------------------------------------
# SymBool
# --------------------------------------------------------------------------

class SymBool:
    __slots__ = ("t",)

    def __init__(self, t):
        self.t = t

    def __bool__(self):
        s = _simp(self.t)
        if z3.is_true(s):
            return True
        if z3.is_false(s):
            return False
        return ctx().decide(s)

    def __and__(self, o):
        return SymBool(z3.And(self.t, to_z3_bool(o)))

    __rand__ = __and__

    def __or__(self, o):
        return SymBool(z3.Or(self.t, to_z3_bool(o)))

    __ror__ = __or__

    def __invert__(self):
        return SymBool(z3.Not(self.t))

    def __eq__(self, o):
        if isinstance(o, (SymBool, bool, np.bool_)):
            return SymBool(self.t == to_z3_bool(o))
        return SymBool(to_z3(self) == to_z3(o))

    def __ne__(self, o):
        return ~(self == o)

    __hash__ = object.__hash__

    def implies(self, o):
        return SymBool(z3.Implies(self.t, to_z3_bool(o)))

    def __repr__(self):
        return f"SymBool({_simp(self.t)})"


def sand(*xs):
    return SymBool(z3.And(*[to_z3_bool(x) for x in xs])) if xs else SymBool(z3.BoolVal(True))


def sor(*xs):
    return SymBool(z3.Or(*[to_z3_bool(x) for x in xs])) if xs else SymBool(z3.BoolVal(False))


def snot(x):
    return SymBool(z3.Not(to_z3_bool(x)))


def simplies(a, b):
    return SymBool(z3.Implies(to_z3_bool(a), to_z3_bool(b)))


def sym_true():
    return SymBool(z3.BoolVal(True))


# --------------------------------------------------------------------------
# SymReal
# --------------------------------------------------------------------------

EXP = z3.Function("EXP", z3.RealSort(), z3.RealSort())
LOG = z3.Function("LOG", z3.RealSort(), z3.RealSort())
SQRT = z3.Function("SQRT", z3.RealSort(), z3.RealSort())


class SymReal:
    """A real number known only as a z3 term.  Registered as numbers.Real."""

    __slots__ = ("t",)

    def __init__(self, t):
        if not isinstance(t, z3.ExprRef):
            t = to_z3(t)
        if t.sort() == z3.IntSort():
            t = z3.ToReal(t)
        self.t = t

    # ---- arithmetic ------------------------------------------------------
    def _bin(self, o, f):
        if not isinstance(o, _SCALARS):
            return NotImplemented
        return SymReal(_simp(f(self.t, to_z3(o))))

    def __add__(self, o):
        return self._bin(o, lambda a, b: a + b)

    __radd__ = __add__

    def __sub__(self, o):
        return self._bin(o, lambda a, b: a - b)

    def __rsub__(self, o):
        return self._bin(o, lambda a, b: b - a)

    def __mul__(self, o):
        if isinstance(o, list):
            raise Unsupported("list repetition by a symbolic count")
        return self._bin(o, lambda a, b: a * b)

    __rmul__ = __mul__

    def __truediv__(self, o):
        return self._bin(o, lambda a, b: a / b)

    def __rtruediv__(self, o):
        return self._bin(o, lambda a, b: b / a)

    def __floordiv__(self, o):
        # Python's // on reals is floor(a / b); z3's ToInt is floor
        return self._bin(o, lambda a, b: z3.ToReal(z3.ToInt(a / b)))

    def __rfloordiv__(self, o):
        return self._bin(o, lambda a, b: z3.ToReal(z3.ToInt(b / a)))

    def __neg__(self):
        return SymReal(_simp(-self.t))

    def __pos__(self):
        return self

    def __abs__(self):
        return SymReal(_simp(z3.If(self.t >= 0, self.t, -self.t)))

    def __pow__(self, e):
        if isinstance(e, SymReal):
            ev = concrete_value(e.t)
            if ev is None:
                raise Unsupported("symbolic exponent")
            e = ev
        if isinstance(e, (int, np.integer)) or (isinstance(e, (float, Fraction, np.floating)) and float(e) == int(e)):
            n = int(e)
            if n < 0:
                return 1 / (self ** (-n))
            out = z3.RealVal(1)
            for _ in range(n):
                out = out * self.t
            return SymReal(_simp(out))
        if float(e) == 0.5:
            return ctx().sqrt(self)
        fr = Fraction(float(e)).limit_denominator(10**6)
        f = z3.Function(f"POW_{fr.numerator}_{fr.denominator}", z3.RealSort(), z3.RealSort())
        return SymReal(f(self.t))

    def __rpow__(self, b):
        raise Unsupported("symbolic exponent")

    # NumPy object-dtype ufuncs call these methods
    def sqrt(self):
        return ctx().sqrt(self)

    def exp(self):
        return ctx().transc(EXP, self)

    def log(self):
        return ctx().transc(LOG, self)

    def conjugate(self):
        return self

    # ---- comparisons -----------------------------------------------------
    def _cmp(self, o, f):
        if not isinstance(o, _SCALARS):
            return NotImplemented
        if isinstance(o, (float, np.floating)) and math.isinf(float(o)):
            # a finite real compared with +-inf
            pos = float(o) > 0
            return SymBool(z3.BoolVal(f(0, 1) if pos else f(1, 0)))
        return SymBool(_simp(f(self.t, to_z3(o))))

    def __lt__(self, o):
        return self._cmp(o, lambda a, b: a < b)

    def __le__(self, o):
        return self._cmp(o, lambda a, b: a <= b)

    def __gt__(self, o):
        return self._cmp(o, lambda a, b: a > b)

    def __ge__(self, o):
        return self._cmp(o, lambda a, b: a >= b)

    def __eq__(self, o):
        if o is None or isinstance(o, str):
            return False
        return self._cmp(o, lambda a, b: a == b)

    def __ne__(self, o):
        if o is None or isinstance(o, str):
            return True
        return self._cmp(o, lambda a, b: a != b)

    __hash__ = object.__hash__

    # ---- refusals --------------------------------------------------------
    def __float__(self):
        v = concrete_value(self.t)
        if v is not None:
            return float(v)
        raise Unsupported("float() of a symbolic real")

    def __int__(self):
        v = concrete_value(self.t)
        if v is not None and v.denominator == 1:
            return int(v)
        raise Unsupported("int() of a symbolic real")

    def __bool__(self):
        return bool(self != 0)

    def __repr__(self):
        return f"SymReal({_simp(self.t)})"

    def item(self):
        return self

    # np.float64-like scalar interface (NumPy unwraps 0-d object results to the
    # bare object, where float arrays would give np.float64)
    shape = ()
    size = 1
    ndim = 0

    def _arr0(self):
        a = np.empty((), dtype=object)
        a[()] = self
        return a

    def reshape(self, *shape):
        if len(shape) == 1:
            shape = shape[0]
        return self._arr0().reshape(shape)

    def flatten(self):
        return self._arr0().reshape((1,))

    ravel = flatten

    @property
    def T(self):
        return self

    @property
    def flat(self):
        return self._arr0().flat

    def sum(self, axis=None):
        return self

    def max(self, axis=None):
        return self

    def min(self, axis=None):
        return self

    def any(self):
        return bool(self != 0)

    def all(self):
        return bool(self != 0)

    def copy(self):
        return self

    def astype(self, t):
        if t in (object, float, np.float64):
            return self
        raise Unsupported(f"astype({t}) of a symbolic real")

    @property
    def real(self):
        return self

    @property
    def imag(self):
        return 0


numbers.Real.register(SymReal)
_SCALARS = (SymReal, SymBool, int, float, np.integer, np.floating, Fraction, bool, np.bool_)


def ite(c, a, b):
    return SymReal(_simp(z3.If(to_z3_bool(c), to_z3(a), to_z3(b))))


def smax(a, b):
    return ite(SymBool(to_z3(a) >= to_z3(b)), a, b)


def smin(a, b):
    return ite(SymBool(to_z3(a) <= to_z3(b)), a, b)


# --------------------------------------------------------------------------
# path context and explorer
# --------------------------------------------------------------------------

class Decision:
    __slots__ = ("value", "alt", "term")

    def __init__(self, value, alt, term):
        self.value = value      # bool taken
        self.alt = alt          # True if the other branch is still to explore
        self.term = term


class PathCtx:
    def __init__(self, trail, pre, timeout_ms=10000, max_decisions=400):
        self.trail = trail
        self.pos = 0
        self.conds = []
        self.axioms = []          # facts about fresh symbols (sqrt, exp, log ...)
        self.fresh = itertools.count()
        self.solver = z3.Solver()
        self.solver.set("timeout", timeout_ms)
        for p in pre:
            self.solver.add(p)
        self.pre = list(pre)
        self.max_decisions = max_decisions
        self.transc_terms = []    # (fn, arg term, result term)
        self.notes = []
        self.unknown_feasibility = 0

    # -- fresh symbols
    def fresh_real(self, base="v"):
        return SymReal(z3.Real(f"{base}!{next(self.fresh)}"))

    def fresh_int(self, base="n"):
        return SymReal(z3.ToReal(z3.Int(f"{base}!{next(self.fresh)}")))

    def fresh_bool(self, base="b"):
        return SymBool(z3.Bool(f"{base}!{next(self.fresh)}"))

    def assume(self, fact):
        t = to_z3_bool(fact)
        self.axioms.append(t)
        self.solver.add(t)

    def sqrt(self, x):
        x = x if isinstance(x, SymReal) else SymReal(x)
        c = concrete_value(x.t)
        if c is not None and c >= 0:
            r = Fraction(math.isqrt(c.numerator), 1) / Fraction(math.isqrt(c.denominator), 1)
            if r * r == c:
                return SymReal(z3.RealVal(str(r)))
        r = SymReal(SQRT(x.t))
        self.assume(SymBool(z3.Implies(x.t >= 0, z3.And(r.t >= 0, r.t * r.t == x.t))))
        return r

    def transc(self, fn, x):
        x = x if isinstance(x, SymReal) else SymReal(x)
        res = SymReal(fn(x.t))
        self.transc_terms.append((fn, x.t, res.t))
        if fn is EXP:
            self.assume(SymBool(res.t > 0))
            self.assume(SymBool(LOG(res.t) == x.t))
        else:
            # LOG: inverse of EXP on positive arguments; log(1/v) = -log(v)
            self.assume(SymBool(z3.Implies(x.t > 0, EXP(res.t) == x.t)))
            for f2, a2, r2 in self.transc_terms[:-1]:
                if f2 is LOG:
                    self.assume(SymBool(z3.Implies(z3.And(a2 > 0, x.t > 0, a2 * x.t == 1),
                                                    res.t + r2 == 0)))
        return res

    # -- decisions
    def decide(self, term):
        if self.pos < len(self.trail):
            d = self.trail[self.pos]
            self.pos += 1
            c = term if d.value else z3.Not(term)
            self.conds.append(c)
            self.solver.add(c)
            return d.value
        if len(self.trail) >= self.max_decisions:
            raise PathLimit(f"more than {self.max_decisions} decisions on one path")
        rt = self.solver.check(term)
        rf = self.solver.check(z3.Not(term))
        if rt == z3.unknown or rf == z3.unknown:
            self.unknown_feasibility += 1
        t_ok = rt != z3.unsat
        f_ok = rf != z3.unsat
        if not t_ok and not f_ok:
            # path condition already infeasible (should have been pruned earlier)
            t_ok = True
        value = True if t_ok else False
        alt = t_ok and f_ok
        self.trail.append(Decision(value, alt, term))
        self.pos += 1
        c = term if value else z3.Not(term)
        self.conds.append(c)
        self.solver.add(c)
        return value


class Path:
    def __init__(self, index, conds, axioms, outcome, value, decisions, notes, unknown_feas, ns=None, transc=()):
        self.index = index
        self.transc = list(transc)
        self.ns = ns
        self.conds = conds
        self.axioms = axioms
        self.outcome = outcome    # 'ret' | 'exc' | 'unsupported'
        self.value = value        # return value, exception, or message
        self.decisions = decisions
        self.notes = notes
        self.unknown_feas = unknown_feas

    def cond_str(self):
        return " & ".join(str(_simp(c)) for c in self.conds) or "true"

    def __repr__(self):
        v = self.value
        if self.outcome == "exc":
            v = f"{type(v).__name__}: {v}"
        return f"<path {self.index} [{self.cond_str()}] {self.outcome} {v!r:.80}>"


def explore(fn, pre=(), max_paths=4096, timeout_ms=10000, max_decisions=400):
    """Run `fn(ctx)` once per feasible decision prefix.  Returns list[Path].

    `fn` builds its own symbolic inputs from ctx.fresh_* (names are
    deterministic, so re-executions see the same symbols), calls the real
    code, and returns whatever the harness wants to judge (usually a dict with
    inputs and result).  Exceptions raised by the real code are outcomes.
    """
    pre = [to_z3_bool(p) for p in pre]
    paths = []
    trail = []
    while True:
        c = PathCtx(trail, pre, timeout_ms, max_decisions)
        prev = getattr(_TL, "ctx", None)
        _TL.ctx = c
        try:
            try:
                value = fn(c)
                outcome = "ret"
            except Unsupported as e:
                outcome, value = "unsupported", e
            except PathLimit as e:
                outcome, value = "unsupported", e
            except Exception as e:        # the real code raised: a path outcome
                outcome, value = "exc", e
        finally:
            _TL.ctx = prev
        paths.append(Path(len(paths), list(c.conds), list(c.axioms), outcome, value,
                          [d.value for d in c.trail[:c.pos]], c.notes, c.unknown_feasibility,
                          ns=getattr(c, "ns", None), transc=c.transc_terms))
        if len(paths) > max_paths:
            raise PathLimit(f"more than {max_paths} paths")
        trail = c.trail[:c.pos]
        while trail and not trail[-1].alt:
            trail.pop()
        if not trail:
            break
        last = trail[-1]
        trail[-1] = Decision(not last.value, False, last.term)
    return paths


class activate:
    """Context manager to evaluate clause lambdas on proxies outside explore()."""

    def __init__(self, c):
        self.c = c

    def __enter__(self):
        self.prev = getattr(_TL, "ctx", None)
        _TL.ctx = self.c
        return self.c

    def __exit__(self, *a):
        _TL.ctx = self.prev


class EvalCtx(PathCtx):
    """Context used while evaluating contract clauses: no forking allowed."""

    def __init__(self, start=10**6, transc=()):
        super().__init__([], [])
        self.fresh = itertools.count(start)
        self.transc_terms = list(transc)

    def decide(self, term):
        raise Unsupported(f"contract clause branches on symbolic condition {term}")


# --------------------------------------------------------------------------
# polymorphic predicates: symbolic on proxies, plain Python (with a float
# tolerance) on concrete numbers -- the same contract text is evaluated on proxies
# to build the VC and on floats to replay a counter-model natively
# --------------------------------------------------------------------------

TOL = 1e-6


def _issym(v):
    return isinstance(v, (SymReal, SymBool))


def _scal(v):
    if isinstance(v, np.ndarray) and v.shape == ():
        return v.item()
    return v


def p_le(p, q):
    p, q = _scal(p), _scal(q)
    if _issym(p) or _issym(q):
        if isinstance(q, (float, np.floating)) and math.isinf(float(q)):
            return float(q) > 0
        if isinstance(p, (float, np.floating)) and math.isinf(float(p)):
            return float(p) < 0
        return SymBool(to_z3(p) <= to_z3(q))
    p, q = float(p), float(q)
    if math.isinf(p) or math.isinf(q):
        return p <= q
    return p <= q + TOL * (1 + abs(p) + abs(q))


def p_lt(p, q):
    return p_not(p_le(q, p))


def p_eq(p, q):
    p, q = _scal(p), _scal(q)
    if _issym(p) or _issym(q):
        for a in (p, q):
            if isinstance(a, (float, np.floating)) and (math.isinf(float(a)) or math.isnan(float(a))):
                return False
        return SymBool(to_z3(p) == to_z3(q))
    p, q = float(p), float(q)
    if math.isinf(p) or math.isinf(q):
        return p == q
    if math.isnan(p) or math.isnan(q):
        return math.isnan(p) and math.isnan(q)
    return abs(p - q) <= TOL * (1 + abs(p) + abs(q))


def p_and(*xs):
    xs = [x for x in xs]
    if any(_issym(x) or isinstance(x, z3.BoolRef) for x in xs):
        return sand(*xs)
    return all(bool(x) for x in xs)


def p_or(*xs):
    if any(_issym(x) or isinstance(x, z3.BoolRef) for x in xs):
        return sor(*xs)
    return any(bool(x) for x in xs)


def p_not(x):
    if _issym(x) or isinstance(x, z3.BoolRef):
        return snot(x)
    return not bool(x)


def p_iff(a, b):
    if _issym(a) or _issym(b):
        return SymBool(to_z3_bool(a) == to_z3_bool(b))
    return bool(a) == bool(b)


def p_implies(a, b):
    if _issym(a) or _issym(b):
        return simplies(a, b)
    return (not bool(a)) or bool(b)


def p_ite(c, a, b):
    if _issym(c) or isinstance(c, z3.BoolRef):
        return ite(c, a, b)
    return a if c else b


def p_max(a, b):
    a, b = _scal(a), _scal(b)
    if _issym(a) or _issym(b):
        return ite(SymBool(to_z3(a) >= to_z3(b)), a, b)
    return a if a >= b else b


def p_abs(v):
    return abs(_scal(v))


def p_sqrt(v):
    v = _scal(v)
    if isinstance(v, SymReal):
        return ctx().sqrt(v)
    return math.sqrt(max(float(v), 0.0))


def p_exp(v):
    v = _scal(v)
    if isinstance(v, SymReal):
        return ctx().transc(EXP, v)
    return math.exp(float(v))


def p_log(v):
    v = _scal(v)
    if isinstance(v, SymReal):
        return ctx().transc(LOG, v)
    v = float(v)
    return math.log(v) if v > 0 else (-math.inf if v == 0 else math.nan)


class ConcreteCtx:
    """Replays a harness natively: every fresh symbol takes its value from a solver model."""

    def __init__(self, model):
        self.model = model or {}
        self.fresh = itertools.count()
        self.failed_assumptions = []
        self.axioms = []
        self.notes = []

    def _get(self, name):
        v = self.model.get(name, 0)
        if isinstance(v, str):
            try:
                v = float(Fraction(v))
            except Exception:
                v = 0.0
        return v

    def fresh_real(self, base="v"):
        return float(self._get(f"{base}!{next(self.fresh)}"))

    def fresh_int(self, base="n"):
        return int(self._get(f"{base}!{next(self.fresh)}"))

    def fresh_bool(self, base="b"):
        return bool(self._get(f"{base}!{next(self.fresh)}"))

    def assume(self, fact):
        if not bool(fact):
            self.failed_assumptions.append(str(fact))

    def sqrt(self, x):
        return math.sqrt(max(float(x), 0.0))

    def transc(self, fn, x):
        return math.exp(float(x)) if fn is EXP else math.log(float(x))

    def decide(self, term):
        raise RuntimeError("symbolic decision during concrete replay")


class SamplingCtx(ConcreteCtx):
    """Native fallback when a path is out of the proxies' reach: fresh symbols take values from a small pool
    (with zeros, signs and repeats so that value-dependent branches such as ub == 0 or lb == ub are hit)."""

    POOL = (-3.0, -2.0, -1.0, -0.5, 0.0, 0.0, 0.5, 1.0, 2.0, 3.0)

    def __init__(self, rng):
        super().__init__({})
        self.rng = rng
        self.chosen = {}

    def _get(self, name):
        v = self.rng.choice(self.POOL)
        self.chosen[name] = v
        return v
