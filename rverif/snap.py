"""Deep, canonical snapshots of object graphs for frame conditions (C09, C17, C19).

`snap(obj)` returns a hashable-ish nested structure that captures every field reachable
from obj (rsome objects via __dict__, lists/tuples/dicts, ndarrays, sparse matrices,
pandas objects), with object identity replaced by first-visit numbering so that two
snapshots of an unchanged graph compare equal and aliasing changes are visible.
`diff(a, b)` lists the paths at which two snapshots differ.
"""
from __future__ import annotations

import numbers

import numpy as np

from .shims.sparse import ShimCSR, issparse
from .sym import SymReal, SymBool


def _scalar(v):
    if isinstance(v, SymReal):
        return ("sym", str(v.t))
    if isinstance(v, SymBool):
        return ("symb", str(v.t))
    if isinstance(v, (np.floating, float)):
        f = float(v)
        return ("f", "nan") if f != f else ("f", f)
    if isinstance(v, (np.integer, int)) and not isinstance(v, bool):
        return ("i", int(v))
    if isinstance(v, (np.bool_, bool)):
        return ("b", bool(v))
    if isinstance(v, (np.str_, str)):
        return ("s", str(v))
    return None


def snap(obj, view=False, _memo=None, _depth=0):
    """view=True ignores representation-only differences that the abstract views do not see:
    trailing all-zero columns of sparse matrices (column padding by resize) and explicit zeros."""
    memo = _memo if _memo is not None else {}
    s = _scalar(obj)
    if s is not None:
        return s
    if obj is None:
        return ("none",)
    oid = id(obj)
    if oid in memo:
        return ("ref", memo[oid])
    memo[oid] = len(memo)
    if _depth > 60:
        return ("deep",)
    if isinstance(obj, np.ndarray):
        if obj.dtype == object:
            return ("arr", obj.shape, tuple(snap(v, view, memo, _depth + 1) for v in obj.flat))
        return ("arr", obj.shape, str(obj.dtype) if not view else "", obj.tobytes() if obj.dtype.kind != "f"
                else tuple(("nan" if x != x else float(x)) for x in obj.astype(float).flat))
    if isinstance(obj, ShimCSR) or issparse(obj):
        dense = np.asarray(obj.toarray(), dtype=object)
        if view:
            n = dense.shape[1]
            while n > 0 and all((not isinstance(v, SymReal)) and v == 0 for v in dense[:, n - 1]):
                n -= 1
            return ("mat", dense.shape[0], n, tuple(snap(v, view, memo, _depth + 1) for v in dense[:, :n].flat))
        if isinstance(obj, ShimCSR):
            stored = obj.S.tobytes()
        else:
            coo = obj.tocoo()
            stored = (tuple(coo.row.tolist()), tuple(coo.col.tolist()))
        return ("mat", dense.shape, stored, tuple(snap(v, view, memo, _depth + 1) for v in dense.flat))
    if isinstance(obj, (list, tuple)):
        return (type(obj).__name__, tuple(snap(v, view, memo, _depth + 1) for v in obj))
    if isinstance(obj, dict):
        return ("dict", tuple((repr(k), snap(v, view, memo, _depth + 1)) for k, v in obj.items()))
    if isinstance(obj, (set, frozenset)):
        return ("set", tuple(sorted(repr(v) for v in obj)))
    if isinstance(obj, range):
        return ("range", obj.start, obj.stop, obj.step)
    try:
        import pandas as pd
        if isinstance(obj, pd.Series):
            return ("series", tuple(repr(i) for i in obj.index), tuple(snap(v, view, memo, _depth + 1) for v in obj.values))
        if isinstance(obj, pd.DataFrame):
            return ("frame", tuple(map(repr, obj.index)), tuple(map(repr, obj.columns)),
                    tuple(snap(v, view, memo, _depth + 1) for v in obj.values.flat))
    except ImportError:
        pass
    d = getattr(obj, "__dict__", None)
    if d is not None and type(obj).__module__.startswith("rsome"):
        return ("obj", type(obj).__name__, tuple((k, snap(v, view, memo, _depth + 1)) for k, v in d.items()))
    if callable(obj) or isinstance(obj, type):
        return ("callable", getattr(obj, "__qualname__", repr(obj)))
    if isinstance(obj, numbers.Number):
        return ("num", repr(obj))
    return ("opaque", type(obj).__name__)


def diff(a, b, path="", out=None, limit=12):
    out = out if out is not None else []
    if len(out) >= limit:
        return out
    if a == b:
        return out
    if isinstance(a, tuple) and isinstance(b, tuple) and len(a) == len(b) and a and a[0] == b[0]:
        tag = a[0]
        if tag == "obj" and a[1] == b[1]:
            da, db = dict(a[2]), dict(b[2])
            for k in list(da) + [k for k in db if k not in da]:
                if k not in da or k not in db:
                    out.append(f"{path}.{k}: field {'added' if k not in da else 'removed'}")
                else:
                    diff(da[k], db[k], f"{path}.{k}", out, limit)
            return out
        if tag in ("list", "tuple") and len(a[1]) == len(b[1]):
            for i, (x, y) in enumerate(zip(a[1], b[1])):
                diff(x, y, f"{path}[{i}]", out, limit)
            return out
        if tag == "dict":
            da, db = dict(a[1]), dict(b[1])
            for k in list(da) + [k for k in db if k not in da]:
                if k not in da or k not in db:
                    out.append(f"{path}[{k}]: key {'added' if k not in da else 'removed'}")
                else:
                    diff(da[k], db[k], f"{path}[{k}]", out, limit)
            return out
    out.append(f"{path or '<root>'}: {str(a)[:120]} -> {str(b)[:120]}")
    return out
