"""Engine LV -- loop-invariant verification conditions generated from the AST of the REAL function (DESIGN.md 2.6).

The source of the function under contract is re-read from /repo on every run (inspect.getsource), parsed, and executed
symbolically statement by statement over z3 terms.  Loops are NOT unrolled: every `for` needs an inductive invariant from the
sidecar contract (keyed by loop ordinal in source order); the generator emits `init`, `preserve` VCs per invariant clause, havocs
what the body modifies, and continues after the loop from the invariant alone -- so a discharged function is proved for lists
and dicts of EVERY length.  Calls to other functions under contract are replaced by the callee's contract (pre checked, post
assumed); every subscript / .index() gets a safety VC (no KeyError / IndexError / ValueError).

Python subset (anything else raises Unsupported = 'not translated', never a verdict): assignments to names, `d[k] = v`,
`x += e`, `for v in <list | dict | range(e)>`, `if/else`, `return`, `.append`, `.index`, `in`, `len`, `str`, `range`, list
displays, `{k: e for k in range(n)}`, int arithmetic and comparisons, calls to functions with an LV contract.

What of Python's semantics the encoding assumes (listed in the evidence): ints are mathematical; a list is (array, length), a
list of lists is (array of arrays, array of lengths, length) and inner lists are never aliased (the generator refuses to store a
non-fresh list into a list); a dict is (value array, domain array) iterated in insertion order, known only for a comprehension
over range(n) (keys 0..n-1); S-INJ: the string str(a)+sep+str(b) (or an f-string / tuple of the same two ints) is an injective
function of (a, b); A-CARD: a dict whose key set is exactly {0..m-1} has len m.
"""
from __future__ import annotations

import ast
import inspect
import itertools
import textwrap
import time

import z3

from . import smt
from .engine import ob


class Unsupported(Exception):
    pass


Key = z3.Datatype("LVKey")
Key.declare("mk", ("a", z3.IntSort()), ("b", z3.IntSort()))
Key = Key.create()
I, B = z3.IntSort(), z3.BoolSort()
_ctr = itertools.count()


def fresh(name, sort):
    return z3.Const(f"{name}!{next(_ctr)}", sort)


class VInt:
    def __init__(self, t): self.t = t if z3.is_expr(t) else z3.IntVal(t)


class VBool:
    def __init__(self, t): self.t = t


class VStr:
    """a string built from str(int) parts and literals; only its skeleton and int parts are kept"""
    def __init__(self, parts): self.parts = parts

    def key(self):
        ints = [p for k, p in self.parts if k == "int"]
        if len(ints) != 2:
            raise Unsupported("string/tuple key with other than two integer parts")
        return VKey(Key.mk(ints[0], ints[1]))


class VKey:
    def __init__(self, t): self.t = t


SORTS = {"int": I, "key": Key}


class VList:
    """kind 'int' | 'key': (arr, n).  kind 'list[int]': (arr: Int -> (Int -> Int), lens, n)."""
    def __init__(self, kind, arr, n, lens=None, fresh_obj=False):
        self.kind, self.arr, self.n, self.lens, self.fresh_obj = kind, arr, n, lens, fresh_obj

    @staticmethod
    def symbolic(kind, name):
        if kind == "list[int]":
            return VList(kind, fresh(name + ".rows", z3.ArraySort(I, z3.ArraySort(I, I))), fresh(name + ".len", I), fresh(name + ".lens", z3.ArraySort(I, I)))
        return VList(kind, fresh(name + ".arr", z3.ArraySort(I, SORTS[kind])), fresh(name + ".len", I))

    def row(self, i):
        return VList("int", z3.Select(self.arr, i), z3.Select(self.lens, i))

    def at(self, i, j=None):
        return z3.Select(self.arr, i) if j is None else z3.Select(z3.Select(self.arr, i), j)


class VDict:
    def __init__(self, vkind, val, dom, order_n=None):
        self.vkind, self.val, self.dom, self.order_n = vkind, val, dom, order_n

    @staticmethod
    def symbolic(vkind, name):
        return VDict(vkind, fresh(name + ".val", z3.ArraySort(I, SORTS[vkind])), fresh(name + ".dom", z3.ArraySort(I, B)))


class VRange:
    def __init__(self, n): self.n = n


class VArr:
    """a 1-D NumPy array of numbers (np.zeros(n) and element assignments): (array, length); entries are integers here (counts)"""
    def __init__(self, arr, n): self.arr, self.n = arr, n


def symbolic(tp, name):
    if tp == "int":
        return VInt(fresh(name, I))
    if tp == "key":
        return VKey(fresh(name, Key))
    if tp == "list[list[int]]":
        return VList.symbolic("list[int]", name)
    if tp in ("list[int]", "list[key]"):
        return VList.symbolic(tp[5:-1], name)
    if tp == "list[obj]":            # a list of opaque objects: only its length is modelled, methods go through abstract_methods
        return VList("obj", None, fresh(name + ".len", I))
    if tp == "array":
        return VArr(fresh(name + ".arr", z3.ArraySort(I, I)), fresh(name + ".len", I))
    if tp.startswith("dict["):
        return VDict.symbolic(tp[5:-1].split(",")[1].strip(), name)
    raise Unsupported(f"type {tp}")


def forall(n, f):
    vs = [z3.Int(f"q{next(_ctr)}") for _ in range(n)]
    body = f(*vs)
    return z3.ForAll(vs, body)


def exists(n, f):
    vs = [z3.Int(f"q{next(_ctr)}") for _ in range(n)]
    return z3.Exists(vs, f(*vs))


class Contract:
    """sidecar contract of one real function.
    params/locals: name -> type string; ghosts(): dict of ghost constants/functions (fresh per verification);
    pre(env, g) / post(env, result, g): lists of (name, z3 bool); invariants: list (by loop ordinal) of f(env, g) -> [(name, bool)];
    call_ghosts: list (by call ordinal) of f(env, g) -> ghost dict for the callee; result: type string."""
    def __init__(self, function, params, result, ghosts, pre, post, invariants=(), locals=None, call_ghosts=(), card_candidates=None,
                 fragment=None, abstract_methods=None):
        # fragment = (name, loop ordinal): verify only the statements from the LAST assignment of `name` before that loop through the
        # loop itself; `params` then declares the free variables of the fragment (everything else of the function is dropped and
        # the evidence says so).  abstract_methods: method name -> f(index term, ghosts) for calls  <list[obj]>[i].<method>(...)
        self.fragment, self.abstract_methods = fragment, dict(abstract_methods or {})
        self.function, self.params, self.result, self.ghosts, self.pre, self.post = function, params, result, ghosts, pre, post
        self.invariants, self.locals, self.call_ghosts = list(invariants), dict(locals or {}), list(call_ghosts)
        self.card_candidates = card_candidates or (lambda g: [])


class _Return(Exception):
    pass


class FE:
    """a contract clause of the shape  forall e. rng(e) => exists b, j. body(e, b, j)  kept structured, so that the generator can
    skolemise it itself: as a hypothesis it is also instantiated at the goal's skolem element with fresh witnesses, as a goal the
    existential is instantiated with candidate witnesses (the hypotheses' witnesses, the integer constants of the path, 0, and the
    lengths stored at them).  The resulting VC is quantifier-free in this clause -- z3's own instantiation of the forall-exists
    alternation proved to be unstable under renaming of the fresh symbols (2 of 6 renamings timed out)."""
    def __init__(self, rng, body):
        self.rng, self.body = rng, body

    def formula(self):
        e, b, j = (z3.Int(f"q{next(_ctr)}") for _ in range(3))
        return z3.ForAll([e], z3.Implies(self.rng(e), z3.Exists([b, j], self.body(e, b, j))))


class Path:
    def __init__(self, env, hyps, fe=()):
        self.env, self.hyps, self.fe = dict(env), list(hyps), list(fe)

    def fork(self):
        return Path(self.env, self.hyps, self.fe)

    def assume(self, t):
        if isinstance(t, FE):
            self.fe.append(t)
            self.hyps.append(t.formula())
        else:
            self.hyps.append(t)


class Verifier:
    def __init__(self, fname, func, contract, registry, z3_ms=20000):
        self.fname, self.func, self.c, self.registry, self.z3_ms = fname, func, contract, registry, z3_ms
        src = textwrap.dedent(inspect.getsource(func))
        self.tree = ast.parse(src).body[0]
        if not isinstance(self.tree, ast.FunctionDef):
            raise Unsupported("not a plain function")
        self.first_line = inspect.getsourcelines(func)[1]
        self.loops = [n for n in ast.walk(self.tree) if isinstance(n, ast.For)]
        self.loops.sort(key=lambda n: (n.lineno, n.col_offset))
        self.calls = []
        self.vcs = []            # (name, hyps, goal, kind)
        self.ncall = 0

    # ---------------------------------------------------------------- VCs
    def vc(self, name, path, goal, kind="post"):
        hyps = list(path.hyps)
        if isinstance(goal, FE):
            e0 = fresh("e", I)
            cands_b, cands_j = [], [z3.IntVal(0)]
            for h in path.fe:
                wb, wj = fresh("wb", I), fresh("wj", I)
                hyps.append(z3.Implies(h.rng(e0), h.body(e0, wb, wj)))
                cands_b.append(wb)
                cands_j.append(wj)
            consts, lens_arrays = {}, {}

            def walk(t, seen=set()):
                if t.get_id() in seen:
                    return
                seen.add(t.get_id())
                if z3.is_const(t) and t.decl().kind() == z3.Z3_OP_UNINTERPRETED:
                    if t.sort() == I:
                        consts[t.get_id()] = t
                    elif t.sort() == z3.ArraySort(I, I):
                        lens_arrays[t.get_id()] = t
                for ch in t.children():
                    walk(ch, seen)
            for h in path.hyps:
                if not z3.is_quantifier(h):
                    walk(h)
            for v in path.env.values():
                if isinstance(v, VInt):
                    walk(v.t)
                elif isinstance(v, VList):
                    walk(v.n)
                    if v.lens is not None:
                        walk(v.lens)
            cands_b += list(consts.values())
            for arr in lens_arrays.values():
                for b in list(cands_b):
                    cands_j.append(z3.Select(arr, b))
            goal = z3.Implies(goal.rng(e0), z3.Or([goal.body(e0, b, j) for b in cands_b for j in cands_j] or [z3.BoolVal(False)]))
        self.vcs.append((name, hyps, goal, kind))

    # ---------------------------------------------------------------- expressions
    def ev(self, e, p):
        m = getattr(self, "e_" + type(e).__name__, None)
        if m is None:
            raise Unsupported(f"expression {type(e).__name__} at line {self.first_line + e.lineno - 1}")
        return m(e, p)

    def e_Name(self, e, p):
        if e.id not in p.env:
            raise Unsupported(f"name {e.id} is not a known local")
        return p.env[e.id]

    def e_Constant(self, e, p):
        if isinstance(e.value, bool):
            return VBool(z3.BoolVal(e.value))
        if isinstance(e.value, int):
            return VInt(e.value)
        if isinstance(e.value, str):
            if any(ch.isdigit() for ch in e.value) or not e.value:
                raise Unsupported("string literal with digits / empty separator (S-INJ would not hold)")
            return VStr([("lit", e.value)])
        raise Unsupported(f"constant {e.value!r}")

    def e_JoinedStr(self, e, p):
        parts = []
        for v in e.values:
            if isinstance(v, ast.Constant):
                parts += self.e_Constant(v, p).parts
            elif isinstance(v, ast.FormattedValue) and v.format_spec is None:
                x = self.ev(v.value, p)
                if not isinstance(x, VInt):
                    raise Unsupported("f-string of a non-int")
                parts.append(("int", x.t))
            else:
                raise Unsupported("f-string part")
        if any(a[0] == "int" and b[0] == "int" for a, b in zip(parts, parts[1:])):
            raise Unsupported("adjacent integers in a string (not injective)")
        return VStr(parts)

    def e_Tuple(self, e, p):
        xs = [self.ev(v, p) for v in e.elts]
        if not all(isinstance(x, VInt) for x in xs):
            raise Unsupported("tuple of non-ints")
        parts = []
        for x in xs:
            parts += [("int", x.t), ("lit", ",")]
        return VStr(parts[:-1])

    def e_BinOp(self, e, p):
        l, r = self.ev(e.left, p), self.ev(e.right, p)
        if isinstance(l, VInt) and isinstance(r, VInt):
            if isinstance(e.op, ast.Add): return VInt(l.t + r.t)
            if isinstance(e.op, ast.Sub): return VInt(l.t - r.t)
            if isinstance(e.op, ast.Mult): return VInt(l.t * r.t)
            raise Unsupported("integer operator")
        if isinstance(l, VStr) and isinstance(r, VStr) and isinstance(e.op, ast.Add):
            parts = l.parts + r.parts
            if any(a[0] == "int" and b[0] == "int" for a, b in zip(parts, parts[1:])):
                raise Unsupported("adjacent integers in a string (not injective)")
            return VStr(parts)
        raise Unsupported("binary operator on these operands")

    def e_Compare(self, e, p):
        if len(e.ops) != 1:
            raise Unsupported("chained comparison")
        op, l, r = e.ops[0], self.ev(e.left, p), self.ev(e.comparators[0], p)
        if isinstance(op, (ast.In, ast.NotIn)):
            if isinstance(r, VDict):
                t = z3.Select(r.dom, self.as_int(l))
            elif isinstance(r, VList) and r.kind in ("int", "key"):
                x = self.as_elem(l, r.kind)
                t = exists(1, lambda i: z3.And(0 <= i, i < r.n, z3.Select(r.arr, i) == x))
            else:
                raise Unsupported("membership in this container")
            return VBool(z3.Not(t) if isinstance(op, ast.NotIn) else t)
        if isinstance(l, VStr): l = l.key()
        if isinstance(r, VStr): r = r.key()
        if isinstance(l, VKey) and isinstance(r, VKey) and isinstance(op, (ast.Eq, ast.NotEq)):
            return VBool(l.t == r.t if isinstance(op, ast.Eq) else l.t != r.t)
        a, b = self.as_int(l), self.as_int(r)
        table = {ast.Eq: a == b, ast.NotEq: a != b, ast.Lt: a < b, ast.LtE: a <= b, ast.Gt: a > b, ast.GtE: a >= b}
        if type(op) not in table:
            raise Unsupported("comparison operator")
        return VBool(table[type(op)])

    def e_UnaryOp(self, e, p):
        x = self.ev(e.operand, p)
        if isinstance(e.op, ast.Not):
            return VBool(z3.Not(self.as_bool(x)))
        if isinstance(e.op, ast.USub) and isinstance(x, VInt):
            return VInt(-x.t)
        raise Unsupported("unary operator")

    def e_BoolOp(self, e, p):
        # evaluation of the operands has no side effects in the subset, but later operands' safety VCs are only
        # required under the earlier operands' truth (short circuit)
        terms, q = [], p.fork()
        for v in e.values:
            t = self.as_bool(self.ev(v, q))
            terms.append(t)
            q.hyps.append(t if isinstance(e.op, ast.And) else z3.Not(t))
        return VBool(z3.And(*terms) if isinstance(e.op, ast.And) else z3.Or(*terms))

    def as_int(self, v):
        if isinstance(v, VInt): return v.t
        raise Unsupported("integer expected")

    def as_bool(self, v):
        if isinstance(v, VBool): return v.t
        if isinstance(v, VInt): return v.t != 0
        if isinstance(v, VList): return v.n > 0
        raise Unsupported("truth value of this object")

    def as_elem(self, v, kind):
        if kind == "int": return self.as_int(v)
        if isinstance(v, VStr): v = v.key()
        if isinstance(v, VKey): return v.t
        raise Unsupported("key expected")

    def e_Subscript(self, e, p):
        c, k = self.ev(e.value, p), self.ev(e.slice, p)
        line = self.first_line + e.lineno - 1
        if isinstance(c, VDict):
            kt = self.as_int(k)
            self.vc(f"safety/no-KeyError@{ast.unparse(e)}", p, z3.Select(c.dom, kt), "safety")
            v = z3.Select(c.val, kt)
            return VInt(v) if c.vkind == "int" else VKey(v)
        if isinstance(c, VArr):
            it = self.as_int(k)
            self.vc(f"safety/no-IndexError@{ast.unparse(e)}", p, z3.And(-c.n <= it, it < c.n), "safety")
            return VInt(z3.Select(c.arr, z3.If(it >= 0, it, c.n + it)))
        if isinstance(c, VList):
            it = self.as_int(k)
            self.vc(f"safety/no-IndexError@{ast.unparse(e)}", p, z3.And(-c.n <= it, it < c.n), "safety")
            idx = z3.If(it >= 0, it, c.n + it)
            if c.kind == "list[int]":
                return c.row(idx)
            v = z3.Select(c.arr, idx)
            return VInt(v) if c.kind == "int" else VKey(v)
        raise Unsupported(f"subscript of this object at line {line}")

    def e_List(self, e, p):
        xs = [self.ev(v, p) for v in e.elts]
        if not xs:
            return VList(None, None, z3.IntVal(0), fresh_obj=True)
        if all(isinstance(x, VInt) for x in xs):
            arr = z3.K(I, z3.IntVal(0))
            for i, x in enumerate(xs):
                arr = z3.Store(arr, i, x.t)
            return VList("int", arr, z3.IntVal(len(xs)), fresh_obj=True)
        raise Unsupported("list display of non-ints")

    def e_Dict(self, e, p):
        if e.keys:
            raise Unsupported("non-empty dict display")
        return VDict(None, None, z3.K(I, z3.BoolVal(False)))

    def e_DictComp(self, e, p):
        g = e.generators[0]
        if len(e.generators) != 1 or g.ifs or not isinstance(g.target, ast.Name) or not (isinstance(e.key, ast.Name) and e.key.id == g.target.id):
            raise Unsupported("dict comprehension other than {v: e for v in range(n)}")
        it = self.ev(g.iter, p)
        if not isinstance(it, VRange):
            raise Unsupported("dict comprehension over a non-range")
        k = fresh(g.target.id, I)
        q = p.fork()
        q.env[g.target.id] = VInt(k)
        q.hyps += [0 <= k, k < it.n]
        n0 = len(self.vcs)
        v = self.ev(e.value, q)          # safety VCs are emitted for the arbitrary element k
        if isinstance(v, VStr): v = v.key()
        vkind = "int" if isinstance(v, VInt) else "key"
        val = z3.Lambda([k], v.t)
        dom = z3.Lambda([k], z3.And(0 <= k, k < it.n))
        return VDict(vkind, val, dom, order_n=it.n)

    def e_Call(self, e, p):
        f = e.func
        if isinstance(f, ast.Name) and f.id == "len" and len(e.args) == 1 and isinstance(e.args[0], ast.Attribute):
            a = e.args[0]
            key = "len:" + ast.unparse(a).split("]", 1)[-1].lstrip(".")
            recv = a
            while isinstance(recv, ast.Attribute):
                recv = recv.value
            if key in self.c.abstract_methods and isinstance(recv, ast.Subscript) and isinstance(recv.value, ast.Name):
                c = self.ev(recv.value, p)
                if isinstance(c, VList) and c.kind == "obj":
                    it = self.as_int(self.ev(recv.slice, p))
                    self.vc(f"safety/no-IndexError@{ast.unparse(recv)}", p, z3.And(-c.n <= it, it < c.n), "safety")
                    return VInt(self.c.abstract_methods[key](z3.If(it >= 0, it, c.n + it), self.g))
        if isinstance(f, ast.Name):
            args = [self.ev(a, p) for a in e.args]
            if e.keywords:
                raise Unsupported("keyword arguments")
            if f.id == "str" and len(args) == 1 and isinstance(args[0], VInt):
                return VStr([("int", args[0].t)])
            if f.id == "len" and len(args) == 1:
                if isinstance(args[0], VArr):
                    return VInt(args[0].n)
                if isinstance(args[0], VList):
                    return VInt(args[0].n)
                if isinstance(args[0], VDict):
                    return VInt(self.card(args[0], p))
            if f.id == "range" and len(args) == 1:
                return VRange(z3.If(self.as_int(args[0]) >= 0, self.as_int(args[0]), 0))
            if f.id in self.registry and f.id in self.func.__globals__ and self.func.__globals__[f.id] is self.registry[f.id][0]:
                return self.apply_contract(f.id, args, p)
            raise Unsupported(f"call of {f.id}")
        if isinstance(f, ast.Attribute) and isinstance(f.value, ast.Name) and f.value.id == "np" and f.attr == "zeros" and len(e.args) == 1 and not e.keywords:
            n = self.as_int(self.ev(e.args[0], p))
            self.vc(f"safety/non-negative-length@{ast.unparse(e)}", p, n >= 0, "safety")
            return VArr(z3.K(I, z3.IntVal(0)), n)
        if isinstance(f, ast.Attribute) and ast.unparse(f).split("]", 1)[-1].lstrip(".") in self.c.abstract_methods:
            key = ast.unparse(f).split("]", 1)[-1].lstrip(".")
            recv = f
            while isinstance(recv, ast.Attribute):
                recv = recv.value
            if isinstance(recv, ast.Subscript) and isinstance(recv.value, ast.Name):
                c = self.ev(recv.value, p)
                if isinstance(c, VList) and c.kind == "obj":
                    it = self.as_int(self.ev(recv.slice, p))
                    self.vc(f"safety/no-IndexError@{ast.unparse(recv)}", p, z3.And(-c.n <= it, it < c.n), "safety")
                    args = [a.value for a in e.args if isinstance(a, ast.Constant)]
                    if len(args) != len(e.args):
                        raise Unsupported("abstract method with a non-constant argument")
                    return VInt(self.c.abstract_methods[key](z3.If(it >= 0, it, c.n + it), self.g, *args))
        if isinstance(f, ast.Attribute) and f.attr == "index" and len(e.args) == 1:
            c = self.ev(f.value, p)
            if not (isinstance(c, VList) and c.kind in ("int", "key")):
                raise Unsupported(".index on this object")
            x = self.as_elem(self.ev(e.args[0], p), c.kind)
            self.vc(f"safety/no-ValueError@{ast.unparse(e)}", p, exists(1, lambda i: z3.And(0 <= i, i < c.n, z3.Select(c.arr, i) == x)), "safety")
            r = fresh("index", I)
            p.hyps += [0 <= r, r < c.n, z3.Select(c.arr, r) == x, forall(1, lambda j: z3.Implies(z3.And(0 <= j, j < r), z3.Select(c.arr, j) != x))]
            return VInt(r)
        raise Unsupported(f"call {ast.unparse(e)}")

    def card(self, d, p):
        L = fresh("len", I)
        p.hyps.append(L >= 0)
        for m in self.c.card_candidates(self.g):
            k = z3.Int(f"q{next(_ctr)}")
            p.hyps.append(z3.Implies(z3.ForAll([k], z3.Select(d.dom, k) == z3.And(0 <= k, k < m)), L == m))   # A-CARD
        return L

    def apply_contract(self, name, args, p):
        func, c = self.registry[name]
        if self.ncall >= len(self.c.call_ghosts):
            raise Unsupported(f"no ghost instantiation for call #{self.ncall} ({name})")
        g = self.c.call_ghosts[self.ncall](p.env, self.g)
        idx = self.ncall
        self.ncall += 1
        if len(args) != len(c.params):
            raise Unsupported("argument count")
        env = dict(zip(c.params, args))
        for cname, t in c.pre(env, g):
            self.vc(f"call{idx}:{name}/pre/{cname}", p, t, "call-pre")
        res = symbolic(c.result, f"{name}.result")
        for cname, t in c.post(env, res, g):
            p.assume(t)
        self.calls.append(name)
        return res

    # ---------------------------------------------------------------- statements
    def modified(self, stmts):
        out = set()
        for s in stmts:
            for n in ast.walk(s):
                if isinstance(n, (ast.Assign, ast.AugAssign, ast.AnnAssign)):
                    tg = n.targets if isinstance(n, ast.Assign) else [n.target]
                    for t in tg:
                        out.add(self.root(t))
                elif isinstance(n, ast.For):
                    out.add(self.root(n.target))
                elif isinstance(n, ast.Call) and isinstance(n.func, ast.Attribute) and n.func.attr not in ("index", "count", "copy", "keys", "values", "items", "get", "zeros") \
                        and n.func.attr not in {k.split(".")[-1] for k in self.c.abstract_methods}:
                    out.add(self.root(n.func.value))
                elif isinstance(n, (ast.Delete,)):
                    raise Unsupported("del")
        return out

    def root(self, t):
        while isinstance(t, (ast.Subscript, ast.Attribute)):
            t = t.value
        if isinstance(t, ast.Name):
            return t.id
        raise Unsupported("assignment target")

    def run_block(self, stmts, paths):
        for s in stmts:
            nxt = []
            for p in paths:
                nxt += self.stmt(s, p)
            paths = nxt
        return paths

    def stmt(self, s, p):
        m = getattr(self, "s_" + type(s).__name__, None)
        if m is None:
            raise Unsupported(f"statement {type(s).__name__} at line {self.first_line + s.lineno - 1}")
        return m(s, p)

    def typed(self, name, v):
        """give an empty display the declared type of the local it is bound to"""
        tp = self.c.locals.get(name) or self.c.params.get(name)
        if isinstance(v, VList) and v.kind is None:
            if tp is None or not tp.startswith("list["):
                raise Unsupported(f"local {name} needs a declared list type")
            kind = "list[int]" if tp == "list[list[int]]" else tp[5:-1]
            w = VList.symbolic(kind, name)
            return VList(kind, w.arr, z3.IntVal(0), w.lens, fresh_obj=True)
        if isinstance(v, VDict) and v.vkind is None:
            if tp is None or not tp.startswith("dict["):
                raise Unsupported(f"local {name} needs a declared dict type")
            w = symbolic(tp, name)
            return VDict(w.vkind, w.val, v.dom)
        return v

    def s_Assign(self, s, p):
        if len(s.targets) != 1:
            raise Unsupported("multiple targets")
        t = s.targets[0]
        v = self.ev(s.value, p)
        if isinstance(t, ast.Name):
            if isinstance(v, VStr): v = v.key()
            if isinstance(v, (VList, VDict, VArr)) and not isinstance(s.value, (ast.List, ast.Dict, ast.DictComp, ast.Call)):
                raise Unsupported("aliasing assignment of a container")
            p.env[t.id] = self.typed(t.id, v)
            return [p]
        if isinstance(t, ast.Subscript) and isinstance(t.value, ast.Name):
            c = self.ev(t.value, p)
            k = self.as_int(self.ev(t.slice, p))
            if isinstance(c, VArr):
                self.vc(f"safety/no-IndexError@{ast.unparse(t)}", p, z3.And(-c.n <= k, k < c.n), "safety")
                p.env[t.value.id] = VArr(z3.Store(c.arr, z3.If(k >= 0, k, c.n + k), self.as_int(v)), c.n)
                return [p]
            if isinstance(c, VDict):
                if c.vkind == "int":
                    val = self.as_int(v)
                else:
                    val = self.as_elem(v, "key")
                p.env[t.value.id] = VDict(c.vkind, z3.Store(c.val, k, val), z3.Store(c.dom, k, z3.BoolVal(True)))
                return [p]
        raise Unsupported(f"assignment target {ast.unparse(t)}")

    def s_AugAssign(self, s, p):
        if not isinstance(s.target, ast.Name):
            raise Unsupported("augmented assignment target")
        cur, v = self.ev(s.target, p), self.ev(s.value, p)
        if isinstance(cur, VInt) and isinstance(v, VInt) and isinstance(s.op, (ast.Add, ast.Sub)):
            p.env[s.target.id] = VInt(cur.t + v.t if isinstance(s.op, ast.Add) else cur.t - v.t)
            return [p]
        raise Unsupported("augmented assignment")

    def s_Expr(self, s, p):
        e = s.value
        if isinstance(e, ast.Constant):
            return [p]
        if isinstance(e, ast.Call) and isinstance(e.func, ast.Attribute) and e.func.attr == "append" and len(e.args) == 1:
            tgt, arg = e.func.value, self.ev(e.args[0], p)
            if isinstance(tgt, ast.Name):
                c = self.ev(tgt, p)
                if not isinstance(c, VList):
                    raise Unsupported("append to a non-list")
                if c.kind == "list[int]":
                    if not (isinstance(arg, VList) and arg.fresh_obj and isinstance(e.args[0], ast.List)):
                        raise Unsupported("appending a list that is not a fresh display (aliasing)")
                    arr0 = arg.arr if arg.kind == "int" else z3.K(I, z3.IntVal(0))
                    p.env[tgt.id] = VList("list[int]", z3.Store(c.arr, c.n, arr0), c.n + 1, z3.Store(c.lens, c.n, arg.n))
                else:
                    p.env[tgt.id] = VList(c.kind, z3.Store(c.arr, c.n, self.as_elem(arg, c.kind)), c.n + 1)
                return [p]
            if isinstance(tgt, ast.Subscript) and isinstance(tgt.value, ast.Name):
                c = self.ev(tgt.value, p)
                if not (isinstance(c, VList) and c.kind == "list[int]"):
                    raise Unsupported("append to an element of this object")
                it = self.as_int(self.ev(tgt.slice, p))
                self.vc(f"safety/no-IndexError@{ast.unparse(tgt)}", p, z3.And(-c.n <= it, it < c.n), "safety")
                i = z3.If(it >= 0, it, c.n + it)
                row, ln = z3.Select(c.arr, i), z3.Select(c.lens, i)
                p.env[tgt.value.id] = VList("list[int]", z3.Store(c.arr, i, z3.Store(row, ln, self.as_int(arg))), c.n, z3.Store(c.lens, i, ln + 1))
                return [p]
        raise Unsupported(f"expression statement {ast.unparse(e)}")

    def s_If(self, s, p):
        c = self.as_bool(self.ev(s.test, p))
        a, b = p, p.fork()
        a.hyps.append(c)
        b.hyps.append(z3.Not(c))
        return self.run_block(s.body, [a]) + self.run_block(s.orelse, [b])

    def s_Return(self, s, p):
        v = self.ev(s.value, p) if s.value is not None else None
        if isinstance(v, VStr): v = v.key()
        for cname, t in self.c.post(self.args, v, self.g):
            self.vc(f"post/{cname}", p, t, "post")
        self.nreturn += 1
        return []

    def s_Pass(self, s, p):
        return [p]

    def s_For(self, s, p):
        k = self.loops.index(s)
        if k >= len(self.c.invariants):
            raise Unsupported(f"loop #{k} (line {self.first_line + s.lineno - 1}) has no invariant")
        if s.orelse or not isinstance(s.target, ast.Name):
            raise Unsupported("for-else / tuple target")
        inv = self.c.invariants[k]
        it = self.ev(s.iter, p)
        mod = self.modified(s.body) | {s.target.id}
        if isinstance(s.iter, ast.Name) and s.iter.id in mod:
            raise Unsupported("the loop modifies what it iterates over")
        if isinstance(it, VDict):
            if it.order_n is None:
                raise Unsupported("iteration over a dict whose insertion order is not known")
            n, elem = it.order_n, (lambda i: VInt(i))
        elif isinstance(it, VRange):
            n, elem = it.n, (lambda i: VInt(i))
        elif isinstance(it, VList) and it.kind == "list[int]":
            n, elem = it.n, (lambda i: it.row(i))
        elif isinstance(it, VList) and it.kind == "int":
            n, elem = it.n, (lambda i: VInt(z3.Select(it.arr, i)))
        elif isinstance(it, VList) and it.kind == "key":
            n, elem = it.n, (lambda i: VKey(z3.Select(it.arr, i)))
        else:
            raise Unsupported("iteration over this object")
        ivar = f"_i{k}"
        # 1. the invariant holds on entry (counter 0)
        p.hyps.append(n >= 0)
        e0 = dict(p.env)
        e0[ivar] = VInt(0)
        for cname, t in inv(e0, self.g):
            self.vc(f"loop{k}/init/{cname}", p, t, "inv-init")
        # 2. havoc what the body modifies, assume the invariant at an arbitrary counter i < n, run the body, re-establish at i+1
        def havoc(q):
            for name in sorted(mod):
                if name == s.target.id:
                    continue
                if name not in q.env:
                    continue        # a local first bound inside the loop
                cur = q.env[name]
                if isinstance(cur, VInt):
                    q.env[name] = VInt(fresh(name, I))
                elif isinstance(cur, VList):
                    q.env[name] = VList.symbolic(cur.kind, name)
                    q.hyps.append(q.env[name].n >= 0)
                elif isinstance(cur, VArr):
                    q.env[name] = VArr(fresh(name + ".arr", z3.ArraySort(I, I)), cur.n)
                elif isinstance(cur, VDict):
                    q.env[name] = VDict.symbolic(cur.vkind, name)
                elif isinstance(cur, VKey):
                    q.env[name] = VKey(fresh(name, Key))
                else:
                    raise Unsupported(f"havoc of {name}")
        body = p.fork()
        havoc(body)
        i = fresh(ivar, I)
        body.env[ivar] = VInt(i)
        body.hyps += [0 <= i, i < n]
        for cname, t in inv(body.env, self.g):
            body.assume(t)
        body.env[s.target.id] = elem(i)
        for q in self.run_block(s.body, [body]):
            q.env[ivar] = VInt(i + 1)
            for cname, t in inv(q.env, self.g):
                self.vc(f"loop{k}/preserve/{cname}", q, t, "inv-preserve")
        # 3. after the loop: only the invariant at counter n is known about what the body modifies
        after = p.fork()
        havoc(after)
        after.env[ivar] = VInt(n)
        for cname, t in inv(after.env, self.g):
            after.assume(t)
        after.env.pop(s.target.id, None)
        return [after]

    # ---------------------------------------------------------------- driver
    def generate(self):
        self.g = self.c.ghosts()
        names = [a.arg for a in self.tree.args.args]
        body = self.tree.body
        self.dropped = 0
        if self.c.fragment:
            var, k = self.c.fragment
            if k >= len(self.loops) or self.loops[k] not in body:
                raise Unsupported("the fragment's loop is not a top-level statement of the function")
            end = body.index(self.loops[k])
            starts = [i for i in range(end) if isinstance(body[i], ast.Assign) and len(body[i].targets) == 1
                      and isinstance(body[i].targets[0], ast.Name) and body[i].targets[0].id == var]
            if not starts:
                raise Unsupported(f"no assignment of {var} before the fragment's loop")
            for st in body[starts[-1] + 1:end]:
                if self.modified([st]) & (set(self.c.params) | {var}):
                    raise Unsupported("a statement between the assignment and the loop writes a variable of the fragment")
            body = [body[starts[-1]], body[end]]
            self.dropped = len(self.tree.body) - 2
            for later in self.tree.body[end + 1:]:
                if var in self.modified([later]):
                    raise Unsupported(f"{var} is written again after the fragment")
            names = list(self.c.params)
        elif names != list(self.c.params) or self.tree.args.vararg or self.tree.args.kwarg or self.tree.args.kwonlyargs:
            raise Unsupported(f"signature {names} differs from the contract's {list(self.c.params)}")
        self.args = {n: symbolic(t, n) for n, t in self.c.params.items()}
        p = Path(self.args, [])
        for v in self.args.values():
            if isinstance(v, VList):
                p.hyps.append(v.n >= 0)
                if v.kind == "list[int]":
                    p.hyps.append(forall(1, lambda b: z3.Select(v.lens, b) >= 0))
        for cname, t in self.c.pre(self.args, self.g):
            p.assume(t)
        self.pre_hyps = list(p.hyps)
        self.nreturn = 0
        mutated = self.modified(body) & set(names)
        rest = self.run_block(body, [p])
        for q in rest:          # falling off the end returns None (fragment: the state after the loop is what the contract talks about)
            for cname, t in self.c.post(q.env if self.c.fragment else self.args, None, self.g):
                self.vc(f"post/{cname}", q, t, "post")
        self.frame_ok = not mutated
        self.mutated = mutated
        return self.vcs


def verify_function(qualname, func, contract, registry, native_search=None, z3_ms=10000):
    """All VCs of one real function.  Returns obligations.  `native_search()` looks for a concrete failing input on the real
    code when a VC has a counter-model (a counter-model of an invariant VC need not be reachable)."""
    obs = []
    t0 = time.time()
    try:
        v = Verifier(qualname, func, contract, registry, z3_ms)
        try:
            vcs = v.generate()
        except (KeyError, AttributeError, TypeError, z3.Z3Exception) as e:
            # the sidecar contract names locals / shapes the rewritten code no longer has: the contract does not fit, no verdict
            raise Unsupported(f"the sidecar contract does not fit the code ({type(e).__name__}: {e})")
    except Unsupported as e:
        return [ob(qualname, "lv-translation", "", "not-translated", mode="LV", bounded=False, backend="none",
                   reason=f"outside the LV subset: {e} -- the bounded enumeration of the same function stands in", seconds=0.0)]
    # vacuity: the precondition must be satisfiable
    s = z3.Solver()
    s.set("timeout", 10000)
    for h in v.pre_hyps:
        s.add(h)
    r = s.check()
    if r == z3.unsat:
        return [ob(qualname, "lv-precondition-satisfiable", "", "undecided", mode="LV", reason="contradictory precondition (vacuous contract)")]
    obs.append(ob(qualname, "frame/parameters-not-mutated", "LV", "discharged" if v.frame_ok else "violated", mode="LV", bounded=False,
                  backend="ast-frame", seconds=0.0, reason="" if v.frame_ok else f"the function writes through its parameter(s) {sorted(v.mutated)}"))
    if v.nreturn == 0 and contract.result is not None:
        obs.append(ob(qualname, "post/returns-a-value", "LV", "violated", mode="LV", backend="ast", reason="no return statement reached"))
    failed = []
    for name, hyps, goal, kind in vcs:
        ver = smt.check_valid(hyps, goal, z3_ms=z3_ms, use_cvc5=False)
        st = {"unsat": "discharged", "sat": "violated", "unknown": "undecided"}[ver.status]
        o = ob(qualname, name, "LV all sizes", st, mode="LV", bounded=False, backend=ver.backend, seconds=round(ver.seconds, 3),
               path=f"{kind}; {len(hyps)} hypotheses", reason="" if st == "discharged" else (ver.reason or "counter-model of the VC"))
        if st == "violated":
            failed.append(o)
        obs.append(o)
    if any(o["status"] in ("violated", "undecided") for o in obs):
        # a counter-model of an invariant VC need not be a reachable state, and a timeout is no verdict: look for a concrete
        # failing input on the real code; only that makes a violation
        case = None
        if native_search is not None:
            try:
                case = native_search()
            except Exception as e:       # noqa: the real code raised on a legal input: that is a failing input
                case = f"raised {type(e).__name__}: {e}"
        for o in obs:
            if o["status"] not in ("violated", "undecided"):
                continue
            if case not in (None, True):
                o["status"] = "violated"
                o["replayed"] = {"confirmed": True, "inputs": {"failing case": str(case)}, "native_outcome": "the real function violates the specification on this input"}
                o["reason"] += f" | native search: {case}"
            else:
                o["status"] = "undecided"
                o["reason"] += " | no failing input up to the native search bound: the invariant may just not fit the rewritten code"
    return obs
