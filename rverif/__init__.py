"""rverif: contract-based verification machinery for rsome (see /verif/DESIGN.md)."""
