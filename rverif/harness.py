"""Shared harness helpers: build real rsome objects whose numeric entries are symbolic."""
from __future__ import annotations

import numpy as np

from . import install

install.install()

import rsome                      # noqa: E402  (from /repo, after the shims are in place)
from rsome import lp, ro, dro, socp, gcp, subroutines      # noqa: E402
import rsome.math as rmath        # noqa: E402


def new_ro(nx=2, ny=1, mat=False):
    m = ro.Model()
    x = m.dvar(nx)
    y = m.dvar() if ny == 1 else m.dvar(ny)
    X = m.dvar((2, 2)) if mat else None
    return m, x, y, X


def arr(vals):
    """1-D array of the given scalars: float dtype when all are concrete, else object."""
    vals = list(vals)
    if any(not isinstance(v, (float, int, np.floating, np.integer)) for v in vals):
        out = np.empty(len(vals), dtype=object)
        for i, v in enumerate(vals):
            out[i] = v
        return out
    return np.array(vals, dtype=float)


def sym_array(c, shape, name):
    size = int(np.prod(shape))
    return arr([c.fresh_real(f"{name}{i}") for i in range(size)]).reshape(shape)


def sym_affine(c, model, shape, cols, name, const=True, nz=False):
    """An Affine over `model` with a fresh coefficient on every (element, column in cols) and a
    fresh constant per element; built directly from its fields, not through rsome operators."""
    size = int(np.prod(shape))
    ncol = model.last
    data, rows, cs = [], [], []
    for i in range(size):
        for j in cols:
            v = c.fresh_real(f"{name}_a{i}_{j}_")
            if nz:
                c.assume(v != 0)
            data.append(v)
            rows.append(i)
            cs.append(j)
    d = arr(data)
    linear = lp.csr_matrix((d, (rows, cs)), shape=(size, ncol))
    if const:
        k = sym_array(c, shape, f"{name}_c")
    else:
        k = np.zeros(shape)
    return lp.Affine(model, linear, k)


def valuation(c, model, name="x"):
    n = model.last
    return arr([c.fresh_real(f"{name}{i}_") for i in range(n)])


def snapshot_affine(a):
    """Frame snapshot of an affine expression's abstract view (dense rows, constants)."""
    from .spec import views
    return (views.dense(a.linear).copy(), np.array(a.const, dtype=object).copy(), tuple(a.shape))
