"""Import rsome from /repo's working tree and rebind its dependency names to the shims.

Nothing in /repo is edited: the rebinding happens in this process only
(`rsome.lp.np = NpShim` etc.).  `native()` gives a context in which the original
names are restored, used for native replay inside the same process when needed.
"""
from __future__ import annotations

import contextlib
import importlib
import os
import sys

REPO = os.environ.get("RVERIF_REPO", "/repo")
MODS = ["rsome.subroutines", "rsome.lp", "rsome.socp", "rsome.gcp", "rsome.ro", "rsome.dro", "rsome.math",
        "rsome.eco_solver", "rsome.ort_solver"]
OPTIONAL = ["rsome.grb_solver"]
NAMES = ("np", "sp", "csr_matrix", "coo_matrix", "lil_matrix")

_saved = {}
_installed = False


def import_rsome():
    if REPO not in sys.path:
        sys.path.insert(0, REPO)
    mods = {}
    for m in MODS:
        mods[m] = importlib.import_module(m)
    for m in OPTIONAL:                      # interfaces whose solver package may be absent
        try:
            mods[m] = importlib.import_module(m)
        except Exception:
            pass
    f = mods["rsome.lp"].__file__
    if not os.path.realpath(f).startswith(os.path.realpath(REPO) + os.sep):
        raise RuntimeError(f"rsome imported from {f}, not from {REPO}")
    return mods


def install():
    global _installed
    from .shims.np_shim import NP
    from .shims import sparse
    mods = import_rsome()
    sp = sparse.SpShim()
    repl = {"np": NP, "sp": sp, "csr_matrix": sparse.csr_matrix,
            "coo_matrix": sparse.coo_matrix, "lil_matrix": sparse.lil_matrix}
    for name, mod in mods.items():
        for n in NAMES:
            if n in mod.__dict__:
                _saved.setdefault((name, n), mod.__dict__[n])
                setattr(mod, n, repl[n])
    _installed = True
    return mods


def uninstall():
    global _installed
    mods = import_rsome()
    for (name, n), v in _saved.items():
        setattr(mods[name], n, v)
    _installed = False


@contextlib.contextmanager
def native():
    was = _installed
    if was:
        uninstall()
    try:
        yield
    finally:
        if was:
            install()
