"""Run the jobs of one property (in worker processes), aggregate, report, write evidence."""
from __future__ import annotations

import concurrent.futures as cf
import importlib
import json
import multiprocessing as mp
import os
import sys
import time
import traceback

ROOT = os.path.dirname(os.path.dirname(os.path.abspath(__file__)))
# RVERIF_OUT: where a self-test run against a scratch copy (RVERIF_REPO) writes, so that it never replaces the evidence of /repo
_OUT = os.environ.get("RVERIF_OUT") or ROOT
EVIDENCE_DIR = os.path.join(_OUT, "evidence")
REPLAY_DIR = os.path.join(_OUT, "replays")
KNOWN = os.path.join(ROOT, "known_findings.json")

STANDING_ASSUMPTIONS = [
    "A-FLOAT: all arithmetic is exact real arithmetic (IEEE rounding, overflow and NaN are out of scope)",
    "A-PY: CPython executes control flow, attribute lookup, exceptions and containers natively; only numeric scalars are symbolic",
    "A-NUMPY/A-SCIPY: NumPy runs natively on object arrays; scipy.sparse is replaced by rverif.shims.sparse.ShimCSR (conformance-tested, not proved)",
    "A-SQRT: abs(x)**0.5 is the non-negative real root; exp/log are uninterpreted with exp>0, log(exp a)=a, exp(log v)=v for v>0, log(1/v)=-log v",
]


def _worker(prop, job):
    """Executed in a fresh process: import the property module and run one job."""
    t0 = time.time()
    try:
        sys.setrecursionlimit(10000)
        cov = os.environ.get("RVERIF_FUNCOV")
        seen = set()
        if cov:
            # which functions of the code under contract does this job execute at all?  (a map of blind spots, not a verdict)
            from .install import REPO
            root = os.path.realpath(REPO) + os.sep

            def prof(frame, event, arg):
                if event == "call":
                    co = frame.f_code
                    fn = co.co_filename
                    if fn.startswith(root) or os.path.realpath(fn).startswith(root):
                        seen.add((os.path.basename(fn), co.co_name, co.co_firstlineno))
            sys.setprofile(prof)
        lcov = None
        if os.environ.get("RVERIF_LINECOV"):
            # line/branch map of what the job executes in the code under contract (coverage.py, if present; a development aid)
            import coverage
            from .install import REPO
            lcov = coverage.Coverage(data_file=os.path.join(os.environ["RVERIF_LINECOV"], ".coverage"), data_suffix=True, branch=True,
                                     include=[os.path.join(os.path.realpath(REPO), "rsome", "*")])
            lcov.start()
        mod = importlib.import_module(f"rverif.props.{prop.lower()}")
        if job.get("kind") == "lemmas":
            from .lemmas import run_lemmas
            obs = run_lemmas(job["lemmas"])
        else:
            obs = mod.run_job(job)
        if lcov is not None:
            lcov.stop()
            lcov.save()
        if cov:
            sys.setprofile(None)
            with open(cov, "a") as f:
                for rec in sorted(seen):
                    f.write(json.dumps([prop] + list(rec)) + "\n")
        return {"job": job, "obligations": obs, "error": None, "seconds": time.time() - t0}
    except BaseException as e:      # noqa: a crashing job is a checker defect (exit 3)
        return {"job": job, "obligations": [], "error": f"{type(e).__name__}: {e}\n{traceback.format_exc()}",
                "seconds": time.time() - t0}


def load_known():
    if not os.path.exists(KNOWN):
        return []
    with open(KNOWN) as f:
        return json.load(f).get("findings", [])


def match_known(prop, o, known):
    for k in known:
        if k.get("status", "open") != "open" or k["property"] != prop:
            continue
        m = k["match"]
        if m.get("function") and m["function"] != o["function"]:
            continue
        if m.get("clause") and m["clause"] != o["clause"]:
            continue
        if m.get("label_contains") and not all(s in o.get("label", "") for s in m["label_contains"]):
            continue
        if m.get("path_contains") and not all(s in (o.get("path") or "") for s in m["path_contains"]):
            continue
        if m.get("reason_contains") and not all(s in (o.get("reason") or "") for s in m["reason_contains"]):
            continue
        return k
    return None


_JOB_SECONDS = {}


def run_property(prop, tier="quick", seed=0, workers=None, only=None):
    t0 = time.time()
    mod = importlib.import_module(f"rverif.props.{prop.lower()}")
    jobs = mod.jobs(tier)
    if getattr(mod, "LEMMAS", None):
        # the mathematical links between the contracts and the property statement, machine-checked by Lean (rverif/lemmas.py)
        from .lemmas import lemma_job
        jobs = list(jobs) + [lemma_job(mod.LEMMAS)]
    if only:
        jobs = [j for j in jobs if only in json.dumps(j)]
    workers = workers or min(16, max(1, len(jobs)))
    results = []
    if workers == 1 or len(jobs) == 1 or os.environ.get("RVERIF_SERIAL"):
        for j in jobs:
            results.append(_worker(prop, j))
    else:
        ctx = mp.get_context("spawn")
        with cf.ProcessPoolExecutor(max_workers=workers, mp_context=ctx) as ex:
            futs = [ex.submit(_worker, prop, j) for j in jobs]
            for f in futs:
                results.append(f.result())
    obligations = []
    errors = []
    global _JOB_SECONDS
    _JOB_SECONDS = {r["job"].get("name", str(r["job"])): round(r.get("seconds", 0.0), 2) for r in results}
    for r in results:
        for o in r["obligations"]:
            o["job"] = r["job"].get("name", str(r["job"]))
            obligations.append(o)
        if r["error"]:
            errors.append((r["job"], r["error"]))
    return finish(prop, mod, tier, seed, obligations, errors, jobs, t0, partial=bool(only))


def finish(prop, mod, tier, seed, obligations, errors, jobs, t0, partial=False):
    known = load_known()
    os.makedirs(EVIDENCE_DIR, exist_ok=True)
    viol, known_hits, undecided = [], [], []
    for o in obligations:
        if o["status"] == "violated":
            k = match_known(prop, o, known)
            if k:
                o["known_finding"] = k["id"]
                known_hits.append((k, o))
            else:
                viol.append(o)
        elif o["status"] == "undecided":
            undecided.append(o)
    printed = set()
    for k, o in known_hits:
        if k["id"] not in printed:
            print(f"KNOWN-FINDING: property={prop} {k['id']}: {k['what']}")
            printed.add(k["id"])
    lines = []
    import glob
    for old_file in glob.glob(os.path.join(REPLAY_DIR, prop, "*.json")):        # replays of earlier runs are stale
        os.remove(old_file)
    if viol:
        os.makedirs(os.path.join(REPLAY_DIR, prop), exist_ok=True)
    for i, o in enumerate(viol):
        path = os.path.join(REPLAY_DIR, prop, f"{i:03d}_{_safe(o['id'])}.json")
        with open(path, "w") as f:
            json.dump({"property": prop, "obligation": o["id"], "function": o["function"], "clause": o["clause"],
                       "job": o.get("job"), "label": o.get("label"), "path_condition": o.get("path"),
                       "solver_model": o.get("model"), "native_replay": o.get("replayed"),
                       "reason": o.get("reason"), "trace": o.get("trace"),
                       "backend": o.get("backend")}, f, indent=1, default=str)
        rep = o.get("replayed") or {}
        suffix = "" if rep.get("confirmed") else " no-failing-input-found"
        lines.append(f"VIOLATION property={prop} replay={path}{suffix}")
    discharged = [o for o in obligations if o["status"] == "discharged"]
    unb = [o for o in obligations if not o.get("bounded")]
    bnd = [o for o in obligations if o.get("bounded")]
    meta = mod.META
    wall = time.time() - t0
    functions = sorted({o["function"] for o in obligations})
    solver_s = sum(o.get("seconds", 0) or 0 for o in obligations)
    by_backend = {}
    for o in discharged:
        by_backend[o.get("backend", "?")] = by_backend.get(o.get("backend", "?"), 0) + 1
    samples = []
    seen_f = set()
    for o in obligations:
        if o["function"] in seen_f or o["status"] != "discharged":
            continue
        seen_f.add(o["function"])
        samples.append({k: o.get(k) for k in ("id", "mode", "bounded", "path", "backend", "seconds", "outcome")})
        if len(samples) >= 12:
            break
    level = meta["level"]
    n_unb_dis = sum(1 for o in unb if o["status"] == "discharged")
    n_unb_known = sum(1 for o in unb if o.get("known_finding"))
    cov = {
        "explanation": meta["explanation"],
        "functions_under_contract": functions,
        "function_sources": getattr(mod, "SOURCES", lambda: {})(),
        # proof level: the obligations a recorded known finding violates are reported under known_findings and in the
        # assumptions, not counted as proved and not counted among the obligations the proof claim is about
        "obligations": (len(unb) - n_unb_known) if level == "proof" else len(obligations),
        "discharged": n_unb_dis if level == "proof" else len(discharged),
        "obligations_total": len(obligations),
        "discharged_total": len(discharged),
        "unbounded": {"obligations": len(unb), "discharged": n_unb_dis, "known_findings": n_unb_known},
        "bounded": {"obligations": len(bnd), "discharged": sum(1 for o in bnd if o["status"] == "discharged"),
                    "bounds": meta.get("bounds", "")},
        "violated": len(viol), "known_findings": len(known_hits), "undecided": len(undecided),
        "by_backend": by_backend,
        "solver_seconds": round(solver_s, 3),
        "solver_seconds_max": round(max([o.get("seconds", 0) or 0 for o in obligations] + [0]), 3),
        "jobs": len(jobs),
        "slowest_jobs_s": dict(sorted(_JOB_SECONDS.items(), key=lambda kv: -kv[1])[:8]),
        "checker_cmd": f"./check {prop} --tier {tier}",
        "trusted_base": meta.get("trusted_base", []),
        "samples": samples,
        "evaluations": len(obligations),
        "distinct_nontrivial": len({o["id"] for o in obligations if o.get("backend") not in ("concrete",)}),
        "rule": "one obligation = one contract clause on one feasible path of one real function under one harness configuration; non-trivial = needed a solver call",
        "exhaustive": False,
        "known_findings_printed": sorted(printed),
        "undecided_samples": [{k: o.get(k) for k in ("id", "reason", "path")} for o in undecided[:10]],
        # obligations that produced NO verdict on this run and are not counted as discharged: code outside engine LV's Python
        # subset (the bounded enumeration of the same function stands in), Lean not available (the lemma stays trusted)
        "no_verdict": [{k: o.get(k) for k in ("id", "status", "reason")} for o in obligations if o["status"] in ("not-translated", "not-run")],
    }
    kf_notes = [f"EXCLUDED-BY-KNOWN-FINDING {kid}: the obligations this recorded defect violates are not proved and not counted (see known_findings.json)" for kid in sorted(printed)]
    ev = {"property_id": prop, "tier": tier, "seed": int(seed), "level": level, "coverage": cov,
          "assumptions": STANDING_ASSUMPTIONS + meta.get("assumptions", []) + kf_notes,
          "wall_s": round(wall, 2), "violations": len(viol)}
    # a run restricted with --only covers part of the property: it must not replace the evidence of a full run
    with open(os.path.join(EVIDENCE_DIR, f"{prop}.json" if not partial else f".partial_{prop}.json"), "w") as f:
        json.dump(ev, f, indent=1, default=str)
    print(f"[{prop}] tier={tier} jobs={len(jobs)} obligations={len(obligations)} discharged={len(discharged)} "
          f"violated={len(viol)} known={len(known_hits)} undecided={len(undecided)} errors={len(errors)} wall={wall:.1f}s")
    for l in lines:
        print(l)
    if errors:
        for j, e in errors[:5]:
            print(f"CHECKER-ERROR job={j}: {e}", file=sys.stderr)
        return 3
    if viol:
        return 1
    if undecided:
        for o in undecided[:10]:
            print(f"UNDECIDED {o['id']}: {o.get('reason')}", file=sys.stderr)
        return 2
    if not obligations:
        print("no obligations generated", file=sys.stderr)
        return 3
    return 0


def _safe(s):
    return "".join(c if c.isalnum() or c in "._-" else "_" for c in s)[:120]
