#!/usr/bin/env python3
"""Confirm a seeded change and run the checks against it WITHOUT touching /repo (parallel-safe variant of tools_seed.py).
   tools_seed2.py <seeded/ID> <PROP> [<PROP> ...]
 1. scratch worktree of /repo HEAD under /tmp: demo.py passes without the patch and fails with it;
 2. the checks are run against the patched worktree (RVERIF_REPO) and write to a scratch output directory (RVERIF_OUT);
 3. seeded/ID/result.json; the worktree is removed."""
import json, os, subprocess, sys, tempfile, shutil
sd = os.path.abspath(sys.argv[1]); props = sys.argv[2:]
patch = os.path.join(sd, "patch.diff"); demo = os.path.join(sd, "demo.py")
res = {"seed": os.path.basename(sd), "checks": {}}
wt = tempfile.mkdtemp(prefix="seedwt_"); shutil.rmtree(wt)
out = tempfile.mkdtemp(prefix="seedout_")
subprocess.check_call(["git", "-C", "/repo", "worktree", "add", "-q", "--detach", wt, "HEAD"])
try:
    env = dict(os.environ, PYTHONPATH=wt, PYTHONDONTWRITEBYTECODE="1")
    r0 = subprocess.run(["/venv/bin/python", demo], cwd=wt, env=env, capture_output=True, text=True, timeout=1800)
    subprocess.check_call(["git", "-C", wt, "apply", patch])
    r1 = subprocess.run(["/venv/bin/python", demo], cwd=wt, env=env, capture_output=True, text=True, timeout=1800)
    res["demo_without_patch_exit"] = r0.returncode
    res["demo_with_patch_exit"] = r1.returncode
    res["demo_with_patch_tail"] = (r1.stdout + r1.stderr)[-600:]
    if r0.returncode != 0:
        res["demo_without_patch_tail"] = (r0.stdout + r0.stderr)[-600:]
    cenv = dict(os.environ, RVERIF_REPO=wt, RVERIF_OUT=out)
    procs = {p: subprocess.Popen(["./check", p], cwd="/verif", env=cenv, stdout=subprocess.PIPE, stderr=subprocess.DEVNULL, text=True) for p in props}
    for p, pr in procs.items():
        so, _ = pr.communicate(timeout=3600)
        lines = [l.replace(out, "<out>") for l in so.splitlines() if l.startswith(("VIOLATION", "[" + p))]
        res["checks"][p] = {"exit": pr.returncode, "violations": sum(1 for l in lines if l.startswith("VIOLATION")),
                            "first": [l for l in lines if l.startswith("VIOLATION")][:3], "summary": [l for l in lines if l.startswith("[")]}
finally:
    subprocess.call(["git", "-C", "/repo", "worktree", "remove", "--force", wt])
    shutil.rmtree(out, ignore_errors=True)
res["caught_by"] = [p for p, v in res["checks"].items() if v["exit"] == 1]
json.dump(res, open(os.path.join(sd, "result.json"), "w"), indent=1)
print(json.dumps({k: v for k, v in res.items() if k != "demo_with_patch_tail"}, indent=1)[:1800])
